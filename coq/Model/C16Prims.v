(* C16 - run-time library of the translator py/dv/gen_fitch.py (Gen/Fitch.v).

   Each definition states the Python semantics of one primitive the translator emits.  This file
   (together with the translator's compilation scheme, described in gen_fitch.py) is the trusted
   part of the translator tie; everything else is proved (Proofs/C16Gen*.v).

   Representation (as in Model/C16Model.v):
     set of state indexes          Z bitmask      {}            = 0
     list of sets / of ints        list Z
     Node                          Tree.tree      identity      = t_id
     node attribute `state_sets`   store          (heap variable `st` threaded through the code)
     dict taxon -> list of sets    option matrix  None          = Python None
     list-or-None (weights, score_by_character_list)  option (list Z)
   Lists are values: the translated code never mutates a list after another name refers to it
   (checked by the translator for the statements it accepts: append / pop(0) / item assignment only
   on a variable's own current value). *)
From Coq Require Import ZArith List Bool.
From DV Require Import Model.PyPrims Model.Tree Model.C16Model.
Import ListNotations.
Open Scope Z_scope.

(* result of a translated function: return value / exception, with the heap variables at that point *)
Inductive fres (H R : Type) : Type :=
| FRet (h : H) (r : R)
| FRaise (h : H) (e : err)
| FFuel.
Arguments FRet {H R} _ _.
Arguments FRaise {H R} _ _.
Arguments FFuel {H R}.

(* result of a translated loop: the live variables after normal exit / break, or an exception *)
Inductive lres (H T : Type) : Type :=
| LDone (t : T)
| LRaise (h : H) (e : err)
| LFuel.
Arguments LDone {H T} _.
Arguments LRaise {H T} _ _.
Arguments LFuel {H T}.

(* ---------- None ---------- *)
Definition py_is_none {A} (o : option A) : bool := match o with None => true | Some _ => false end.

(* ---------- sets (frozen semantics of set.intersection / set.union / truth value / ==) ---------- *)
Definition py_set_inter (a : Z) (others : list Z) : Z := fold_left Z.land others a.   (* a.intersection(o1, o2, ...) *)
Definition py_set_union (a : Z) (others : list Z) : Z := fold_left Z.lor others a.    (* a.union(o1, o2, ...) *)
Definition py_set_truthy (a : Z) : bool := negb (Z.eqb a 0).                          (* bool(a) *)
Definition py_set_eq (a b : Z) : bool := Z.eqb a b.                                   (* a == b *)

(* ---------- lists ---------- *)
Definition py_list_truthy {A} (l : list A) : bool := match l with [] => false | _ => true end.
Definition py_append {A} (l : list A) (x : A) : list A := l ++ [x].                    (* l.append(x) *)
Definition py_slice_to {A} (l : list A) (n : nat) : list A := firstn n l.             (* l[:n] *)
Definition py_slice_from {A} (l : list A) (n : nat) : list A := skipn n l.            (* l[n:] *)
Definition py_unpack2 {A} (l : list A) : res (A * A) :=                               (* a, b = l *)
  match l with [a; b] => Ok (a, b) | _ => Err ValueErr end.
Definition py_getitem {A} (l : list A) (n : nat) : res A :=                           (* l[n], n >= 0 *)
  match nth_error l n with Some x => Ok x | None => Err IndexErr end.
Definition py_pop0 {A} (l : list A) : res (A * list A) :=                             (* l.pop(0) *)
  match l with x :: r => Ok (x, r) | [] => Err IndexErr end.
Definition py_range (n : nat) : list nat := seq 0 n.                                  (* range(n) *)
Definition py_zip2 {A B} (a : list A) (b : list B) : list (A * B) := combine a b.      (* zip(a, b) *)
Fixpoint py_zip4 {A} (a b c d : list A) : list (A * A * A * A) :=                      (* zip(a, b, c, d) *)
  match a, b, c, d with
  | x :: a', y :: b', z :: c', u :: d' => (x, y, z, u) :: py_zip4 a' b' c' d'
  | _, _, _, _ => []
  end.

(* ---------- a list object that may be None ---------- *)
Definition py_olen (o : option (list Z)) : res nat :=                                 (* len(o) *)
  match o with Some l => Ok (length l) | None => Err TypeErr end.
Definition py_oappend (o : option (list Z)) (x : Z) : res (option (list Z)) :=        (* o.append(x) *)
  match o with Some l => Ok (Some (l ++ [x])) | None => Err AttrErr end.
Definition py_ogetitem (o : option (list Z)) (n : nat) : res Z :=                     (* o[n] *)
  match o with
  | None => Err TypeErr
  | Some l => match nth_error l n with Some x => Ok x | None => Err IndexErr end
  end.
Fixpoint py_list_iadd (l : list Z) (n : nat) (w : Z) : option (list Z) :=
  match l, n with
  | [], _ => None
  | x :: r, O => Some ((x + w) :: r)
  | x :: r, S k => match py_list_iadd r k w with Some r' => Some (x :: r') | None => None end
  end.
Definition py_oiadd_item (o : option (list Z)) (n : nat) (w : Z) : res (option (list Z)) :=   (* o[n] += w *)
  match o with
  | None => Err TypeErr
  | Some l => match py_list_iadd l n w with Some l' => Ok (Some l') | None => Err IndexErr end
  end.

(* ---------- Node ---------- *)
Definition py_child_nodes (n : tree) : list tree := t_kids n.                         (* n.child_nodes() *)
Definition py_taxon (n : tree) : option Z := t_taxon n.                               (* n.taxon *)
Definition py_getattr (st : store) (n : tree) : res ssl :=                            (* getattr(n, "state_sets") *)
  match lookup (t_id n) st with Some v => Ok v | None => Err AttrErr end.
Definition py_setattr (st : store) (n : tree) (v : ssl) : store := st_set st (t_id n) v.   (* setattr(n, "state_sets", v) *)
(* a node that may be None (parent_node); Node defines neither __bool__ nor __len__: truthy *)
Definition py_getattr_opt (st : store) (n : option tree) : res ssl :=
  match n with Some x => py_getattr st x | None => Err AttrErr end.
Definition py_optnode_truthy (n : option tree) : bool := negb (py_is_none n).

(* a node as delivered by preorder_node_iter, together with its parent_node *)
Definition pnode := (tree * option tree)%type.
Definition pn_node (x : pnode) : tree := fst x.
Definition py_parent_node (x : pnode) : option tree := snd x.                         (* nd.parent_node *)
Fixpoint preorder_with_parent (parent : option tree) (t : tree) : list pnode :=
  match t with
  | T _ _ _ _ ks => (t, parent) :: flat_map (preorder_with_parent (Some t)) ks
  end.

(* ---------- dict taxon -> state set list (or None) ---------- *)
Definition py_dict_getitem (d : option matrix) (key : option Z) : res ssl :=          (* d[key] *)
  match d with
  | None => Err TypeErr
  | Some m => match map_get m key with Some v => Ok v | None => Err KeyErr end
  end.
Definition py_dict_values (d : option matrix) : res (list ssl) :=                     (* list(d.values()) *)
  match d with None => Err AttrErr | Some m => Ok (map snd m) end.
Definition py_dict_truthy (d : option matrix) : bool :=                               (* bool(d) *)
  match d with None => false | Some [] => false | Some _ => true end.

(* ---------- Tree / CharacterMatrix objects as far as parsimony_score looks at them ---------- *)
Record tree_obj := mkTreeObj { to_namespace : Z; to_seed : tree }.
Record chars_obj := mkCharsObj { co_namespace : Z; co_alphabet : alphabet; co_rows : cmatrix }.
Definition py_is (a b : Z) : bool := Z.eqb a b.                                       (* a is b (object identity) *)
Definition py_postorder_node_iter (t : tree_obj) : list tree := postorder (to_seed t).
Definition py_preorder_node_iter (t : tree_obj) : list pnode := preorder_with_parent None (to_seed t).
Definition py_taxon_state_sets_map (c : chars_obj) (gaps_as_missing : bool) : option matrix :=
  Some (taxon_state_sets_map (co_alphabet c) gaps_as_missing (co_rows c)).
