(* C05: specification vocabulary (definitions only) used by the statements in Props/C05.v:
   what "the weighted fraction of trees containing a split" etc. mean, independent of the
   dictionaries and caches of the model. *)
From Coq Require Import ZArith QArith Qabs Qreduction List Bool.
From DV Require Import Model.PyPrims Gen.BitFns Gen.Consts Model.C05Model.
Import ListNotations.
Open Scope Z_scope.

Definition splits_of (t : tree_in) : list Z := map r_split (t_recs t).

Definition contains_split (s : Z) (t : tree_in) : bool := zmem s (splits_of t).

Fixpoint qsum (l : list Q) : Q :=
  match l with [] => 0%Q | x :: r => (x + qsum r)%Q end.

(* sum of the weights of all counted trees *)
Definition total_weight (c : config) (ts : list tree_in) : Q := qsum (map (weight_to_use c) ts).

(* sum of the weights of the trees that contain split s *)
Definition weight_containing (c : config) (s : Z) (ts : list tree_in) : Q :=
  qsum (map (weight_to_use c) (filter (contains_split s) ts)).

(* the same with multiplicity (a split listed k times in one encoding counts k times) *)
Definition occ (s : Z) (t : tree_in) : Z := Z.of_nat (count_occ Z.eq_dec (splits_of t) s).
Definition weighted_occ (c : config) (s : Z) (ts : list tree_in) : Q :=
  qsum (map (fun t => (weight_to_use c t * inject_Z (occ s t))%Q) ts).

(* the frequency the property asks for.  When the weights sum to zero the code normalises by
   the number of trees (calc_normalization_weight); stated here, excluded by the hypotheses of
   freq_exact. *)
Definition exact_freq (c : config) (ts : list tree_in) (s : Z) : Q :=
  if Qeq_bool (total_weight c ts) 0
  then (weight_containing c s ts / inject_Z (Z.of_nat (length ts)))%Q
  else (weight_containing c s ts / total_weight c ts)%Q.

(* edge lengths / node ages recorded for split s over the counted trees, in counting order *)
Definition values_of (f : brec -> option Q) (s : Z) (ts : list tree_in) : list (option Q) :=
  flat_map (fun t => map f (filter (fun r => r_split r =? s) (t_recs t))) ts.

(* histories: any interleaving of counting, merging and reading *)
Inductive hop :=
| HCount (t : tree_in)                 (* count_splits_on_tree *)
| HUpdate (ts : list tree_in)          (* update(other), other having counted ts *)
| HQuery (s : Z)                       (* self[s] *)
| HFreqs                               (* self.split_frequencies *)
| HCalc.                               (* self.calc_freqs() *)

Definition hstep (c : config) (d : sd) (o : hop) : sd * option Q :=
  match o with
  | HCount t => (fst (count_tree c d t), None)
  | HUpdate ts => (update d (count_trees c sd_empty ts), None)
  | HQuery s => let '(d', q) := query d s in (d', Some q)
  | HFreqs => (fst (get_freqs d), None)
  | HCalc => (fst (calc_freqs d), None)
  end.

(* the answers of the queries, in order *)
Fixpoint hrun (c : config) (d : sd) (ops : list hop) : list Q :=
  match ops with
  | [] => []
  | o :: r => let '(d', a) := hstep c d o in
              match a with Some q => q :: hrun c d' r | None => hrun c d' r end
  end.

(* what they must be: the exact frequency over the trees counted so far *)
Fixpoint hspec (c : config) (seen : list tree_in) (ops : list hop) : list Q :=
  match ops with
  | [] => []
  | HCount t :: r => hspec c (seen ++ [t]) r
  | HUpdate ts :: r => hspec c (seen ++ ts) r
  | HQuery s :: r => exact_freq c seen s :: hspec c seen r
  | _ :: r => hspec c seen r
  end.

(* statistics *)
Definition qlen (xs : list Q) : Q := inject_Z (Z.of_nat (length xs)).
Definition mean_of (xs : list Q) : Q := (qsum xs / qlen xs)%Q.
Definition sample_variance_of (xs : list Q) : Q :=
  (qsum (map (fun x => (x - mean_of xs) * (x - mean_of xs)) xs) / (qlen xs - 1))%Q.

(* target trees *)
Fixpoint st_preorder (t : stree) : list stree :=
  match t with SN _ _ ks => t :: flat_map st_preorder ks end.

Definition st_is_leaf (t : stree) : bool := match sn_kids t with [] => true | _ => false end.

(* non-seed nodes in preorder: (split, is_leaf) *)
Definition st_nonroot (t : stree) : list (Z * bool) :=
  flat_map (fun k => map (fun n => (sn_split n, st_is_leaf n)) (st_preorder k)) (sn_kids t).

Definition olen (l : option Q) : Q := match l with Some x => x | None => 0%Q end.

(* (leaf split, distance from the seed node) for every leaf, left to right; a missing length
   counts as 0 (which is how Edge.collapse treats it) *)
Fixpoint st_tips (acc : Q) (t : stree) : list (Z * Q) :=
  match t with
  | SN s l ks =>
    match ks with
    | [] => [(s, (acc + olen l)%Q)]
    | _ => flat_map (st_tips (acc + olen l)%Q) ks
    end
  end.

Definition st_root_tips (t : stree) : list (Z * Q) :=
  flat_map (st_tips 0%Q) (sn_kids t).

(* TreeArray filled by add_tree, one tree after the other *)
Fixpoint ta_add_trees (fw : bool) (c : config) (a : ta) (ts : list tree_in) : res ta :=
  match ts with
  | [] => Ok a
  | t :: r => match ta_add_tree fw c a t with
              | Ok a' => ta_add_trees fw c a' r
              | Err e => Err e
              | OutOfFuel => OutOfFuel
              end
  end.

(* which theorem applies to the default min_freq is decided by computation on Gen/Consts *)
Inductive consensus_rule := MajorityRule | GreedyRule.
Definition rule_for (th : Q) : consensus_rule :=
  if qlt_bool (1 # 2) th then MajorityRule else GreedyRule.
