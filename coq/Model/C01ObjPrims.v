(* Run-time library of the object-level translator py/dv/gen_bipartition_obj.py (coq/Gen/BipartitionObj.v).
   TRUSTED meanings (the translator's primitive semantics); the heap is Model/C01ObjModel.v oheap. *)
From Coq Require Import ZArith List Bool.
From DV Require Import Model.PyPrims Model.Tree Model.C01Model Model.C01GenPrims Model.C01ObjModel.
Import ListNotations.
Open Scope Z_scope.

(* Bipartition(keywords) with at most the keywords compile_bipartition / is_mutable (None = keyword absent; `edge=`
   is ignored by __init__): masks 0 / 0 / None; with compile_bipartition true compile_split_bitmask returns early
   (no tree leafset) and is_mutable ends up True unless given; without it is_mutable is what was given.
   Proved equal to the generated Bipartition.__init__ in Props/C01Gen.v (prim_bip_new_is_generated_init). *)
Definition prim_bip_new (compile_bipartition is_mutable : option (option bool)) : bip :=
  let im := kw_get is_mutable None in
  if truthy_ob (kw_get compile_bipartition (Some true))
  then mkB (Some 0) (Some 0) None None None (match im with None => Some true | Some _ => im end)
  else mkB (Some 0) (Some 0) None None None im.

(* the property Edge.bipartition (getter): `if self._bipartition is None: self._bipartition =
   Bipartition(edge=self, is_mutable=True)`; `return self._bipartition` *)
Definition oh_getter (nid : Z) (h : oheap) : Z * oheap :=
  match oh_slot h nid with
  | Some c => (c, h)
  | None => let '(c, h1) := oh_alloc (prim_bip_new None (Some (Some true))) h in (c, oh_bind nid c h1)
  end.

(* <object>.method(...) where the method assigns attributes of self and may raise *)
Definition oh_update (c : Z) (f : bip -> res bip) (h : oheap) : res oheap :=
  match st_get (oh_store h) c with
  | Some b => do b' <- f b;; Ok (mkOH ((c, b') :: oh_store h) (oh_next h) (oh_emap h))
  | None => Err AttrErr           (* no such object: references never dangle *)
  end.

(* map(f, tree_edges) forced to the end: f is given the edge (its head node's id) and acts on the heap *)
Fixpoint oh_map_edges (f : Z -> oheap -> res (oheap * Z)) (edges : list Z) (h : oheap) : res (oheap * list Z) :=
  match edges with
  | [] => Ok (h, [])
  | e :: r =>
    match f e h with
    | Ok (h1, c) =>
      match oh_map_edges f r h1 with
      | Ok (h2, cs) => Ok (h2, c :: cs)
      | Err er => Err er
      | OutOfFuel => OutOfFuel
      end
    | Err er => Err er
    | OutOfFuel => OutOfFuel
    end
  end.

(* the objects now on the edges of tree_edges (what a caller reads from the edges) *)
Definition edge_cells (h : oheap) (edges : list Z) : list Z :=
  flat_map (fun e => match oh_slot h e with Some c => [c] | None => [] end) edges.
