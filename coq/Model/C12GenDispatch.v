(* C12, translator tie: copy.deepcopy with the GENERATED overrides.

   copy.deepcopy(x, memo) itself is CPython's (Lib/copy.py) and stays hand-modelled, exactly as in
   Model.C12Model.dc_step: immutable values are returned as they are; `y = memo.get(id(x))` short-cuts;
   otherwise the type decides - classes with a __deepcopy__ method (Annotable and its subclasses, Taxon,
   TaxonNamespace, AnnotationSet: the functions of coq/Gen/CopyGen.v, translated from the current source),
   atomic objects, and the built-in containers / plain objects whose reconstruction (_deepcopy_list, _dict,
   _tuple, __reduce_ex__) is the hand model's. *)
From Coq Require Import ZArith List Bool.
From DV Require Import Model.PyPrims Model.C12Model Model.C12GenPrims Gen.CopyGen.
Import ListNotations.
Open Scope Z_scope.

Definition dc_step_gen (rec : rec_t) (s : st) (v : val) : res (st * val) :=
  match v with
  | P _ => Ok (s, v)
  | R x =>
    match alookup x (sm s) with
    | Some y => Ok (s, R y)
    | None =>
      match hget (sh s) x with
      | None => Err OtherErr
      | Some ob =>
        match okind ob with
        | KAnnotable => py_Annotable_deepcopy rec s x
        | KTaxon => py_Taxon_deepcopy rec s x
        | KNamespace => py_TaxonNamespace_deepcopy rec s x
        | KAnnSet => py_AnnotationSet_deepcopy rec s x
        | _ => dc_step rec s v
        end
      end
    end
  end.

Fixpoint dc_gen (fuel : nat) (s : st) (v : val) : res (st * val) :=
  match fuel with
  | O => OutOfFuel
  | S f => dc_step_gen (dc_gen f) s v
  end.

(* copy.deepcopy(root, memo) with memo pre-seeded by seeds, on the generated overrides *)
Definition run_seeded_gen (nf : bool) (fuel : nat) (h : heap) (seeds : list Z) (root : Z) : res (st * val) :=
  dc_gen fuel (init_st nf h seeds) (R root).

(* ---- "equal up to the ghost record" --------------------------------------------------------------------
   The hand model writes a ghost record sc (note) that nothing reads; generated code has no ghost writes.
   sim s t: the two states agree on everything the interpreter reads. *)
Definition sim (s t : st) : Prop := sh s = sh t /\ sm s = sm t /\ snone s = snone t.

Definition rsim_s (a b : res st) : Prop :=
  match a, b with
  | Ok s, Ok t => sim s t
  | Err e, Err e' => e = e'
  | OutOfFuel, OutOfFuel => True
  | _, _ => False
  end.

Definition rsim_v (a b : res (st * val)) : Prop :=
  match a, b with
  | Ok (s, v), Ok (t, w) => sim s t /\ v = w
  | Err e, Err e' => e = e'
  | OutOfFuel, OutOfFuel => True
  | _, _ => False
  end.

(* two implementations of the recursive call copy.deepcopy(., memo) that agree up to the ghost *)
Definition RecSim (r1 r2 : rec_t) : Prop := forall s t v, sim s t -> rsim_v (r1 s v) (r2 t v).

(* the recursive call never shrinks the heap *)
Definition RecLen (rec : rec_t) : Prop :=
  forall s v s' v', rec s v = Ok (s', v') -> hlen (sh s) <= hlen (sh s').
