(* C02: admissibility of annotations for the metadata-comment round trip (statements in Props/C02.v). *)
From Coq Require Import ZArith List Bool.
From DV Require Import Model.PyPrims Model.Tokenizer Model.Newick Model.C02Spec Model.C02Meta Model.C02MetaAnn.
Import ListNotations.
Open Scope Z_scope.

Definition no_char (c : Z) (s : str) : bool := negb (zmem c s).

(* an annotation name: non-empty, no "=" (the lazy (.+?)= would cut it there), no newline ("." does not
   match it), no leading / trailing whitespace (the reader strips) *)
Definition key_ok (k : str) : bool :=
  negb (is_nil k) && no_char EQUALS k && no_char NL k && no_edge_ws k.

(* the text of a scalar value: non-empty (.+? needs a character), no "," (the lazy .+? ends at the first
   separator), no newline, no leading / trailing whitespace, not starting with "{" (list syntax) *)
Definition atom_text_ok (s : str) : bool :=
  negb (is_nil s) && no_char COMMA s && no_char NL s && no_edge_ws s && negb (starts_with [LBRACE] s).

(* a scalar text that the reader leaves a string: not "..." in double quotes (the quotes are removed),
   not true / false in any letter case (becomes a bool) *)
Definition plain_text (lower : str -> str) (s : str) : bool :=
  negb (starts_with [DQUOTE] s && ends_with_char DQUOTE s)
  && negb (str_eqb (lower s) str_false) && negb (str_eqb (lower s) str_true).

(* the text of a list element: non-empty, no "," (split), no "}" (the lazy .+?} would end there), no newline *)
Definition item_text_ok (s : str) : bool :=
  negb (is_nil s) && no_char COMMA s && no_char NL s && no_char RBRACE s.

Definition value_ok (lower : str -> str) (v : aval) : bool :=
  match v with
  | VAtom (ABool _) => true
  | VAtom a => atom_text_ok (render_atom a) && plain_text lower (render_atom a)
  | VList l => (2 <=? Z.of_nat (length l)) && forallb (fun a => item_text_ok (render_atom a)) l
  end.

Definition annot_ok (lower : str -> str) (a : annot) : bool := key_ok (fst a) && value_ok lower (snd a).

(* the annotations of one item: each admissible, and the first name does not start with "&" (the comment
   would start with "&&", the NHX form) *)
Definition annots_ok (lower : str -> str) (anns : list annot) : bool :=
  forallb (annot_ok lower) anns
  && match anns with a :: _ => negb (starts_with [AMP] (fst a)) | [] => true end.

(* what the reader delivers for a written value: every scalar as the string "{}".format gives, except
   bools; lists as lists of such strings *)
Definition expected_rval (v : aval) : rval :=
  match v with
  | VAtom (ABool b) => RBool b
  | VAtom a => RStr (render_atom a)
  | VList l => RList (map render_atom l)
  end.

Definition expected_rannot (a : annot) : rannot := (fst a, expected_rval (snd a)).
