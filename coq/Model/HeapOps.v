(* Shared MUTABLE-TREE CORE, part 2 (used by C03, C07, C08): executable model of the Tree-level
   structure-changing methods of src/dendropy/datamodel/treemodel/_tree.py over Model/Heap.v, the
   operation language `op` and its interpreter `run_op`.  Definitions only (no proofs).

   Conventions
   * every method is a function  heap -> hres ; HErr e h' = Python raised e and left state h'.
   * generators that are consumed while the loop body mutates the tree (postorder_node_iter in
     suppress_unifurcations, collapse_unweighted_edges, prune_taxa, ladderize; preorder in reorder):
     the visiting order is fixed at loop entry (`with_sub` reads the tree once).  This is what the
     lazy stack machines of Node.postorder_iter/preorder_iter produce for these loop bodies: a body
     only changes the child list of the yielded node's PARENT (already expanded) or re-orders /
     re-lengths the yielded node's own children after they were yielded; conditions that the code
     evaluates at yield time are evaluated on the CURRENT heap here as well.
   * update_bipartitions=True is modelled STRUCTURALLY only: encode_bipartitions(su, cb) collapses an
     unrooted basal bifurcation when cb and suppresses unifurcations when su (the bit masks
     themselves are not part of this model; see C01).
   * randomness and id()-dependent choices are inputs (scripts) of the operation.
   * HFuel also stands for an exhausted rng script. *)
From Coq Require Import ZArith List Bool Lia.
From DV Require Import Model.PyPrims Model.Tree Model.Heap.
Import ListNotations.
Open Scope Z_scope.

Definition len {A} (l : list A) : Z := Z.of_nat (length l).

(* "not self._is_rooted" *)
Definition not_rooted (h : heap) : bool :=
  match rooted h with Some true => false | _ => true end.

(* ---------- suppress_unifurcations ---------- *)

(* body of "for nd in self.postorder_node_iter()" *)
Definition su_step (nd : Z) (h : heap) : hres :=
  match kids h nd with
  | [ch] =>
    let h1 := add_len_none ch (elen h nd) h in
    match parent h1 nd with
    | Some q =>
      match index_of nd (kids h1 q) with
      | None => HErr ValueErr h1
      | Some pos =>
        hdo h2 <- remove_child_plain q nd h1 ;;
        let h3 := insert_child q pos ch h2 in
        HOk (set_parent nd None h3)
      end
    | None =>
      let h2 := set_parent ch None h1 in
      HOk (set_seed_node ch h2)
    end
  | _ => HOk h
  end.

Definition suppress_unifurcations (h : heap) : hres :=
  with_sub h (seed h) (fun t => hfold su_step (post_ids t) h).

(* ---------- collapse_basal_bifurcation / deroot / polytomize_root ---------- *)

Definition collapse_basal_bifurcation (set_unrooted : bool) (h : heap) : hres :=
  match kids h (seed h) with
  | [c0; c1] =>
    let pick :=                                           (* (to_keep, to_del) *)
      if 2 <=? len (kids h c1) then Some (c0, c1)
      else if 2 <=? len (kids h c0) then Some (c1, c0) else None in
    match pick with
    | None => HOk h
    | Some (keep, del) =>
      (* if to_del.length is not None: to_keep.length = to_del.length if to_keep.length is None
         else to_keep.length + to_del.length   (repo commit 1fc3f136) *)
      let h1 := add_len_none keep (elen h del) h in
      hdo h2 <- edge_collapse del false h1 ;;
      HOk (if set_unrooted then set_rooted (Some false) h2 else h2)
    end
  | _ => HOk h
  end.

Definition deroot (h : heap) : hres := collapse_basal_bifurcation true h.

Definition polytomize_root (set_unrooted : bool) (h : heap) : hres :=
  hdo h1 <- root_polytomy (fuel_of h) (seed h) h ;;
  HOk (if set_unrooted then set_rooted (Some false) h1 else h1).

(* structural effect of encode_bipartitions(suppress_unifurcations=su,
   collapse_unrooted_basal_bifurcation=cb); also the tail of reseed_at *)
Definition encode_structural (su cb : bool) (h : heap) : hres :=
  hdo h1 <- (if cb && not_rooted h && (len (kids h (seed h)) =? 2)
             then collapse_basal_bifurcation true h else HOk h) ;;
  if su then suppress_unifurcations h1 else HOk h1.

(* self.update_bipartitions() with default arguments, when requested *)
Definition ub_tail (ub : bool) (h : heap) : hres :=
  if ub then encode_structural true true h else HOk h.

(* self.update_bipartitions(suppress_unifurcations=su), when requested: prune_subtree,
   filter_leaf_nodes and prune_leaves_without_taxa forward their own flag (repo commit d84aee8a) *)
Definition ub_tail_su (ub su : bool) (h : heap) : hres :=
  if ub then encode_structural su true h else HOk h.

(* ---------- reseed_at and the re-rooting family ---------- *)

(* edges_to_invert: x, parent x, ... as long as the node has a parent *)
Fixpoint chain (fuel : nat) (h : heap) (x : Z) : option (list Z) :=
  match fuel with
  | O => None
  | S n =>
    match parent h x with
    | None => Some []
    | Some p => match chain n h p with Some l => Some (x :: l) | None => None end
    end
  end.

Definition reseed_at (ns : Z) (ub cb su : bool) (h : heap) : hres :=
  if Z.eqb (seed h) ns then encode_structural su cb h else
  match parent h ns with
  | None => HOk h                                         (* "if old_parent_node is None: return" *)
  | Some _ =>
    let leaf := negb (is_internal h ns) in
    match chain (fuel_of h) h ns with
    | None => HFuel
    | Some ch =>
      hdo h1 <- hfold edge_invert (rev ch) h ;;
      hdo h2 <- (if leaf && su then
                   match kids h1 ns with
                   | [nsn_ch] =>
                     hdo h' <- remove_child_plain ns nsn_ch h1 ;;
                     hfold (add_child ns) (kids h' nsn_ch) h'
                   | _ => HOk h1
                   end
                 else HOk h1) ;;
      let h3 := set_parent ns None h2 in
      let h4 := set_seed_node ns h3 in
      encode_structural su cb h4
    end
  end.

Definition to_outgroup_position (og : Z) (ub su : bool) (h : heap) : hres :=
  match parent h og with
  | None => HErr AssertErr h
  | Some p =>
    hdo h1 <- reseed_at p ub false su h ;;
    hdo h2 <- remove_child_plain p og h1 ;;
    HOk (insert_child p 0 og h2)
  end.

Definition reroot_at_node (n : Z) (ub su cb : bool) (h : heap) : hres :=
  hdo h1 <- reseed_at n false false su h ;;
  let h2 := set_rooted (Some true) h1 in
  if ub then encode_structural su cb h2 else HOk h2.

Definition reroot_at_edge (c : Z) (l1 l2 : option Z) (ub su : bool) (h : heap) : hres :=
  match parent h c with
  | None => HErr AttrErr h                                (* None.new_child *)
  | Some ot =>
    let ns := next h in
    hdo h1 <- new_child ot None None l1 h ;;
    hdo h2 <- remove_child_plain ot c h1 ;;
    hdo h3 <- add_child ns c h2 ;;
    reroot_at_node ns ub su true (set_elen c l2 h3)
  end.

(* x, parent x, ..., root *)
Fixpoint ancs (fuel : nat) (h : heap) (x : Z) : option (list Z) :=
  match fuel with
  | O => None
  | S n =>
    match parent h x with
    | None => Some [x]
    | Some p => match ancs n h p with Some l => Some (x :: l) | None => None end
    end
  end.

Definition len0 (h : heap) (x : Z) : Z := match elen h x with Some l => l | None => 0 end.

(* Node.distance_from_root() as written *)
Definition dist_from_root (h : heap) (x : Z) (anc : list Z) : res Z :=
  match parent h x, elen h x with
  | Some _, Some l => Ok (l + fold_right (fun a s => len0 h a + s) 0 (tl anc))
  | None, Some l => Ok l
  | Some p, None => match elen h p with Some lp => Ok lp | None => Err TypeErr end
  | None, None => Ok 0
  end.

(* first element of l1 that occurs in l2 *)
Fixpoint first_common (l1 l2 : list Z) : option Z :=
  match l1 with
  | [] => None
  | x :: r => if memz x l2 then Some x else first_common r l2
  end.

Fixpoint upto (m : Z) (l : list Z) : list Z :=          (* prefix of l before m *)
  match l with
  | [] => []
  | x :: r => if Z.eqb x m then [] else x :: upto m r
  end.

Inductive mid_found := MidEdge (target : Z) (head_len : Z) | MidNode (n : Z) | MidNone | MidTypeErr.

(* the "going up" loop; path = n1 :: ancestors strictly below the mrca *)
Fixpoint mid_loop (h : heap) (path : list Z) (plen : Z) : mid_found :=
  match path with
  | [] => MidNone
  | cur :: r =>
    match elen h cur with
    | None => MidTypeErr
    | Some l =>
      if plen <? l then MidEdge cur plen
      else if l <? plen then mid_loop h r (plen - l)
      else match parent h cur with Some p => MidNode p | None => MidNone end
    end
  end.

(* reroot_at_midpoint; (tx1, tx2) = pdm.max_pairwise_distance_taxa() as observed (set order) *)
Definition reroot_at_midpoint (tx1 tx2 : Z) (ub su cb : bool) (h : heap) : hres :=
  with_sub h (seed h) (fun t =>
    let hits := filter (fun nd => match taxon h nd with
                                  | Some x => Z.eqb x tx1 || Z.eqb x tx2 | None => false end)
                       (leaf_ids t) in
    match hits with
    | s0 :: s1 :: _ =>
      match ancs (fuel_of h) h s0, ancs (fuel_of h) h s1 with
      | Some a0, Some a1 =>
        match dist_from_root h s0 a0, dist_from_root h s1 a1 with
        | Ok d0, Ok d1 =>
          let '(n1, an1, an2) := if d0 <? d1 then (s1, a1, a0) else (s0, a0, a1) in
          match first_common an1 an2 with
          | None => HFuel
          | Some mrca =>
            let up1 := upto mrca an1 in
            let up2 := upto mrca an2 in
            let dist := fold_right (fun a s => len0 h a + s) 0 (up1 ++ up2) in
            let plen := dist / 2 in
            hdo h1 <-
              match mid_loop h up1 plen with
              | MidTypeErr => HErr TypeErr h
              | MidNone => HErr AssertErr h
              | MidNode b => reseed_at b false false su h
              | MidEdge target head_len =>
                match elen h target, parent h target with
                | Some tl, Some old_tail =>
                  let tail_len := tl - head_len in
                  hdo h1 <- remove_child_plain old_tail target h ;;
                  let ns := next h1 in
                  let h2 := alloc None None None h1 in
                  hdo h3 <- add_child ns target h2 ;;
                  let h4 := set_elen target (Some head_len) h3 in
                  hdo h5 <- add_child old_tail ns h4 ;;
                  let h6 := set_elen ns (Some tail_len) h5 in
                  reseed_at ns false false su h6
                | _, _ => HErr TypeErr h
                end
              end ;;
            let h2 := set_rooted (Some true) h1 in
            if ub then encode_structural false cb h2 else HOk h2
          end
        | _, _ => HErr TypeErr h
        end
      | _, _ => HFuel
      end
    | _ => HErr AttrErr h
    end).

(* ---------- collapse_unweighted_edges ---------- *)

Definition collapse_unweighted_edges (thr : Z) (ub : bool) (h : heap) : hres :=
  hdo h1 <- with_sub h (seed h) (fun t =>
    hfold (fun nd h =>
             if (match elen h nd with None => true | Some l => l <=? thr end) && is_internal h nd
             then edge_collapse nd false h else HOk h)
          (post_ids t) h) ;;
  ub_tail ub h1.

(* ---------- resolve_polytomies ---------- *)

(* deterministic branch: while len(node._child_nodes) > limit *)
Fixpoint resolve_det (fuel : nat) (limit : Z) (node : Z) (h : heap) : hres :=
  match fuel with
  | O => HFuel
  | S n =>
    if limit <? len (kids h node) then
      match kids h node with
      | c1 :: c2 :: _ =>
        let nn1 := next h in
        let h1 := set_elen nn1 (Some 0) (alloc None None None h) in
        hdo h2 <- remove_child_plain node c1 h1 ;;
        hdo h3 <- remove_child_plain node c2 h2 ;;
        hdo h4 <- add_child nn1 c1 h3 ;;
        hdo h5 <- add_child nn1 c2 h4 ;;
        hdo h6 <- add_child node nn1 h5 ;;
        resolve_det n limit node h6
      | _ => HErr IndexErr h
      end
    else HOk h
  end.

(* rng branch.  script for one polytomy: indices returned by rng.sample(node._child_nodes, k) in
   the order returned, and the index rng.choice(attachment_points) picks for each attachment *)
Fixpoint nths (l : list Z) (ix : list nat) : option (list Z) :=
  match ix with
  | [] => Some []
  | i :: r => match nth_error l i, nths l r with
              | Some x, Some xs => Some (x :: xs)
              | _, _ => None
              end
  end.

Fixpoint resolve_attach (node : Z) (to_attach_rev : list Z) (choices : list nat)
         (points : list Z) (h : heap) : hres :=
  match to_attach_rev with
  | [] => HOk h
  | next_child :: rest =>
    match choices with
    | [] => HFuel
    | ci :: choices' =>
      match nth_error points ci with
      | None => HFuel
      | Some next_sib =>
        let na := next h in
        let h1 := alloc None None None h in
        hdo h2 <-
          (if Z.eqb next_sib node then
             let cc := kids h1 node in
             hdo a1 <- add_child node na h1 ;;
             hdo a2 <- hfold (fun c h => hdo b <- remove_child_plain node c h ;; add_child na c b) cc a1 ;;
             add_child node next_child a2
           else
             match parent h1 next_sib with
             | None => HErr AttrErr h1
             | Some p =>
               hdo a1 <- add_child p na h1 ;;
               hdo a2 <- remove_child_plain p next_sib a1 ;;
               hdo a3 <- add_child na next_sib a2 ;;
               add_child na next_child a3
             end) ;;
        let h3 := set_elen na (Some 0) h2 in
        resolve_attach node rest choices' (points ++ [na; next_child]) h3
      end
    end
  end.

Definition resolve_rng (limit : Z) (node : Z) (sample : list nat) (choices : list nat) (h : heap) : hres :=
  match nths (kids h node) sample with
  | None => HFuel
  | Some to_attach =>
    hdo h1 <- hfold (remove_child_plain node) to_attach h ;;
    resolve_attach node (rev to_attach) choices (kids h1 node ++ [node]) h1
  end.

Fixpoint resolve_each (limit : Z) (nodes : list Z) (script : option (list (list nat * list nat)))
         (h : heap) : hres :=
  match nodes with
  | [] => HOk h
  | node :: r =>
    match script with
    | None =>
      hdo h1 <- resolve_det (S (length (kids h node))) limit node h ;;
      resolve_each limit r None h1
    | Some [] => HFuel
    | Some ((sample, choices) :: sc) =>
      hdo h1 <- resolve_rng limit node sample choices h ;;
      resolve_each limit r (Some sc) h1
    end
  end.

Definition resolve_polytomies (limit : Z) (script : option (list (list nat * list nat)))
           (ub : bool) (h : heap) : hres :=
  hdo h1 <- with_sub h (seed h) (fun t =>
    let polytomies := filter (fun nd => limit <? len (kids h nd)) (post_ids t) in
    resolve_each limit polytomies script h) ;;
  ub_tail ub h1.

(* ---------- pruning family ---------- *)

Definition prune_subtree (node : Z) (ub su : bool) (h : heap) : hres :=
  match parent h node with
  | None => HErr TypeErr h                               (* "Node has no parent and is implicit root" *)
  | Some p =>
    hdo h1 <- remove_child_plain p node h ;;
    hdo h2 <- (if su then suppress_unifurcations h1 else HOk h1) ;;
    ub_tail_su ub su h2
  end.

(* nd.edge.tail_node.remove_child(nd); `none_err` is what a missing parent produces *)
Definition remove_from_parent (none_err : err) (nd : Z) (h : heap) : hres :=
  match parent h nd with
  | None => HErr none_err h
  | Some p => remove_child_plain p nd h
  end.

(* while True: remove the current leaves that fail the test; repeat while recursive *)
Fixpoint leaf_prune_loop (fuel : nat) (bad : heap -> Z -> bool) (none_err : err)
         (recursive : bool) (h : heap) : hres :=
  match fuel with
  | O => HFuel
  | S n =>
    with_sub h (seed h) (fun t =>
      let rm := filter (bad h) (leaf_ids t) in
      hdo h1 <- hfold (remove_from_parent none_err) rm h ;;
      match rm with
      | [] => HOk h1
      | _ => if recursive then leaf_prune_loop n bad none_err recursive h1 else HOk h1
      end)
  end.

(* filter_leaf_nodes(filter_fn): keep = ids of the nodes on which filter_fn is true;
   SeedNodeDeletionException is reported as OtherErr *)
Definition filter_leaf_nodes (keep : list Z) (recursive ub su : bool) (h : heap) : hres :=
  hdo h1 <- leaf_prune_loop (fuel_of h) (fun _ nd => negb (memz nd keep)) OtherErr recursive h ;;
  hdo h2 <- (if su then suppress_unifurcations h1 else HOk h1) ;;
  ub_tail_su ub su h2.

(* prune_leaves_without_taxa: a parentless leaf gives AttributeError (None.remove_child) *)
Definition prune_leaves_without_taxa (recursive ub su : bool) (h : heap) : hres :=
  hdo h1 <- leaf_prune_loop (fuel_of h)
              (fun h nd => match taxon h nd with None => true | Some _ => false end)
              AttrErr recursive h ;;
  hdo h2 <- (if su then suppress_unifurcations h1 else HOk h1) ;;
  ub_tail_su ub su h2.

(* prune_nodes(nodes, prune_leaves_without_taxa): "raise Exception" for a parentless node *)
Definition prune_nodes (nodes : list Z) (plwt ub su : bool) (h : heap) : hres :=
  hdo h1 <- hfold (remove_from_parent OtherErr) nodes h ;;
  if plwt then prune_leaves_without_taxa true ub su h1 else HOk h1.

Definition prune_taxa (taxa : list Z) (ub su on_leaves on_internal : bool) (h : heap) : hres :=
  hdo h1 <- with_sub h (seed h) (fun t =>
    hfold (fun nd h =>
             if ((on_internal && is_internal h nd) || (on_leaves && negb (is_internal h nd)))
                && (match taxon h nd with Some x => memz x taxa | None => false end)
             then remove_from_parent AttrErr nd h else HOk h)
          (post_ids t) h) ;;
  prune_leaves_without_taxa true ub su h1.

(* retain_taxa(taxa): to_prune = [t for t in self.taxon_namespace if t not in taxa] *)
Definition retain_taxa (namespace taxa : list Z) (ub su : bool) (h : heap) : hres :=
  prune_taxa (filter (fun x => negb (memz x taxa)) namespace) ub su true false h.

(* ---------- child order ---------- *)

(* list.sort(key=..., reverse=desc) : stable in both directions *)
Fixpoint sort_insert (key : Z -> Z) (desc : bool) (x : Z) (l : list Z) : list Z :=
  match l with
  | [] => [x]
  | y :: r =>
    if (if desc then key y <=? key x else key x <=? key y) then x :: l
    else y :: sort_insert key desc x r
  end.

Definition sort_by (key : Z -> Z) (desc : bool) (l : list Z) : list Z :=
  fold_right (sort_insert key desc) [] l.

Fixpoint zlookup (k : Z) (m : list (Z * Z)) : option Z :=
  match m with
  | [] => None
  | (k', v) :: r => if Z.eqb k k' then Some v else zlookup k r
  end.

(* node_desc_counts of ladderize: number of descendants *)
Fixpoint desc_counts (t : tree) : list (Z * Z) :=
  match t with
  | T i _ _ _ ks => (i, Z.of_nat (size t) - 1) :: flat_map desc_counts ks
  end.

Definition ladderize (ascending : bool) (h : heap) : hres :=
  with_sub h (seed h) (fun t =>
    let cnt := desc_counts t in
    let key := fun nd => match zlookup nd cnt with Some c => c | None => 0 end in
    HOk (fold_left (fun h nd =>
                      if is_internal h nd then set_kids nd (sort_by key (negb ascending) (kids h nd)) h
                      else h)
                   (post_ids t) h)).

(* reorder(ascending) with the default key (taxon label, "" without taxon);
   ranks: taxon id -> rank of its label in Python string order (>= 1) *)
Definition reorder (ascending : bool) (ranks : list (Z * Z)) (h : heap) : hres :=
  with_sub h (seed h) (fun t =>
    let key := fun nd => match taxon h nd with
                         | Some x => match zlookup x ranks with Some r => r | None => 0 end
                         | None => 0 end in
    HOk (fold_left (fun h nd => set_kids nd (sort_by key (negb ascending) (kids h nd)) h)
                   (pre_ids t) h)).

(* randomly_rotate: for nd in internal_nodes(): c = nd.child_nodes(); rng.shuffle(c);
   nd.set_child_nodes(c).  perms: for each internal node (preorder) the shuffled list as
   indices into the old child list *)
Fixpoint rotate_each (nodes : list Z) (perms : list (list nat)) (h : heap) : hres :=
  match nodes with
  | [] => HOk h
  | nd :: r =>
    match perms with
    | [] => HFuel
    | pm :: perms' =>
      match nths (kids h nd) pm with
      | None => HFuel
      | Some c => hdo h1 <- set_child_nodes nd c h ;; rotate_each r perms' h1
      end
    end
  end.

Definition randomly_rotate (perms : list (list nat)) (h : heap) : hres :=
  with_sub h (seed h) (fun t =>
    rotate_each (filter (is_internal h) (pre_ids t)) perms h).

(* randomly_reorient: nd = rng.sample(self.nodes(), 1)[0] *)
Definition randomly_reorient (pick : nat) (perms : list (list nat)) (ub : bool) (h : heap) : hres :=
  with_sub h (seed h) (fun t =>
    match nth_error (pre_ids t) pick with
    | None => HFuel
    | Some nd =>
      hdo h1 <- (if is_internal h nd then reseed_at nd ub true true h
                 else to_outgroup_position nd ub true h) ;;
      randomly_rotate perms h1
    end).

(* shuffle_taxa(include_internal_nodes); draws = results of rng.randrange(len(node_taxa)) *)
Definition swap_pop (l : list Z) (ri : nat) : option (Z * list Z) :=
  (* node_taxa[-1], node_taxa[ri] = node_taxa[ri], node_taxa[-1]; new = node_taxa.pop() *)
  match nth_error l ri, rev l with
  | Some x, last :: _ =>
    let n := length l in
    if Nat.eqb ri (n - 1) then Some (x, firstn (n - 1) l)
    else Some (x, firstn ri l ++ last :: firstn (n - 2 - ri) (skipn (S ri) l))
  | _, _ => None
  end.

Fixpoint shuffle_each (nodes : list Z) (pool : list Z) (draws : list nat) (h : heap) : hres :=
  match nodes with
  | [] => HOk h
  | nd :: r =>
    match draws with
    | [] => HFuel
    | d :: draws' =>
      match swap_pop pool d with
      | None => HFuel
      | Some (x, pool') => shuffle_each r pool' draws' (set_taxon nd (Some x) h)
      end
    end
  end.

Fixpoint has_dup (l : list Z) : bool :=
  match l with
  | [] => false
  | x :: r => memz x r || has_dup r
  end.

Definition shuffle_taxa (include_internal : bool) (draws : list nat) (h : heap) : hres :=
  with_sub h (seed h) (fun t =>
    let nds := filter (fun nd => match taxon h nd with Some _ => true | None => false end)
                      (if include_internal then pre_ids t else leaf_ids t) in
    let pool := flat_map (fun nd => match taxon h nd with Some x => [x] | None => [] end) nds in
    hdo h1 <- shuffle_each nds pool draws h ;;
    (* assert len(current_to_shuffled_taxon_map) == len(current_node_taxon_map): the first map is
       keyed by taxon, so two nodes carrying the same taxon trip it, after the shuffle is done *)
    if has_dup pool then HErr AssertErr h1 else HOk h1).

(* ---------- the operation language ---------- *)

Inductive op : Type :=
(* Node / Edge level *)
| OAddChild (p c : Z)
| OInsertChild (p : Z) (idx : nat) (c : Z)
| ONewChild (p : Z) (x l e : option Z)
| OInsertNewChild (p : Z) (idx : nat) (x l e : option Z)
| ORemoveChild (p c : Z) (su : bool)
| OSetChildNodes (p : Z) (l : list Z)
| OSetParentNode (c : Z) (np : option Z)
| OCollapseClade (c : Z)
| OEdgeCollapse (c : Z) (adjust : bool)
| OEdgeInvert (c : Z)
(* Tree level *)
| OSetRooted (r : option bool)
| OSetUnrooted (v : bool)
| ODeroot
| OCollapseBasal (set_unrooted : bool)
| OPolytomizeRoot (set_unrooted : bool)
| OEncode (su cb : bool)
| OReseedAt (n : Z) (ub cb su : bool)
| OToOutgroup (og : Z) (ub su : bool)
| ORerootAtNode (n : Z) (ub su cb : bool)
| ORerootAtEdge (c : Z) (l1 l2 : option Z) (ub su : bool)
| ORerootAtMidpoint (tx1 tx2 : Z) (ub su cb : bool)
| OSuppressUnifurcations
| OCollapseUnweighted (thr : Z) (ub : bool)
| OResolvePolytomies (limit : Z) (script : option (list (list nat * list nat))) (ub : bool)
| OPruneSubtree (n : Z) (ub su : bool)
| OFilterLeafNodes (keep : list Z) (recursive ub su : bool)
| OPruneLeavesWithoutTaxa (recursive ub su : bool)
| OPruneNodes (nodes : list Z) (plwt ub su : bool)
| OPruneTaxa (taxa : list Z) (ub su on_leaves on_internal : bool)
| ORetainTaxa (namespace taxa : list Z) (ub su : bool)
| OLadderize (ascending : bool)
| OReorder (ascending : bool) (ranks : list (Z * Z))
| ORandomlyRotate (perms : list (list nat))
| ORandomlyReorient (pick : nat) (perms : list (list nat)) (ub : bool)
| OShuffleTaxa (include_internal : bool) (draws : list nat).

Definition run_op (o : op) (h : heap) : hres :=
  match o with
  | OAddChild p c => add_child p c h
  | OInsertChild p idx c => HOk (insert_child p idx c h)
  | ONewChild p x l e => new_child p x l e h
  | OInsertNewChild p idx x l e => HOk (insert_new_child p idx x l e h)
  | ORemoveChild p c su => remove_child p c su h
  | OSetChildNodes p l => set_child_nodes p l h
  | OSetParentNode c np => HOk (set_parent_node c np h)
  | OCollapseClade c => collapse_clade c h
  | OEdgeCollapse c adjust => edge_collapse c adjust h
  | OEdgeInvert c => edge_invert c h
  | OSetRooted r => HOk (set_rooted r h)
  | OSetUnrooted v => HOk (set_rooted (Some (negb v)) h)
  | ODeroot => deroot h
  | OCollapseBasal u => collapse_basal_bifurcation u h
  | OPolytomizeRoot u => polytomize_root u h
  | OEncode su cb => encode_structural su cb h
  | OReseedAt n ub cb su => reseed_at n ub cb su h
  | OToOutgroup og ub su => to_outgroup_position og ub su h
  | ORerootAtNode n ub su cb => reroot_at_node n ub su cb h
  | ORerootAtEdge c l1 l2 ub su => reroot_at_edge c l1 l2 ub su h
  | ORerootAtMidpoint a b ub su cb => reroot_at_midpoint a b ub su cb h
  | OSuppressUnifurcations => suppress_unifurcations h
  | OCollapseUnweighted thr ub => collapse_unweighted_edges thr ub h
  | OResolvePolytomies limit script ub => resolve_polytomies limit script ub h
  | OPruneSubtree n ub su => prune_subtree n ub su h
  | OFilterLeafNodes keep rc ub su => filter_leaf_nodes keep rc ub su h
  | OPruneLeavesWithoutTaxa rc ub su => prune_leaves_without_taxa rc ub su h
  | OPruneNodes nodes plwt ub su => prune_nodes nodes plwt ub su h
  | OPruneTaxa taxa ub su ol oi => prune_taxa taxa ub su ol oi h
  | ORetainTaxa ns taxa ub su => retain_taxa ns taxa ub su h
  | OLadderize asc => ladderize asc h
  | OReorder asc ranks => reorder asc ranks h
  | ORandomlyRotate perms => randomly_rotate perms h
  | ORandomlyReorient pick perms ub => randomly_reorient pick perms ub h
  | OShuffleTaxa ii draws => shuffle_taxa ii draws h
  end.

(* a history: an exception does not stop the client, it goes on with the state left behind;
   the list of states after each step is what the harness observes *)
Fixpoint run_hist (ops : list op) (h : heap) : option heap :=
  match ops with
  | [] => Some h
  | o :: r =>
    match run_op o h with
    | HOk h' => run_hist r h'
    | HErr _ h' => run_hist r h'
    | HFuel => None
    end
  end.

(* ---------- to_outgroup_position after repair 1c81f78b: the outgroup is moved to the first position of its
   parent's child list BEFORE the tree is re-seeded at that parent, so that the unifurcation suppression
   inside reseed_at runs on the final structure
       p = outgroup_node._parent_node; assert p is not None
       p.remove_child(outgroup_node); p.insert_child(0, outgroup_node)
       self.reseed_at(p, update_bipartitions, suppress_unifurcations, collapse_unrooted_basal_bifurcation=False)
   (the old form, to_outgroup_position above, stays: its refutations are theorems) ---------- *)
Definition to_outgroup_position_r (og : Z) (ub su : bool) (h : heap) : hres :=
  match parent h og with
  | None => HErr AssertErr h
  | Some p =>
    hdo h1 <- remove_child_plain p og h ;;
    reseed_at p ub false su (insert_child p 0 og h1)
  end.

Definition randomly_reorient_r (pick : nat) (perms : list (list nat)) (ub : bool) (h : heap) : hres :=
  with_sub h (seed h) (fun t =>
    match nth_error (pre_ids t) pick with
    | None => HFuel
    | Some nd =>
      hdo h1 <- (if is_internal h nd then reseed_at nd ub true true h
                 else to_outgroup_position_r nd ub true h) ;;
      randomly_rotate perms h1
    end).

(* ---------- variants of repaired sites (decided at run time by probing the library) ----------
   v_seed_guard       : prune_leaves_without_taxa / prune_taxa raise SeedNodeDeletionException
                        (OtherErr) instead of AttributeError on None.remove_child when the node to
                        remove is the seed (same point, same state: an error relabelling)
   v_prune_nodes_tail : prune_nodes(prune_leaves_without_taxa=False) applies suppress_unifurcations and
                        update_bipartitions(suppress_unifurcations=su) instead of ignoring them
   v_outgroup_first   : to_outgroup_position (also inside randomly_reorient) moves the outgroup to the first
                        position before re-seeding (to_outgroup_position_r) instead of after *)
Record variants := mkVariants { v_seed_guard : bool; v_prune_nodes_tail : bool; v_outgroup_first : bool }.

Definition relabel_err (from to : err) (r : hres) : hres :=
  match r with
  | HErr e h => if err_eqb e from then HErr to h else r
  | _ => r
  end.

Definition run_op_v (v : variants) (o : op) (h : heap) : hres :=
  match o with
  | OPruneLeavesWithoutTaxa _ _ _ | OPruneTaxa _ _ _ _ _ | ORetainTaxa _ _ _ _ =>
    if v_seed_guard v then relabel_err AttrErr OtherErr (run_op o h) else run_op o h
  | OPruneNodes nodes plwt ub su =>
    let r := if v_seed_guard v then relabel_err AttrErr OtherErr (run_op o h) else run_op o h in
    if v_prune_nodes_tail v && negb plwt
    then hbind r (fun h1 => hbind (if su then suppress_unifurcations h1 else HOk h1) (ub_tail_su ub su))
    else r
  | OToOutgroup og ub su => if v_outgroup_first v then to_outgroup_position_r og ub su h else run_op o h
  | ORandomlyReorient pick perms ub =>
    if v_outgroup_first v then randomly_reorient_r pick perms ub h else run_op o h
  | _ => run_op o h
  end.

Fixpoint run_hist_v (v : variants) (ops : list op) (h : heap) : option heap :=
  match ops with
  | [] => Some h
  | o :: r =>
    match run_op_v v o h with
    | HOk h' => run_hist_v v r h'
    | HErr _ h' => run_hist_v v r h'
    | HFuel => None
    end
  end.
