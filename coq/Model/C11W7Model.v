(* C11, wave 7: the history language of Model/C11Model.v extended by
     - shallow copies of containers (copy.copy(x) / x.clone(0)):  CharacterMatrix.__copy__,
       TreeList.__copy__  (DataSet.__copy__ raises NotImplementedError, Tree.__copy__ is a deep copy),
     - caller-owned taxon_mapping_memo dictionaries as first-class objects: built by the caller with an
       explicit mapping (NewMemo), handed to TreeList.append / insert, Tree / TreeList / CharacterMatrix
       .migrate_taxon_namespace / .reconstruct_taxon_namespace through the documented keyword, filled IN PLACE
       by those calls and possibly handed to a later call that migrates into a DIFFERENT namespace,
     - Taxon(label=..): a taxon object that is in no namespace (a caller-chosen mapping target).
   The value-level state is the state of C11Model plus the store of memo objects.  Definitions only; the
   functions that do the work (migrate_tree, migrate_list, migrate_mat, ...) are those of C11Model: they always
   took the memo as a parameter, the old operations pass the empty one. *)
From Coq Require Import List Bool Arith ZArith.
From DV Require Import Model.PyPrims Model.C11Model.
Import ListNotations.
Open Scope nat_scope.

Definition memo := list (oid * oid).

Record xstate := mkX {
  x_st : state;
  x_memos : list memo      (* memo objects; newest entry first (Python dict order = rev) *)
}.

Definition x_init : xstate := mkX st_init [].

Definition getmemo (x : xstate) (k : oid) : memo := nth k (x_memos x) [].
Definition valid_memo (x : xstate) (k : oid) : bool := Nat.ltb k (length (x_memos x)).
Definition with_st (x : xstate) (st : state) : xstate := mkX st (x_memos x).
Definition with_memo (x : xstate) (st : state) (k : oid) (m : memo) : xstate := mkX st (upd (x_memos x) k m).

Inductive op7 :=
| Base (o : op)
| FreeTaxon (l : lbl)                                   (* Taxon(label=l) *)
| NewMemo (es : list (oid * oid))                        (* {taxon: taxon, ...} in insertion order *)
| CopyMat (m : oid)                                     (* copy.copy(m) / m.clone(0) *)
| CopyList (l : oid)                                    (* copy.copy(l) / l.clone(0) *)
| AppendM (l t : oid) (s : strat) (k : oid)               (* l.append(t, strategy.., taxon_mapping_memo=k) *)
| InsertM (l : oid) (i : Z) (t : oid) (s : strat) (k : oid)
| MigrateTreeM (t n : oid) (u : bool) (k : oid)
| ReconstructTreeM (t : oid) (u : bool) (k : oid)
| MigrateListM (l n : oid) (u : bool) (k : oid)
| ReconstructListM (l : oid) (u : bool) (k : oid)
| MigrateMatM (m n : oid) (u : bool) (k : oid)
| ReconstructMatM (m : oid) (u : bool) (k : oid).

Section WithLower.
Variable lower : lbl -> lbl.

(* TreeList._import_tree_to_taxon_namespace(tree, taxon_import_strategy, **kwargs): the keyword only
   travels on the 'migrate' branch *)
Definition import_tree_m (st : state) (ln tr : oid) (s : strat) (mm : memo) : state * bool * memo :=
  if Nat.eqb (t_ns (gettree st tr)) ln then (st, true, mm)
  else match s with
       | SMigrate u => let '(st1, mm') := migrate_tree lower st tr ln u mm in (st1, true, mm')
       | SAdd => (update_tree st tr ln, true, mm)
       | SBogus => (st, false, mm)
       end.

Definition valid_pairs (st : state) (es : list (oid * oid)) : bool :=
  forallb (fun p => valid_taxon st (fst p) && valid_taxon st (snd p)) es.

Definition step7 (x : xstate) (o : op7) : xstate * out :=
  let st := x_st x in
  match o with
  | Base b => let '(st1, r) := step lower st b in (with_st x st1, r)
  | FreeTaxon l => let '(st1, t) := alloc_taxon st l in (with_st x st1, OId t)
  | NewMemo es =>
    if valid_pairs st es then (mkX st (x_memos x ++ [rev es]), OId (length (x_memos x))) else (x, OBadArg)
  | CopyMat m =>
    if valid_mat st m then
      (* other = self.__class__(taxon_namespace=self.taxon_namespace);
         for taxon in self._taxon_sequence_map: other._taxon_sequence_map[taxon] = self._taxon_sequence_map[taxon] *)
      let '(st1, c) := alloc_mat st (mkMat (m_ns (getmat st m)) (m_rows (getmat st m))) in (with_st x st1, OId c)
    else (x, OBadArg)
  | CopyList l =>
    if valid_list st l then
      (* other = TreeList(taxon_namespace=self.taxon_namespace); other._trees = list(self._trees) *)
      let '(st1, c) := alloc_list st (mkTL (l_ns (getlist st l)) (l_trees (getlist st l))) in (with_st x st1, OId c)
    else (x, OBadArg)
  | AppendM l tr s k =>
    if valid_list st l && valid_tree st tr && valid_memo x k then
      let '(st1, ok, mm) := import_tree_m st (l_ns (getlist st l)) tr s (getmemo x k) in
      if ok then (with_memo x (list_push st1 l tr) k mm, OUnit) else (with_memo x st1 k mm, OErr ValueErr)
    else (x, OBadArg)
  | InsertM l i tr s k =>
    if valid_list st l && valid_tree st tr && valid_memo x k then
      let '(st1, ok, mm) := import_tree_m st (l_ns (getlist st l)) tr s (getmemo x k) in
      if ok then
        let L := getlist st1 l in
        (with_memo x (set_list st1 l (mkTL (l_ns L) (insert_at (l_trees L) (clamp_index (length (l_trees L)) i) tr))) k mm,
         OUnit)
      else (with_memo x st1 k mm, OErr ValueErr)
    else (x, OBadArg)
  | MigrateTreeM tr n u k =>
    if valid_tree st tr && valid_ns st n && valid_memo x k then
      let '(st1, mm) := migrate_tree lower st tr n u (getmemo x k) in (with_memo x st1 k mm, OUnit)
    else (x, OBadArg)
  | ReconstructTreeM tr u k =>
    if valid_tree st tr && valid_memo x k then
      let '(st1, mm) := migrate_tree lower st tr (t_ns (gettree st tr)) u (getmemo x k) in (with_memo x st1 k mm, OUnit)
    else (x, OBadArg)
  | MigrateListM l n u k =>
    if valid_list st l && valid_ns st n && valid_memo x k then
      let '(st1, mm) := migrate_list lower st l n u (getmemo x k) in (with_memo x st1 k mm, OUnit)
    else (x, OBadArg)
  | ReconstructListM l u k =>
    if valid_list st l && valid_memo x k then
      let '(st1, mm) := reconstruct_list lower st l u (getmemo x k) in (with_memo x st1 k mm, OUnit)
    else (x, OBadArg)
  | MigrateMatM m n u k =>
    if valid_mat st m && valid_ns st n && valid_memo x k then
      let '(st1, mm, ok) := migrate_mat lower st m n u (getmemo x k) in
      (with_memo x st1 k mm, if ok then OUnit else ORecon)
    else (x, OBadArg)
  | ReconstructMatM m u k =>
    if valid_mat st m && valid_memo x k then
      let '(st1, mm, ok) := migrate_mat lower st m (m_ns (getmat st m)) u (getmemo x k) in
      (with_memo x st1 k mm, if ok then OUnit else ORecon)
    else (x, OBadArg)
  end.

(* ---- what the harness observes after every step ----
   besides the dump of C11Model: the memo objects in dict order, and for every matrix / tree list the
   identity class of its storage object (_taxon_sequence_map dict / _trees list), canonicalised as the
   smallest index of a container that holds the same storage object.  In this (faithful) model every
   container owns its storage, so the classes are 0, 1, 2, ...; Model/C11ObjModel.v is the object-level
   model in which that is a theorem about the transcription and not a definition. *)
Definition dump7_t : Type := dump_t * list (list (oid * oid)) * list oid * list oid.

Definition dump7 (x : xstate) : dump7_t :=
  (dump (x_st x), map (@rev (oid * oid)) (x_memos x),
   seq 0 (length (s_mats (x_st x))), seq 0 (length (s_lists (x_st x)))).

Fixpoint run7 (x : xstate) (ops : list op7) : list (out * dump7_t) :=
  match ops with
  | [] => []
  | o :: r => let '(x', y) := step7 x o in (y, dump7 x') :: run7 x' r
  end.

Definition run_state7 (x : xstate) (ops : list op7) : xstate :=
  fold_left (fun s o => fst (step7 s o)) ops x.

(* ---- the usage discipline, extended ----
   A copy of a tree list holds the SAME tree objects as the original (documented shallowness, like a
   slice); whatever re-homes such a tree is outside the discipline exactly as in C11Model.  The matrix copy
   shares no mutable storage, so no new proviso is needed for it.  For the memo operations the provisos are
   those of the operation without the keyword: the memo can only redirect taxa, never the namespace. *)
Definition disciplined7 (x : xstate) (o : op7) : bool :=
  let st := x_st x in
  match o with
  | Base b => disciplined st b
  | AppendM l tr _ _ | InsertM l _ tr _ _ => holders_ok st (l_ns (getlist st l)) tr
  | MigrateTreeM tr n _ _ => holders_ok st n tr
  | MigrateListM l n _ _ => disciplined st (MigrateList l n true)
  | MigrateMatM m n _ _ => ds_mat_free st None m n
  | _ => true
  end.

Fixpoint hist_ok7 (x : xstate) (ops : list op7) : bool :=
  match ops with
  | [] => true
  | o :: r => disciplined7 x o && negb (is_recon (snd (step7 x o))) && hist_ok7 (fst (step7 x o)) r
  end.

End WithLower.

(* ---- comparison against the implementation's observation ---- *)
Definition pair_eqb (a b : oid * oid) : bool := Nat.eqb (fst a) (fst b) && Nat.eqb (snd a) (snd b).

Definition dump7_eqb (a b : dump7_t) : bool :=
  let '(a1, a2, a3, a4) := a in let '(b1, b2, b3, b4) := b in
  dump_eqb a1 b1 && list_eqb (list_eqb pair_eqb) a2 b2 && ids_eqb a3 b3 && ids_eqb a4 b4.

Definition step7_eqb (a b : out * dump7_t) : bool := out_eqb (fst a) (fst b) && dump7_eqb (snd a) (snd b).

Record case7 := mkCase7 {
  c7_lower : list (lbl * lbl);
  c7_ops : list op7;
  c7_expected : list (out * dump7_t)
}.

Definition case_run7 (c : case7) := run7 (tbl_lower (c7_lower c)) x_init (c7_ops c).

Definition case_ok7 (c : case7) : bool := list_eqb step7_eqb (case_run7 c) (c7_expected c).
