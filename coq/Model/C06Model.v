(* C06: executable model of dendropy.datamodel.treecollectionmodel.TreeArray (the parts that
   accumulate and merge tree samples), of the embedded SplitDistribution bookkeeping
   (count_splits_on_tree / update) and of the collation scheme of
   dendropy.application.sumtrees (TreeAnalysisWorker / TreeProcessor.parallel_analyze_trees
   versus serial_analyze_trees).

   Hand transcription, statement by statement, of the code as it is in the working tree
   (i.e. WITH the repairs "update returns early on an empty partial result" and "extend also
   extends _tree_leafset_bitmasks"); tied to the source by the correspondence check
   py/dv/c06.py, which runs the same operation histories through the real TreeArray.

   What a tree contributes is an INPUT of the model: the record `trec` is exactly what
   TreeArray.add_tree derives from a Tree through encode_bipartitions / calc_node_ages
   (which splits, which edge length and node age for each split, leafset bitmask, weight,
   the rooting state the TreeArray sees in validate_rooting).  Deriving those from the tree
   is the business of C01 / C05; here the harness observes them from a one-tree TreeArray.

   Numbers: edge lengths, ages and weights are integers in units of 2^-10 (the harness only
   generates such dyadic values, so every float + the code performs is exact).
   A weight of 1.0 is UNITW.  split_counts therefore are sums of weights in the same unit.

   Not modelled: the caches of SplitDistribution (_split_freqs, summaries: C05), the
   TaxonNamespace identity checks, the side effect of SplitDistribution.update on its
   ARGUMENT (reading other.split_edge_lengths[split] on a defaultdict creates empty
   entries there; those are invisible to every query because a missing key and an empty
   list are treated alike), pickling and the OS scheduler. *)
From Coq Require Import ZArith List Bool QArith.
From DV Require Import Model.PyPrims Gen.BitFns.
Import ListNotations.
Open Scope Z_scope.

Definition UNITW : Z := 1024.

(* ------------------------------------------------------------------------------------ *)
(* Python dict (insertion ordered) as association list; lookups find the first binding   *)
(* ------------------------------------------------------------------------------------ *)

Fixpoint alook {V} (k : Z) (m : list (Z * V)) : option V :=
  match m with
  | [] => None
  | (k', v) :: r => if Z.eqb k k' then Some v else alook k r
  end.

(* defaultdict(float)[k] / dict.get(k, 0.0) *)
Definition cnt (k : Z) (m : list (Z * Z)) : Z :=
  match alook k m with Some c => c | None => 0 end.

(* defaultdict(list)[k] *)
Definition lst {A} (k : Z) (m : list (Z * list A)) : list A :=
  match alook k m with Some l => l | None => [] end.

(* d[k] += w   on a defaultdict(float): a new key goes to the end *)
Fixpoint dict_add (k w : Z) (m : list (Z * Z)) : list (Z * Z) :=
  match m with
  | [] => [(k, w)]
  | (k', v) :: r => if Z.eqb k k' then (k', v + w) :: r else (k', v) :: dict_add k w r
  end.

(* d.setdefault(k, []).extend(l)  /  d[k] += l   on a defaultdict(list) *)
Fixpoint dict_app {A} (k : Z) (l : list A) (m : list (Z * list A)) : list (Z * list A) :=
  match m with
  | [] => [(k, l)]
  | (k', v) :: r => if Z.eqb k k' then (k', v ++ l) :: r else (k', v) :: dict_app k l r
  end.

Definition keys {V} (m : list (Z * V)) : list Z := map fst m.

(* ------------------------------------------------------------------------------------ *)
(* Errors                                                                                *)
(* ------------------------------------------------------------------------------------ *)

Inductive terr :=
| EMixedRooting        (* error.MixedRootingError (validate_rooting) *)
| EUltrametricity      (* error.UltrametricityError (calc_node_ages inside count_splits_on_tree) *)
| EIncRooting          (* TreeArray.IncompatibleRootingTreeArrayUpdate *)
| EIncEdgeLens         (* TreeArray.IncompatibleEdgeLengthsTreeArrayUpdate *)
| EIncNodeAges         (* TreeArray.IncompatibleNodeAgesTreeArrayUpdate *)
| EIncWeights          (* TreeArray.IncompatibleTreeWeightsTreeArrayUpdate *)
| EPy (e : err).       (* AssertionError, IndexError, TypeError, ... *)

Definition terr_eqb (a b : terr) : bool :=
  match a, b with
  | EMixedRooting, EMixedRooting | EUltrametricity, EUltrametricity | EIncRooting, EIncRooting
  | EIncEdgeLens, EIncEdgeLens | EIncNodeAges, EIncNodeAges | EIncWeights, EIncWeights => true
  | EPy x, EPy y => err_eqb x y
  | _, _ => false
  end.

(* ------------------------------------------------------------------------------------ *)
(* What one tree contributes                                                             *)
(* ------------------------------------------------------------------------------------ *)

(* one element of tree.bipartition_encoding as count_splits_on_tree reads it:
   split_bitmask, edge.length (None already replaced by default_edge_length_value = 0),
   edge.head_node.age *)
Record item := mkItem { it_split : Z; it_elen : Z; it_age : option Z }.

Record trec := mkTrec {
  tr_items : list item;
  tr_leafset : Z;               (* tree.seed_node.edge.bipartition.leafset_bitmask *)
  tr_weight : option Z;         (* tree.weight *)
  tr_rooting : option bool;     (* tree.is_rooted when add_tree is entered *)
  tr_ages_err : option terr     (* Some e: tree.calc_node_ages raises e (UltrametricityError, or
                                   TypeError on a tree with some edge lengths missing) *)
}.

Definition tr_splits (x : trec) : list Z := map it_split (tr_items x).

(* `if tree.is_rooted:` *)
Definition tr_rooted (x : trec) : bool :=
  match tr_rooting x with Some true => true | _ => false end.

(* ------------------------------------------------------------------------------------ *)
(* SplitDistribution (the accumulating part)                                             *)
(* ------------------------------------------------------------------------------------ *)

Record sdist := mkSd {
  sd_ign_el : bool;                       (* ignore_edge_lengths *)
  sd_ign_ages : bool;                     (* ignore_node_ages *)
  sd_use_w : bool;                        (* use_tree_weights *)
  sd_total : Z;                           (* total_trees_counted *)
  sd_sumw : Z;                            (* sum_of_tree_weights *)
  sd_rt : bool;                           (* True in tree_rooting_types_counted *)
  sd_rf : bool;                           (* False in tree_rooting_types_counted *)
  sd_counts : list (Z * Z);               (* split_counts *)
  sd_elens : list (Z * list Z);           (* split_edge_lengths *)
  sd_ages : list (Z * list (option Z))    (* split_node_ages *)
}.

(* the `for bipartition in tree.bipartition_encoding:` loop of count_splits_on_tree *)
Fixpoint count_items (ign_el ign_ages : bool) (w : Z) (its : list item)
         (c : list (Z * Z)) (e : list (Z * list Z)) (g : list (Z * list (option Z)))
  : list (Z * Z) * list (Z * list Z) * list (Z * list (option Z)) :=
  match its with
  | [] => (c, e, g)
  | it :: r =>
    count_items ign_el ign_ages w r
      (dict_add (it_split it) w c)
      (if ign_el then e else dict_app (it_split it) [it_elen it] e)
      (if ign_ages then g else dict_app (it_split it) [it_age it] g)
  end.

(* weight_to_use of count_splits_on_tree *)
Definition sd_weight (sd : sdist) (x : trec) : Z :=
  match tr_weight x with
  | Some w => if sd_use_w sd then w else UNITW
  | None => UNITW
  end.

(* SplitDistribution.update: the three statements of the loop body, as three folds over
   other.split_counts (they do not interact) *)
Definition merge_counts (a b : list (Z * Z)) : list (Z * Z) :=
  fold_left (fun m kv => dict_add (fst kv) (snd kv) m) b a.

Definition merge_lists {A} (ks : list Z) (a b : list (Z * list A)) : list (Z * list A) :=
  fold_left (fun m k => dict_app k (lst k b) m) ks a.

Definition sd_update (a b : sdist) : sdist :=
  mkSd (sd_ign_el a) (sd_ign_ages a) (sd_use_w a)
       (sd_total a + sd_total b)
       (sd_sumw a + sd_sumw b)
       (sd_rt a || sd_rt b) (sd_rf a || sd_rf b)
       (merge_counts (sd_counts a) (sd_counts b))
       (merge_lists (keys (sd_counts b)) (sd_elens a) (sd_elens b))
       (merge_lists (keys (sd_counts b)) (sd_ages a) (sd_ages b)).

(* ------------------------------------------------------------------------------------ *)
(* TreeArray                                                                             *)
(* ------------------------------------------------------------------------------------ *)

Record tarr := mkTa {
  ta_rooting : option bool;               (* _is_rooted_trees *)
  ta_ign_el : bool;
  ta_ign_ages : bool;
  ta_use_w : bool;
  ta_splits : list (list Z);              (* _tree_split_bitmasks *)
  ta_elens : list (list (option Z));      (* _tree_edge_lengths (tuples of None when ignored) *)
  ta_leafsets : list Z;                   (* _tree_leafset_bitmasks *)
  ta_weights : list Z;                    (* _tree_weights *)
  ta_sd : sdist                           (* _split_distribution *)
}.

(* TreeArray.__init__ : the three settings are handed on to the SplitDistribution *)
Definition new_ta (r : option bool) (iel iag uw : bool) : tarr :=
  mkTa r iel iag uw [] [] [] [] (mkSd iel iag uw 0 0 false false [] [] []).

Definition set_sd (t : tarr) (sd : sdist) : tarr :=
  mkTa (ta_rooting t) (ta_ign_el t) (ta_ign_ages t) (ta_use_w t)
       (ta_splits t) (ta_elens t) (ta_leafsets t) (ta_weights t) sd.

Definition set_rooting (t : tarr) (r : option bool) : tarr :=
  mkTa r (ta_ign_el t) (ta_ign_ages t) (ta_use_w t)
       (ta_splits t) (ta_elens t) (ta_leafsets t) (ta_weights t) (ta_sd t).

Definition obool_eqb (a b : option bool) : bool := option_eqb Bool.eqb a b.

(* validate_rooting *)
Definition validate_rooting (t : tarr) (r : option bool) : tarr + terr :=
  match ta_rooting t with
  | None => inl (set_rooting t r)
  | Some b => if obool_eqb (Some b) r then inl t else inr EMixedRooting
  end.

(* list.insert(index, x): a negative index counts from the end, out-of-range indices are clamped *)
Fixpoint insert_at {A} (n : nat) (x : A) (l : list A) : list A :=
  match n, l with
  | O, _ => x :: l
  | S _, [] => [x]
  | S m, y :: r => y :: insert_at m x r
  end.

Definition py_insert {A} (i : Z) (x : A) (l : list A) : list A :=
  let n := Z.of_nat (length l) in
  let j := if i <? 0 then Z.max 0 (i + n) else Z.min i n in
  insert_at (Z.to_nat j) x l.

Definition put {A} (index : option Z) (x : A) (l : list A) : list A :=
  match index with None => l ++ [x] | Some i => py_insert i x l end.

Definition is_nil {A} (l : list A) : bool := match l with [] => true | _ => false end.

(* add_tree(tree, index)  (= append, insert, the body of add_trees / read_from_files).
   Returns the state the object is left in and the exception, if any: an exception raised
   half-way leaves the earlier assignments in place. *)
Definition add_tree (t : tarr) (x : trec) (index : option Z) : tarr * option terr :=
  match validate_rooting t (tr_rooting x) with
  | inr e => (t, Some e)
  | inl t1 =>
    let sd := ta_sd t1 in
    (* count_splits_on_tree *)
    let total1 := sd_total sd + 1 in
    match (if sd_ign_ages sd then None else tr_ages_err x) with
    | Some e =>
      (set_sd t1 (mkSd (sd_ign_el sd) (sd_ign_ages sd) (sd_use_w sd) total1 (sd_sumw sd)
                       (sd_rt sd) (sd_rf sd) (sd_counts sd) (sd_elens sd) (sd_ages sd)),
       Some e)
    | None =>
      let w := sd_weight sd x in
      let '(c, e, g) := count_items (sd_ign_el sd) (sd_ign_ages sd) w (tr_items x)
                                    (sd_counts sd) (sd_elens sd) (sd_ages sd) in
      let sd' := mkSd (sd_ign_el sd) (sd_ign_ages sd) (sd_use_w sd) total1 (sd_sumw sd + w)
                      (sd_rt sd || tr_rooted x) (sd_rf sd || negb (tr_rooted x)) c e g in
      let t2 := set_sd t1 sd' in
      let splits := tr_splits x in
      (* edge_lengths as returned by count_splits_on_tree *)
      let el_ret := if sd_ign_el sd then [] else map it_elen (tr_items x) in
      let stored_el :=
          if ta_ign_el t2 then Some (map (fun _ => None) splits)
          else if Nat.eqb (length splits) (length el_ret) then Some (map Some el_ret) else None in
      match stored_el with
      | None => (t2, Some (EPy AssertErr))
      | Some el =>
        let wt := match tr_weight x with
                  | Some w' => if ta_use_w t2 then w' else UNITW
                  | None => UNITW end in
        (mkTa (ta_rooting t2) (ta_ign_el t2) (ta_ign_ages t2) (ta_use_w t2)
              (put index splits (ta_splits t2))
              (put index el (ta_elens t2))
              (put index (tr_leafset x) (ta_leafsets t2))
              (put index wt (ta_weights t2))
              sd', None)
      end
    end
  end.

(* the four .extend(...) statements and _split_distribution.update shared by update / extend *)
Definition extend_lists (a b : tarr) : tarr :=
  mkTa (ta_rooting a) (ta_ign_el a) (ta_ign_ages a) (ta_use_w a)
       (ta_splits a ++ ta_splits b) (ta_elens a ++ ta_elens b)
       (ta_leafsets a ++ ta_leafsets b) (ta_weights a ++ ta_weights b)
       (sd_update (ta_sd a) (ta_sd b)).

(* TreeArray.update(other) *)
Definition update (a b : tarr) : tarr * option terr :=
  if is_nil (ta_splits b) then (a, None)
  else if negb (is_nil (ta_splits a)) then
    if negb (obool_eqb (ta_rooting a) (ta_rooting b)) then (a, Some EIncRooting)
    else if negb (Bool.eqb (ta_ign_el a) (ta_ign_el b)) then (a, Some EIncEdgeLens)
    else if negb (Bool.eqb (ta_ign_ages a) (ta_ign_ages b)) then (a, Some EIncNodeAges)
    else if negb (Bool.eqb (ta_use_w a) (ta_use_w b)) then (a, Some EIncWeights)
    else (extend_lists a b, None)
  else
    (extend_lists (mkTa (ta_rooting b) (ta_ign_el b) (ta_ign_ages b) (ta_use_w b)
                        (ta_splits a) (ta_elens a) (ta_leafsets a) (ta_weights a) (ta_sd a)) b,
     None).

(* TreeArray.extend(tree_array) = __iadd__ : the assert statements, then the extension *)
Definition extend (a b : tarr) : tarr * option terr :=
  if negb (obool_eqb (ta_rooting a) (ta_rooting b)) then (a, Some (EPy AssertErr))
  else if negb (Bool.eqb (ta_ign_el a) (ta_ign_el b)) then (a, Some (EPy AssertErr))
  else if negb (Bool.eqb (ta_ign_ages a) (ta_ign_ages b)) then (a, Some (EPy AssertErr))
  else if negb (Bool.eqb (ta_use_w a) (ta_use_w b)) then (a, Some (EPy AssertErr))
  else (extend_lists a b, None).

(* TreeArray.__add__ : a new array with self's settings, += self, += other *)
Definition plus (a b : tarr) : option tarr * option terr :=
  let t0 := new_ta (ta_rooting a) (ta_ign_el a) (ta_ign_ages a) (ta_use_w a) in
  match extend t0 a with
  | (_, Some e) => (None, Some e)
  | (t1, None) =>
    match extend t1 b with
    | (_, Some e) => (None, Some e)
    | (t2, None) => (Some t2, None)
    end
  end.

(* ------------------------------------------------------------------------------------ *)
(* Repaired forms of the two sites with a recorded finding (DESIGN 5.2).  The harness      *)
(* determines by replaying the findings' reproducers which form the working tree has and   *)
(* runs the correspondence against that form.                                              *)
(* ------------------------------------------------------------------------------------ *)

(* (a) add_tree treats an undefined rooting as unrooted before validate_rooting *)
Definition norm_rooting (x : trec) : trec :=
  mkTrec (tr_items x) (tr_leafset x) (tr_weight x)
         (match tr_rooting x with None => Some false | r => r end) (tr_ages_err x).

Definition add_tree_r (t : tarr) (x : trec) (index : option Z) : tarr * option terr :=
  add_tree t (norm_rooting x) index.

(* (b) extend returns at once on an empty argument and lets an empty receiver of undefined
       rooting take over the argument's rooting before the asserts *)
Definition is_none {A} (o : option A) : bool := match o with None => true | Some _ => false end.

Definition extend_r (a b : tarr) : tarr * option terr :=
  if is_nil (ta_splits b) then (a, None)
  else extend (if is_nil (ta_splits a) && is_none (ta_rooting a) then set_rooting a (ta_rooting b) else a) b.

Definition plus_r (a b : tarr) : option tarr * option terr :=
  let t0 := new_ta (ta_rooting a) (ta_ign_el a) (ta_ign_ages a) (ta_use_w a) in
  match extend_r t0 a with
  | (_, Some e) => (None, Some e)
  | (t1, None) =>
    match extend_r t1 b with
    | (_, Some e) => (None, Some e)
    | (t2, None) => (Some t2, None)
    end
  end.

(* ------------------------------------------------------------------------------------ *)
(* Operation histories over several TreeArray objects (the harness's variables)          *)
(* ------------------------------------------------------------------------------------ *)

Inductive op :=
| OAdd (slot : nat) (x : trec) (index : option Z)   (* add_tree / append / insert *)
| OUpdate (dst src : nat)                           (* dst.update(src) *)
| OExtend (dst src : nat)                           (* dst.extend(src) *)
| OIAdd (dst src : nat)                             (* dst += src *)
| OPlus (dst a b : nat).                            (* dst = a + b *)

Fixpoint set_nth {A} (i : nat) (x : A) (l : list A) : list A :=
  match l, i with
  | [], _ => []
  | _ :: r, O => x :: r
  | y :: r, S j => y :: set_nth j x r
  end.

Definition bad_slot : option terr := Some (EPy OtherErr).

Definition step (w : list tarr) (o : op) : list tarr * option terr :=
  match o with
  | OAdd i x index =>
    match nth_error w i with
    | Some t => let '(t', e) := add_tree t x index in (set_nth i t' w, e)
    | None => (w, bad_slot)
    end
  | OUpdate i j =>
    match nth_error w i, nth_error w j with
    | Some a, Some b => let '(t', e) := update a b in (set_nth i t' w, e)
    | _, _ => (w, bad_slot)
    end
  | OExtend i j | OIAdd i j =>
    match nth_error w i, nth_error w j with
    | Some a, Some b => let '(t', e) := extend a b in (set_nth i t' w, e)
    | _, _ => (w, bad_slot)
    end
  | OPlus k i j =>
    match nth_error w i, nth_error w j with
    | Some a, Some b =>
      match plus a b with
      | (Some t', e) => (set_nth k t' w, e)
      | (None, e) => (w, e)
      end
    | _, _ => (w, bad_slot)
    end
  end.

Definition run (w : list tarr) (ops : list op) : list tarr :=
  fold_left (fun w o => fst (step w o)) ops w.

(* the same with the form of the two sites chosen by (v_undef, v_ext): false = as modelled above *)
Definition step_v (v_undef v_ext : bool) (w : list tarr) (o : op) : list tarr * option terr :=
  match o with
  | OAdd i x index =>
    match nth_error w i with
    | Some t => let '(t', e) := (if v_undef then add_tree_r else add_tree) t x index in (set_nth i t' w, e)
    | None => (w, bad_slot)
    end
  | OExtend i j | OIAdd i j =>
    match nth_error w i, nth_error w j with
    | Some a, Some b => let '(t', e) := (if v_ext then extend_r else extend) a b in (set_nth i t' w, e)
    | _, _ => (w, bad_slot)
    end
  | OPlus k i j =>
    match nth_error w i, nth_error w j with
    | Some a, Some b =>
      match (if v_ext then plus_r else plus) a b with
      | (Some t', e) => (set_nth k t' w, e)
      | (None, e) => (w, e)
      end
    | _, _ => (w, bad_slot)
    end
  | OUpdate _ _ => step w o
  end.

(* Which trees an array is supposed to hold after a history ("pooling"): the bookkeeping the
   theorems use to say what a summary may depend on.  A failed operation adds nothing. *)
Definition pool_step (g : list (list trec)) (o : op) (e : option terr) : list (list trec) :=
  match e with
  | Some _ => g
  | None =>
    match o with
    | OAdd i x _ => set_nth i (nth i g [] ++ [x]) g
    | OUpdate i j | OExtend i j | OIAdd i j => set_nth i (nth i g [] ++ nth j g []) g
    | OPlus k i j => set_nth k (nth i g [] ++ nth j g []) g
    end
  end.

Fixpoint run_pool (w : list tarr) (g : list (list trec)) (ops : list op) : list tarr * list (list trec) :=
  match ops with
  | [] => (w, g)
  | o :: r => let '(w', e) := step w o in run_pool w' (pool_step g o e) r
  end.

(* ------------------------------------------------------------------------------------ *)
(* Queries                                                                               *)
(* ------------------------------------------------------------------------------------ *)

(* calc_normalization_weight, in weight units *)
Definition normw (sd : sdist) : Z :=
  if Z.eqb (sd_sumw sd) 0 then sd_total sd * UNITW else sd_sumw sd.

(* split_frequencies.get(split, 0.0)   (calc_freqs) *)
Definition freq (sd : sdist) (s : Z) : Q :=
  match alook s (sd_counts sd) with
  | None => 0%Q
  | Some c => if Z.eqb (sd_total sd) 0 then 1%Q else (inject_Z c / inject_Z (normw sd))%Q
  end.

Definition qualifies (incl_ext : bool) (leafset s : Z) : bool :=
  incl_ext || Z.eqb s leafset || negb (py_is_trivial_bitmask s leafset).

(* the inner loop of calculate_sum_of_split_supports *)
Definition sum_score (f : Z -> Q) (incl : bool) (x : Z * list Z) : Q :=
  fold_left (fun acc s => if qualifies incl (fst x) s then (acc + f s)%Q else acc) (snd x) 0%Q.

(* the inner loop of calculate_log_product_of_split_supports, as a product (exp of the sum of
   logs); a zero support is skipped like in the code *)
Definition prod_score (f : Z -> Q) (incl : bool) (x : Z * list Z) : Q :=
  fold_left (fun acc s => if qualifies incl (fst x) s
                          then (if Qeq_bool (f s) 0 then acc else (acc * f s)%Q) else acc)
            (snd x) 1%Q.

Inductive score_kind := SumSupport | ProductSupport.

Definition tree_score (k : score_kind) (f : Z -> Q) (incl : bool) (x : Z * list Z) : Q :=
  match k with SumSupport => sum_score f incl x | ProductSupport => prod_score f incl x end.

(* `if max_score is None or max_score < score:` - the first index attaining the maximum *)
Fixpoint argmax_from (l : list Q) (i : nat) (best : option (nat * Q)) : option (nat * Q) :=
  match l with
  | [] => best
  | x :: r =>
    match best with
    | None => argmax_from r (S i) (Some (i, x))
    | Some (j, m) => if Qle_bool x m then argmax_from r (S i) best
                     else argmax_from r (S i) (Some (i, x))
    end
  end.

(* calculate_sum_of_split_supports / calculate_log_product_of_split_supports:
   (scores, max_score_tree_idx) or the AssertionError of the first statement *)
Definition calc_scores (k : score_kind) (incl : bool) (t : tarr) : res (list Q * option nat) :=
  if negb (Nat.eqb (length (ta_leafsets t)) (length (ta_splits t))) then Err AssertErr
  else
    let scores := map (tree_score k (freq (ta_sd t)) incl) (combine (ta_leafsets t) (ta_splits t)) in
    Ok (scores, option_map fst (argmax_from scores 0 None)).

(* Python list indexing l[i] *)
Definition py_index {A} (l : list A) (i : Z) : option A :=
  let n := Z.of_nat (length l) in
  if (i <? - n) || (n <=? i) then None
  else nth_error l (Z.to_nat (if i <? 0 then i + n else i)).

(* restore_tree(index) up to the call of Tree.from_split_bitmasks: its arguments
   (split_bitmasks, split_edge_lengths as association list or None, is_rooted) *)
Definition restore_args (t : tarr) (i : Z)
  : res (list Z * option (list (Z * option Z)) * option bool) :=
  match py_index (ta_splits t) i with
  | None => Err IndexErr
  | Some sp =>
    if ta_ign_el t then Ok (sp, None, ta_rooting t)
    else if negb (Nat.eqb (length (ta_splits t)) (length (ta_elens t))) then Err AssertErr
    else match py_index (ta_elens t) i with
         | None => Err IndexErr
         | Some el => Ok (sp, Some (combine sp el), ta_rooting t)
         end
  end.

(* maximum_product_of_split_support_tree / maximum_sum_of_split_support_tree up to
   from_split_bitmasks: the score and the restore_tree arguments of the chosen tree *)
Definition mcc (k : score_kind) (incl : bool) (t : tarr)
  : res (Q * (list Z * option (list (Z * option Z)) * option bool)) :=
  match calc_scores k incl t with
  | Err e => Err e
  | OutOfFuel => OutOfFuel
  | Ok (scores, None) => Err TypeErr            (* restore_tree(index=None) on an empty array *)
  | Ok (scores, Some j) =>
    match restore_args t (Z.of_nat j), nth_error scores j with
    | Ok a, Some q => Ok (q, a)
    | Err e, _ => Err e
    | _, _ => Err IndexErr
    end
  end.

(* split_bitmask_set_frequencies: only its assert *)
Definition topology_freqs_pre (t : tarr) : bool :=
  Nat.eqb (length (ta_splits t)) (length (ta_weights t)).

(* ------------------------------------------------------------------------------------ *)
(* SumTrees: serial mode versus worker processes                                         *)
(* ------------------------------------------------------------------------------------ *)

Record cfg := mkCfg { c_rooting : option bool; c_ign_el : bool; c_ign_ages : bool; c_use_w : bool }.

Definition new_cfg (c : cfg) : tarr := new_ta (c_rooting c) (c_ign_el c) (c_ign_ages c) (c_use_w c).

(* read_from_files / _read_into_tree_array: add_tree for every tree, the first exception ends it *)
Fixpoint add_all (t : tarr) (xs : list trec) : tarr * option terr :=
  match xs with
  | [] => (t, None)
  | x :: r => match add_tree t x None with
              | (t', None) => add_all t' r
              | (t', Some e) => (t', Some e)
              end
  end.

(* serial_analyze_trees: one array, all files in order *)
Definition serial (c : cfg) (files : list (list trec)) : tarr * option terr :=
  add_all (new_cfg c) (concat files).

(* a schedule: how many worker processes, which worker happens to take which file off the
   work queue, in which order the workers' results arrive on the results queue *)
Record sched := mkSched {
  s_workers : nat;
  s_assign : list nat;        (* worker of the i-th file *)
  s_arrival : list nat        (* order in which results_queue.get() returns the workers *)
}.

(* the files a worker reads, in queue order *)
Definition worker_files {A} (s : sched) (files : list A) (w : nat) : list A :=
  map snd (filter (fun p => Nat.eqb (fst p) w) (combine (s_assign s) files)).

(* TreeAnalysisWorker.run: its own array, every file it got; the array or the exception is
   put on the results queue *)
Definition worker_result (c : cfg) (s : sched) (files : list (list trec)) (w : nat) : tarr * option terr :=
  add_all (new_cfg c) (concat (worker_files s files w)).

(* the collation loop of parallel_analyze_trees: an exception object is re-raised, an array is
   merged with master_tree_array.update(result) *)
Fixpoint collate (m : tarr) (results : list (tarr * option terr)) : tarr * option terr :=
  match results with
  | [] => (m, None)
  | (_, Some e) :: _ => (m, Some e)
  | (r, None) :: rest =>
    match update m r with
    | (m', None) => collate m' rest
    | (m', Some e) => (m', Some e)
    end
  end.

Definition parallel_collate (c : cfg) (s : sched) (files : list (list trec)) : tarr * option terr :=
  collate (new_cfg c) (map (worker_result c s files) (s_arrival s)).

(* ------------------------------------------------------------------------------------ *)
(* Comparison with the implementation's observation (cases.v)                            *)
(* ------------------------------------------------------------------------------------ *)

Fixpoint zins (x : Z) (l : list Z) : list Z :=
  match l with [] => [x] | y :: r => if x <=? y then x :: l else y :: zins x r end.
Definition zsort (l : list Z) : list Z := fold_right zins [] l.

Definition ozle (a b : option Z) : bool :=
  match a, b with
  | Some x, Some y => x <=? y
  | Some _, None => true
  | None, Some _ => false
  | None, None => true
  end.
Fixpoint ozins (x : option Z) (l : list (option Z)) : list (option Z) :=
  match l with [] => [x] | y :: r => if ozle x y then x :: l else y :: ozins x r end.
Definition ozsort (l : list (option Z)) : list (option Z) := fold_right ozins [] l.

Fixpoint kins {V} (x : Z * V) (l : list (Z * V)) : list (Z * V) :=
  match l with [] => [x] | y :: r => if fst x <=? fst y then x :: l else y :: kins x r end.
Definition ksort {V} (l : list (Z * V)) : list (Z * V) := fold_right kins [] l.

Definition oz_eqb := option_eqb Z.eqb.

(* canonical dump of an array: what py/dv/c06.py:dump_state produces *)
Record est := mkEst {
  e_rooting : option bool;
  e_flags : list bool;                     (* ta ign_el, ign_ages, use_w; sd ign_el, ign_ages, use_w *)
  e_splits : list (list Z);
  e_elens : list (list (option Z));
  e_leafsets : list Z;
  e_weights : list Z;
  e_total : Z;
  e_sumw : Z;
  e_rt : bool;
  e_rf : bool;
  e_counts : list (Z * Z);                 (* sorted by split *)
  e_sel : list (Z * list Z);               (* sorted by split, values sorted, empty lists dropped *)
  e_sag : list (Z * list (option Z))
}.

Definition canon_lists {A} (srt : list A -> list A) (m : list (Z * list A)) : list (Z * list A) :=
  ksort (map (fun kv => (fst kv, srt (snd kv))) (filter (fun kv => negb (is_nil (snd kv))) m)).

Definition state_eqb (t : tarr) (e : est) : bool :=
  let sd := ta_sd t in
  obool_eqb (ta_rooting t) (e_rooting e)
  && list_eqb Bool.eqb [ta_ign_el t; ta_ign_ages t; ta_use_w t; sd_ign_el sd; sd_ign_ages sd; sd_use_w sd] (e_flags e)
  && list_eqb (list_eqb Z.eqb) (ta_splits t) (e_splits e)
  && list_eqb (list_eqb oz_eqb) (ta_elens t) (e_elens e)
  && list_eqb Z.eqb (ta_leafsets t) (e_leafsets e)
  && list_eqb Z.eqb (ta_weights t) (e_weights e)
  && Z.eqb (sd_total sd) (e_total e) && Z.eqb (sd_sumw sd) (e_sumw e)
  && Bool.eqb (sd_rt sd) (e_rt e) && Bool.eqb (sd_rf sd) (e_rf e)
  && list_eqb (fun a b => Z.eqb (fst a) (fst b) && Z.eqb (snd a) (snd b)) (ksort (sd_counts sd)) (e_counts e)
  && list_eqb (fun a b => Z.eqb (fst a) (fst b) && list_eqb Z.eqb (snd a) (snd b))
              (canon_lists zsort (sd_elens sd)) (e_sel e)
  && list_eqb (fun a b => Z.eqb (fst a) (fst b) && list_eqb oz_eqb (snd a) (snd b))
              (canon_lists ozsort (sd_ages sd)) (e_sag e).

(* per step: the exception (or none), the lengths of the four parallel lists and the rooting
   flag of the object the operation was applied to *)
Record stepobs := mkStep { so_err : option terr; so_slot : nat; so_lens : list Z; so_rooting : option bool }.

Definition lens4 (t : tarr) : list Z :=
  [Z.of_nat (length (ta_splits t)); Z.of_nat (length (ta_elens t));
   Z.of_nat (length (ta_leafsets t)); Z.of_nat (length (ta_weights t))].

Definition op_target (o : op) : nat :=
  match o with OAdd i _ _ | OUpdate i _ | OExtend i _ | OIAdd i _ | OPlus i _ _ => i end.

Fixpoint run_obs (vu ve : bool) (w : list tarr) (ops : list op) : list stepobs * list tarr :=
  match ops with
  | [] => ([], w)
  | o :: r =>
    let '(w', e) := step_v vu ve w o in
    let i := op_target o in
    let so := match nth_error w' i with
              | Some t => mkStep e i (lens4 t) (ta_rooting t)
              | None => mkStep e i [] None
              end in
    let '(obs, wf) := run_obs vu ve w' r in (so :: obs, wf)
  end.

Definition stepobs_eqb (a b : stepobs) : bool :=
  option_eqb terr_eqb (so_err a) (so_err b) && Nat.eqb (so_slot a) (so_slot b)
  && list_eqb Z.eqb (so_lens a) (so_lens b) && obool_eqb (so_rooting a) (so_rooting b).

(* a direct case: the variables' constructor arguments, the history, what the implementation did *)
Record case := mkCase {
  k_slots : list cfg;
  k_ops : list op;
  k_steps : list stepobs;
  k_final : list est
}.

Definition case_run (vu ve : bool) (c : case) := run_obs vu ve (map new_cfg (k_slots c)) (k_ops c).

Fixpoint all2 {A B} (f : A -> B -> bool) (l : list A) (m : list B) : bool :=
  match l, m with
  | [], [] => true
  | x :: r, y :: s => f x y && all2 f r s
  | _, _ => false
  end.

Definition case_ok_v (vu ve : bool) (c : case) : bool :=
  let '(obs, wf) := case_run vu ve c in
  list_eqb stepobs_eqb obs (k_steps c) && all2 state_eqb wf (k_final c).

(* diagnostics for replays: step observations and a light dump of the final states *)
Definition case_ok := case_ok_v false false.

Definition case_show_v (vu ve : bool) (c : case) :=
  let '(obs, wf) := case_run vu ve c in
  (obs, map (fun t => (ta_rooting t, lens4 t, sd_total (ta_sd t), sd_sumw (ta_sd t), ksort (sd_counts (ta_sd t)))) wf).

(* a SumTrees case: the records of the trees in every input file (as the readers deliver them
   under the given rooting option), the configuration, the schedule that the run really had
   (which worker read which file, in which order the results arrived: observed by the harness),
   the final array of the implementation in serial mode and the master array after the real
   collation; the model must reproduce both exactly (including the order of the per-tree lists) *)
Record stcase := mkStCase {
  sc_cfg : cfg;
  sc_files : list (list trec);
  sc_sched : sched;
  sc_serial : est;          (* implementation, serial mode *)
  sc_parallel : est         (* implementation, num_processes = s_workers *)
}.

Definition stcase_ok_v (vu : bool) (c : stcase) : bool :=
  let files := if vu then map (map norm_rooting) (sc_files c) else sc_files c in
  match serial (sc_cfg c) files, parallel_collate (sc_cfg c) (sc_sched c) files with
  | (ts, None), (tp, None) =>
    state_eqb ts (sc_serial c) && state_eqb tp (sc_parallel c)
  | _, _ => false
  end.

Definition stcase_ok := stcase_ok_v false.
