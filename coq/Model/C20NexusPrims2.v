(* C20: run-time library of the translator py/dv/gen_nexuschars.py, part 2: the constructs of the MATRIX-statement
   methods  NexusReader._parse_dimensions_statement, _get_taxon, _process_discrete_matrix_data, _parse_matrix_statement
   (dataio/nexusreader.py).  As in Model/C20NexusPrims.v each definition states the Python semantics ASSUMED for one
   construct; this file and the translator's construct-to-name mapping are the trusted part of the tie.  What the
   generated code does with them is proved equal to the skeleton (Proofs/C20GenNexusMatrix*.v).

   Objects
   * the reader + tokenizer = `nstate`; in these methods EVERY attribute access goes through the state (getters /
     setters), so a method sees the value an earlier statement or a callee assigned
   * `next_token()` delivers str or None (end of stream): option str;  `is_eof()` = the n_eof flag
   * self._file_specified_ntax / _nchar: None or int = option Z.  `not x` is true for None and 0; `a < x` with x = None
     raises TypeError (py_lt_z_optz), as does handing None to a callee that compares it (py_optz_int)
   * a TaxonNamespace = its index in self._taxon_namespaces (tnsref), a Taxon = its index in the namespace
   * the CharacterMatrix made by _new_char_matrix = `cbref`: its index in self._char_matrices (the rows live in the
     state, so every alias sees a mutation) + its default_state_alphabet, the one attribute the state record has no
     field for.  _build_state_alphabet(char_block, ..) mutates that attribute: the translator REBINDS the variable
     (it checks that the only other alias, the caller's variable, is dead after the call)
   * `char_block[taxon]` (CharacterMatrix.__getitem__) creates an empty sequence when the taxon has none
     (py_cb_touch) and yields the sequence; a sequence is a list of states of which only the length matters
     (py_cb_row); a callee that extends the sequence in place hands it back and the caller stores it (py_cb_set_row).
     A variable bound to `char_block[taxon]` is an ALIAS of the row (rowref = the taxon): its length is read from the
     state when it is used (py_rowref_len)
   * `for taxon in char_block` iterates the taxa that have a row.  CharacterMatrix.__iter__ yields them in
     namespace order; py_cb_taxa yields them in row-creation order.  (The only translated loop over it raises the
     same exception class for any short row, so the order is not observable there.)
   * the two recorded defect sites outside the translated methods are parameters of the primitives that contain them:
     fxa (= nfix.fx_alpha, _build_state_alphabet), fxc (= nfix.fx_cblock, _read_continuous_character_values) *)
From Coq Require Import String Ascii ZArith List Bool.
From DV Require Import Model.PyPrims Gen.ReaderLoops Model.Tokenizer Model.Newick Model.C20Model Model.C20Nexus2 Model.C20NexusPrims.
Import ListNotations.
Close Scope string_scope.
Open Scope list_scope.
Open Scope Z_scope.

(* ---- tokenizer ---- *)
Definition py_next_token (st : nstate) : nr (option str * nstate) := next_token st.        (* next_token() *)
Definition py_is_eof (st : nstate) : bool := n_eof st.                                    (* is_eof() *)
Definition ostr_is (t : option str) (lit : string) : bool := tok_is t lit.                (* t == "lit", t: str or None *)
Definition py_is_none {A : Type} (x : option A) : bool := match x with None => true | Some _ => false end.

(* ---- int / None ---- *)
(* dval c = Some d: c is a DECIMAL digit (Unicode Nd: 0-9, Arabic-Indic, ...) of value d; xdigit c: c is a digit for
   str.isdigit() that is NOT decimal (superscript two, circled one, ...).
   s.isdecimal(): non-empty, every character decimal.  In Python isdecimal is contained in what int() accepts, so
   int(s) under `if s.isdecimal():` is the total py_int.  On ASCII text isdecimal and isdigit coincide.
   s.isdigit(): non-empty, every character decimal or xdigit; int(s) under `if s.isdigit():` raises ValueError when a
   character is not decimal (py_int_digit).  The current source tests isdecimal(); if it tests isdigit() again the
   generated code takes this variant form, which does not equal the skeleton (the tie proof breaks). *)
Definition py_isdecimal (dval : Z -> option Z) (s : str) : bool := all_digits dval s.     (* s.isdecimal() *)
Definition py_int (dval : Z -> option Z) (s : str) : Z := int_val dval s.                 (* int(s), s.isdecimal() *)
Definition py_isdigit (dval : Z -> option Z) (xdigit : Z -> bool) (s : str) : bool :=     (* s.isdigit() *)
  match s with
  | [] => false
  | _ => forallb (fun c => match dval c with Some _ => true | None => xdigit c end) s
  end.
Definition py_int_digit (dval : Z -> option Z) (s : str) : nr Z :=                        (* int(s), s.isdigit() *)
  if all_digits dval s then ROk (int_val dval s) else RErr ValueErr.
Definition py_not_optz (x : option Z) : bool := match x with None => true | Some n => n =? 0 end.
Definition py_lt_z_optz (a : Z) (b : option Z) : nr bool :=
  match b with Some n => ROk (a <? n) | None => RErr TypeErr end.
Definition py_le_z_optz (a : Z) (b : option Z) : nr bool :=
  match b with Some n => ROk (a <=? n) | None => RErr TypeErr end.
Definition py_optz_int (x : option Z) : nr Z := match x with Some n => ROk n | None => RErr TypeErr end.

(* ---- attributes ---- *)
Definition set_file_specified_ntax (st : nstate) (v : Z) : nstate := upd_ntax st (Some v).
Definition set_file_specified_nchar (st : nstate) (v : Z) : nstate := upd_nchar st (Some v).
Definition get_file_specified_ntax (st : nstate) : option Z := n_ntax st.
Definition get_file_specified_nchar (st : nstate) : option Z := n_nchar st.
Definition get_data_type (st : nstate) : dtype := n_dtype st.
Definition get_interleave (st : nstate) : bool := n_interleave st.
Definition get_match_char (st : nstate) : list str := n_match st.
Definition dtype_is (d : dtype) (v : string) : bool := dtype_code d =? dtype_code (dtype_of v).   (* self._data_type == "v" *)

(* ---- taxon namespaces ---- *)
Definition py_tns_len (st : nstate) (tns : nat) : Z := zlen (tns_labels st tns).          (* len(taxon_namespace) *)
Section Lower.
Variable lower : str -> str.
(* taxon_namespace.require_taxon(label=l, is_case_sensitive=self.case_sensitive_taxon_labels), reader default: labels
   compared case-insensitively; the first match, else a new member.  l = None (never delivered while the row loop's
   guard holds): a taxon with the empty label, as in the skeleton *)
Definition py_require_taxon (st : nstate) (tns : nat) (label : option str) : option nat * nstate :=
  let ls := tns_labels st tns in
  match find_label lower (tok_text label) ls O with
  | Some i => (Some i, st)
  | None => (Some (length ls), tns_set_labels st tns (ls ++ [tok_text label]))
  end.
(* taxon_namespace.get_taxon(label=l, is_case_sensitive=..): the first match or None *)
Definition py_get_taxon (st : nstate) (tns : nat) (label : option str) : option nat :=
  find_label lower (tok_text label) (tns_labels st tns) O.
End Lower.

(* self._get_taxon_namespace(link_title): NOT translated = the skeleton's get_tns *)
Definition py_get_taxon_namespace (upper : str -> str) (st : nstate) (title : option str) : nr (nat * nstate) :=
  get_tns upper st title.

(* ---- the character matrix ---- *)
Record cbref : Type := mkCb { cb_ix : nat; cb_alpha : alphabet }.

(* self._new_char_matrix(self._data_type, taxon_namespace=tns, title=t): a matrix without rows is appended to
   self._char_matrices; its default_state_alphabet is the fixed alphabet of the data type, and for STANDARD one whose
   lookup tables are not built yet *)
Definition py_new_char_matrix (st : nstate) (dt : dtype) (tns : nat) (title : option str) : cbref * nstate :=
  (mkCb (length (n_mats st)) (match dt with DStd => AStd None | d => AFixed (dtype_code d) end),
   upd_mats st (n_mats st ++ [mkMat title tns [] []])).

Definition cb_mat (st : nstate) (cb : cbref) : option matrix := nth_error (n_mats st) (cb_ix cb).
Definition cb_rows (st : nstate) (cb : cbref) : list (nat * Z) :=
  match cb_mat st cb with Some m => m_rows m | None => [] end.
Definition cb_upd_rows (st : nstate) (cb : cbref) (rows : list (nat * Z)) : nstate :=
  match cb_mat st cb with
  | Some m => upd_mats st (set_nth (n_mats st) (cb_ix cb) (mkMat (m_label m) (m_tns m) rows (m_sets m)))
  | None => st
  end.

Definition py_cb_taxon_namespace (st : nstate) (cb : cbref) : nat :=                      (* char_block.taxon_namespace *)
  match cb_mat st cb with Some m => m_tns m | None => O end.
Definition py_cb_default_state_alphabet (cb : cbref) : alphabet := cb_alpha cb.           (* .default_state_alphabet *)

(* self._build_state_alphabet(char_block, symbols): NOT translated = the skeleton's build_std_alphabet on the
   symbols handed in; the alphabet becomes the matrix's default_state_alphabet *)
Definition py_build_state_alphabet (fxa : bool) (upper lower : str -> str) (st : nstate) (cb : cbref) (symbols : str)
  : nr cbref :=
  dn k <- build_std_alphabet (mkFix false fxa false) upper lower (set_symbols st symbols) ;;
  ROk (mkCb (cb_ix cb) (AStd k)).

(* char_block[taxon] *)
Definition py_cb_touch (st : nstate) (cb : cbref) (t : nat) : nstate :=
  match row_len_of (cb_rows st cb) t with
  | Some _ => st
  | None => cb_upd_rows st cb (set_row (cb_rows st cb) t 0)
  end.
Definition py_cb_row_len (st : nstate) (cb : cbref) (t : nat) : Z :=                      (* len(char_block[taxon]) *)
  match row_len_of (cb_rows st cb) t with Some n => n | None => 0 end.
Definition py_cb_row (st : nstate) (cb : cbref) (t : nat) : list pstate :=
  repeat tt (Z.to_nat (py_cb_row_len st cb t)).
Definition py_cb_set_row (st : nstate) (cb : cbref) (t : nat) (v : list pstate) : nstate :=
  cb_upd_rows st cb (set_row (cb_rows st cb) t (zlen v)).
(* an alias of a row of char_block, handed to a callee that looks at its length (first_sequence_defined) *)
Definition py_rowref_len (st : nstate) (cb : cbref) (r : option nat) : option Z :=
  match r with Some t => row_len_of (cb_rows st cb) t | None => None end.
(* for taxon in char_block *)
Definition py_cb_taxa (st : nstate) (cb : cbref) : list nat := map fst (cb_rows st cb).

(* self._process_continuous_matrix_data(char_block): NOT translated = the continuous branch of the skeleton's
   parse_matrix (row loop over _read_continuous_character_values, with the closing check of the interleaved form) *)
Definition py_process_continuous_matrix_data (fxc fxa : bool) (upper lower : str -> str) (sym_ok : Z -> Z -> bool)
           (is_float : str -> bool) (F : nat) (cb : cbref) (st : nstate) : nr nstate :=
  match cb_mat st cb, n_nchar st with
  | Some m0, Some nc =>
    let fx := mkFix fxc fxa true in
    let il := n_interleave st in
    dn p <- next_token st ;;
    dn r <- matrix_loop fx upper lower sym_ok is_float F F (if il then L_cmatrix_il else L_cmatrix) None il nc (fst p) (snd p) m0 None ;;
    let '(tok, st3, term) := r in
    dn st4 <- (if term then dn q <- next_token st3 ;; ROk (snd q) else ROk st3) ;;
    if il && rows_short st4 nc then RErr ParseErr else ROk st4
  | _, _ => RErr TypeErr
  end.
