(* C20: run-time library of the translator py/dv/gen_nexuschars.py (output: coq/Gen/NexusChars.v).
   Each definition states the Python semantics ASSUMED for one construct that the translated methods of
   dataio/nexusreader.py use (NexusReader._parse_format_statement, NexusReader._read_character_states).
   This file and the translator's mapping of constructs to these names are the trusted part of the tie; what the
   generated code does with them is proved equal to the hand-written skeleton (Proofs/C20GenNexus*.v).

   Objects
   * the reader + its tokenizer = the state record `nstate` of Model/C20Nexus2.v (tokenizer part, attributes);
     an attribute that a method ASSIGNS is a field of the state (setters below), an attribute that it only READS
     is a parameter of the generated function (`self_interleave`, `self_match_char`, `self_file_specified_nchar`)
   * a token delivered by `require_next_token*` is a str (those calls raise at end of stream, they never give None)
   * a state (StateIdentity) carries no information the skeleton looks at: `pstate` = unit; a sequence of states
     (CharacterDataSequence, list) = list of them, of which only the length matters
   * `first_sequence_defined` = None, or the length of that sequence
   * `raise NexusReader.BlockTerminatedException` = the result `GBte` (caught by the row loop of the caller) *)
From Coq Require Import String Ascii ZArith List Bool.
From DV Require Import Model.PyPrims Gen.ReaderLoops Model.Tokenizer Model.Newick Model.C20Model Model.C20Nexus2.
Import ListNotations.
Close Scope string_scope.
Open Scope list_scope.
Open Scope Z_scope.

(* result of a method that can raise BlockTerminatedException: its value, or the exception with the reader state *)
Inductive gres (A : Type) : Type :=
| GVal (a : A)
| GBte (st : nstate).
Arguments GVal {A} _.
Arguments GBte {A} _.

(* ---- tokenizer ---- *)
Definition unwrap_tok (r : nr (option str * nstate)) : nr (str * nstate) :=
  dn p <- r ;; match fst p with Some t => ROk (t, snd p) | None => RErr ParseErr end.

(* self._nexus_tokenizer.require_next_token() / require_next_token_ucase() *)
Definition py_require_next_token (st : nstate) : nr (str * nstate) := unwrap_tok (require_next_token st).
Definition py_require_next_token_ucase (upper : str -> str) (st : nstate) : nr (str * nstate) :=
  unwrap_tok (ucase upper (require_next_token st)).
(* self._nexus_tokenizer.set_capture_eol(b) *)
Definition py_set_capture_eol (st : nstate) (b : bool) : nstate := upd_modes st b (n_hyphen st).

(* ---- str ---- *)
Definition str_is (s : str) (lit : string) : bool := seqb s (s_of lit).          (* s == "lit" *)
Definition py_startswith (s : str) (lit : string) : bool := is_prefix (s_of lit) s.   (* s.startswith("lit") *)
Definition py_chars (s : str) : list str := map (fun c => [c]) s.                (* for c in s *)
Definition py_join_empty (l : list str) : str := concat l.                      (* "".join(l) *)
Definition py_in_str (a b : str) : bool := is_substr a b.                       (* a in b, both str *)
Definition py_in_strs (a : str) (l : list str) : bool := existsb (seqb a) l.     (* a in <frozenset of str> *)

(* ---- attributes assigned by _parse_format_statement ---- *)
Definition dtype_of (v : string) : dtype :=
  if String.eqb v "dna" then DDna else if String.eqb v "rna" then DRna
  else if String.eqb v "nucleotide" then DNuc else if String.eqb v "protein" then DProt
  else if String.eqb v "continuous" then DCont else DStd.
Definition set_data_type (st : nstate) (v : string) : nstate := upd_dtype st (dtype_of v) (n_symbols st).
Definition set_symbols (st : nstate) (v : str) : nstate := upd_dtype st (n_dtype st) v.
Definition get_symbols (st : nstate) : str := n_symbols st.
Definition set_gap_char (st : nstate) (v : str) : nstate := upd_gap st v.
Definition set_missing_char (st : nstate) (v : str) : nstate := upd_missing st v.
Definition set_match_char (st : nstate) (v : list str) : nstate := upd_match st v.
Definition set_interleave (st : nstate) (v : bool) : nstate := upd_interleave st v.

(* ---- states ---- *)
Definition pstate := unit.
Inductive mstype : Type := AMBIGUOUS_STATE | POLYMORPHIC_STATE.

Section Alpha.
Variable sym_ok : Z -> Z -> bool.
(* state_alphabet.full_symbol_state_map[c]: KeyError for an unknown symbol (TypeError when the alphabet of a
   STANDARD matrix could not be built and its lookup tables are None) *)
Definition py_symbol_state (a : alphabet) (c : str) : nr pstate :=
  match c with
  | [ch] => dn ok <- alpha_lookup sym_ok a ch ;; if ok then ROk tt else RErr KeyErr
  | _ => RErr KeyErr
  end.
(* self._get_state_for_multistate_tokens(c, multistate_type, state_alphabet): NOT translated; a state when every
   symbol of the group is known (match_state, else new_ambiguous_state / new_polymorphic_state), else the
   NexusReaderError it raises *)
Definition py_get_state_for_multistate (a : alphabet) (c : str) (t : mstype) : nr pstate :=
  dn ok <- group_ok sym_ok a c ;; if ok then ROk tt else RErr ParseErr.
End Alpha.

(* first_sequence_defined[i] for i >= 0: TypeError on None, IndexError beyond its length *)
Definition py_first_getitem (first : option Z) (i : Z) : nr pstate :=
  match first with
  | None => RErr TypeErr
  | Some fl => if i <? fl then ROk tt else RErr IndexErr
  end.
