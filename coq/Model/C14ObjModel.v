(* C14: histories on SEVERAL PhylogeneticDistanceMatrix objects (object-level model).

   Hand transcription, over the container store of Model/C14ObjPrims.v, of
     clear()              every container attribute REBOUND to a fresh empty container; scalars None
     __init__             self.clear()  (is_store_path_edges is not modelled: False)
     clone() / __copy__   o = self.__class__(); scalars copied; _mapped_taxa and
                          _all_distinct_mapped_taxa_pairs: set(x) = a NEW set with the same elements;
                          the four tables: the rows of self's table copied, as new dicts, INTO o's own
                          (fresh, from __init__) outer dict
     compile_from_tree / compile_from_dict
                          self.clear(), then only in-place operations on self's CURRENT containers
                          (the translator checks that neither method, nor _mirror_lookups, rebinds a
                          container attribute): the contents become those computed by the value-level
                          model (Model/C14Model.v compile_from_tree, Model/C14Hist.v compile_from_dict)
   each written as ONE step on the world (which identities are allocated, which are shadowed);
   Props/C14Gen.v proves the statement sequences compiled from the source (Gen/PdmObj.v) equal to
   these.  copy.deepcopy (no __deepcopy__: the default, which also copies the Taxon objects, the
   namespace and, through _mrca, the tree) and shuffle_taxa (rebinds three tables through setattr,
   never touches the two sets) are not modelled.

   A query on object i is the value-level query on abs w i (the tables dereferenced). *)
From Coq Require Import ZArith QArith List Bool.
From DV Require Import Model.PyPrims Model.Tree Model.C14Model Model.C14Hist Model.C14ObjPrims.
Import ListNotations.
Open Scope Z_scope.

Definition o_clear (self : oid) (w : world) : res world :=
  do o <- wobj w self ;;
  let c := w_next w in
  Ok (mkW ((c + 5, CTbl []) :: (c + 4, CTbl []) :: (c + 3, CTbl []) :: (c + 2, CTbl [])
           :: (c + 1, CPairs []) :: (c, CSet []) :: w_heap w)
          (c + 6)
          (dset self (mkObj 0 0 0 (Some c) (Some (c + 1)) (Some (c + 2)) (Some (c + 3)) (Some (c + 4)) (Some (c + 5)))
                (w_objs w))
          (w_onext w)).

Definition o_init (self : oid) (w : world) : res world := o_clear self w.

(* PhylogeneticDistanceMatrix() *)
Definition o_new (w : world) : res (world * oid) :=
  let '(w1, o) := st_new w in
  do w2 <- o_init o w1 ;;
  Ok (w2, o).

Definition o_clone (self : oid) (w : world) : res (world * oid) :=
  do so <- wobj w self ;;
  do cm <- attr AMapped so ;;
  do cp <- attr APairs so ;;
  do cd <- attr ADist so ;;
  do cs <- attr ASteps so ;;
  do ce <- attr AEdges so ;;
  do cr <- attr AMrca so ;;
  match hget w cm, hget w cp, hget w cd, hget w cs, hget w ce, hget w cr with
  | Some vm, Some vp, Some (CTbl Td), Some (CTbl Ts), Some (CTbl Te), Some (CTbl Tm) =>
    let c := w_next w in
    let n := w_onext w in
    Ok (mkW ((c + 5, CTbl (copy_rows Tm [])) :: (c + 4, CTbl (copy_rows Te []))
             :: (c + 3, CTbl (copy_rows Ts [])) :: (c + 2, CTbl (copy_rows Td []))
             :: (c + 7, vp) :: (c + 6, vm)
             (* the empty containers of the clone's own __init__; the two sets are dropped again *)
             :: (c + 5, CTbl []) :: (c + 4, CTbl []) :: (c + 3, CTbl []) :: (c + 2, CTbl [])
             :: (c + 1, CPairs []) :: (c, CSet []) :: w_heap w)
            (c + 8)
            (dset n (mkObj (ob_ns so) (ob_tl so) (ob_ne so) (Some (c + 6)) (Some (c + 7))
                           (Some (c + 2)) (Some (c + 3)) (Some (c + 4)) (Some (c + 5))) (w_objs w))
            (n + 1), n)
  | _, _, _, _, _, _ => Err OtherErr
  end.

(* the in-place writes of compile_from_tree / compile_from_dict after self.clear() *)
Definition o_fill (self : oid) (ns : Z) (p : pdm) (w : world) : res world :=
  do o <- wobj w self ;;
  do cm <- attr AMapped o ;;
  do cp <- attr APairs o ;;
  do cd <- attr ADist o ;;
  do cs <- attr ASteps o ;;
  do cr <- attr AMrca o ;;
  Ok (mkW ((cr, CTbl (p_mrca p)) :: (cs, CTbl (p_steps p)) :: (cd, CTbl (p_dist p))
           :: (cp, CPairs (p_pairs p)) :: (cm, CSet (p_mapped p)) :: w_heap w)
          (w_next w)
          (dset self (mkObj ns (p_tree_length p) (p_num_edges p) (ob_mapped o) (ob_pairs o)
                            (ob_dist o) (ob_steps o) (ob_edges o) (ob_mrca o)) (w_objs w))
          (w_onext w)).

Definition o_compile_tree (self : oid) (t : tree) (w : world) : res world :=
  do w1 <- o_clear self w ;;
  do p <- compile_from_tree t ;;
  o_fill self 1 p w1.

Definition o_compile_dict (self : oid) (d : tbl Z) (w : world) : res world :=
  do w1 <- o_clear self w ;;
  do p <- compile_from_dict d ;;
  o_fill self 1 p w1.

(* ---- the value of an object ---- *)
Definition cell_set (w : world) (c : option cid) : res (list Z) :=
  match c with
  | None => Err AttrErr
  | Some c => match hget w c with Some (CSet l) => Ok l | _ => Err TypeErr end
  end.
Definition cell_pairs (w : world) (c : option cid) : res (list (Z * Z)) :=
  match c with
  | None => Err AttrErr
  | Some c => match hget w c with Some (CPairs l) => Ok l | _ => Err TypeErr end
  end.
Definition cell_tbl (w : world) (c : option cid) : res (tbl Z) :=
  match c with
  | None => Err AttrErr
  | Some c => match hget w c with Some (CTbl l) => Ok l | _ => Err TypeErr end
  end.

Definition abs_obj (w : world) (o : obj) : res pdm :=
  do m <- cell_set w (ob_mapped o) ;;
  do p <- cell_pairs w (ob_pairs o) ;;
  do d <- cell_tbl w (ob_dist o) ;;
  do s <- cell_tbl w (ob_steps o) ;;
  do r <- cell_tbl w (ob_mrca o) ;;
  Ok (mkPdm (ob_tl o) (ob_ne o) d s r m p []).

Definition abs (w : world) (i : oid) : res pdm :=
  do o <- wobj w i ;; abs_obj w o.

(* ---- histories ---- *)
Inductive mop :=
| MNew                        (* PhylogeneticDistanceMatrix() *)
| MClone (i : oid)            (* objs[i].clone() / copy.copy(objs[i]) *)
| MTree (i : oid) (t : tree)  (* objs[i].compile_from_tree(tree)  (the tree as it is now) *)
| MDict (i : oid) (d : tbl Z) (* objs[i].compile_from_dict(distances, ns) *)
| MClear (i : oid)            (* objs[i].clear() *)
| MNone.

Definition apply_mop (op : mop) (w : world) : res world :=
  match op with
  | MNew => do r <- o_new w ;; Ok (fst r)
  | MClone i => do r <- o_clone i w ;; Ok (fst r)
  | MTree i t => o_compile_tree i t w
  | MDict i d => o_compile_dict i d w
  | MClear i => o_clear i w
  | MNone => Ok w
  end.

(* the object an operation is called on *)
Definition target (op : mop) : option oid :=
  match op with
  | MTree i _ | MDict i _ | MClear i => Some i
  | _ => None
  end.

Fixpoint run_mops (ops : list mop) (w : world) : res world :=
  match ops with
  | [] => Ok w
  | op :: r => do w1 <- apply_mop op w ;; run_mops r w1
  end.

(* container identities of every object, in object order; -1 = attribute absent *)
Definition oids_of (o : obj) : list Z :=
  map (fun c => match c with Some c => c | None => -1 end)
      [ob_mapped o; ob_pairs o; ob_dist o; ob_steps o; ob_edges o; ob_mrca o].

Definition all_cids (w : world) : list Z := flat_map (fun io => oids_of (snd io)) (w_objs w).

(* renaming-invariant form of a list of identities: index of the first occurrence *)
Fixpoint first_idx (x : Z) (l : list Z) (i : Z) : Z :=
  match l with
  | [] => i
  | y :: r => if Z.eqb x y then i else first_idx x r (i + 1)
  end.
Definition canon_ids (l : list Z) : list Z := map (fun x => first_idx x l 0) l.

(* expected after each step: per object (was it last compiled from a tree, its tables and answers),
   and the identities id() of all containers of all objects *)
Definition mexp := (list (bool * pdm_obs) * list Z)%type.

Fixpoint objs_ok (w : world) (os : list (Z * obj)) (exp : list (bool * pdm_obs)) : bool :=
  match os, exp with
  | [], [] => true
  | (i, o) :: os', (full, ob) :: exp' =>
    match abs_obj w o with
    | Ok p => (if full then pdm_obs_ok p ob else pdm_obs_ok_dist p ob) && objs_ok w os' exp'
    | _ => false
    end
  | _, _ => false
  end.

(* macc / oacc: identities seen so far (model / implementation), over the whole history *)
Fixpoint mhist_ok (w : world) (macc oacc : list Z) (stages : list (mop * res mexp)) : bool :=
  match stages with
  | [] => list_eqb Z.eqb (canon_ids macc) (canon_ids oacc)
  | (op, exp) :: rest =>
    match apply_mop op w, exp with
    | Ok w', Ok (obs, ids) =>
      objs_ok w' (w_objs w') obs && mhist_ok w' (macc ++ all_cids w') (oacc ++ ids) rest
    | Err e, Err f => err_eqb e f && list_eqb Z.eqb (canon_ids macc) (canon_ids oacc)
    | _, _ => false
    end
  end.

Definition mhist_case_ok (stages : list (mop * res mexp)) : bool := mhist_ok world_empty [] [] stages.

Definition mhist_show (stages : list (mop * res mexp)) :=
  (fix go (w : world) (l : list (mop * res mexp)) :=
     match l with
     | [] => []
     | (op, _) :: rest =>
       match apply_mop op w with
       | Ok w' => Ok (all_cids w', map (fun io => match abs_obj w' (snd io) with
                                                  | Ok p => Ok (zsort (p_mapped p), p_dist p, length (p_pairs p))
                                                  | Err e => Err e | OutOfFuel => OutOfFuel end) (w_objs w')) :: go w' rest
       | Err e => [Err e]
       | OutOfFuel => [OutOfFuel]
       end
     end) world_empty stages.
