(* Executable model of the Newick writer and reader of DendroPy.  Definitions only.

   Writer : nexusprocessing.escape_nexus_token, NewickWriter._render_node_tag,
            _write_node_body, _write_node_open/_write_leaf/_write_node_close driven by
            Node.apply, _write_tree, _write_tree_list               (newickwriter.py)
   Reader : NexusTaxonSymbolMapper.lookup_taxon_symbol / new_taxon  (nexusprocessing.py)
            NewickReader._parse_tree_statement, _process_tree_comments,
            _parse_tree_rooting_state, _parse_tree_node_description, tree_iter, _read
                                                                    (newickreader.py)
   over the token stream of Model/Tokenizer.v.

   Edge lengths are abstract: `L` with `render_len` (the writer's "{}".format(edge.length)) and
   `parse_len` (the reader's float(token); None = ValueError).  `lower` is Python's str.lower.

   NOT modelled (all off by default): annotations and item comments on output
   (suppress_annotations / suppress_item_comments = True), store_tree_weights,
   node_label_compose_fn / edge_label_compose_fn, real_value_format_specifier,
   is_parse_jplace_tokens, is_assign_internal_labels_to_edges, finish_node_fn; comment metadata
   extraction (comments are delivered raw, per item, in `p_comments`). *)
From Coq Require Import ZArith List Bool.
From DV Require Import Model.PyPrims Gen.CharClasses Model.Tokenizer.
Import ListNotations.
Open Scope Z_scope.

(* ------------------------------------------------------------------------------------------ *)
(* characters                                                                                  *)
Definition LPAREN : Z := 40.   Definition RPAREN : Z := 41.   Definition COMMA : Z := 44.
Definition COLON : Z := 58.    Definition SEMI : Z := 59.     Definition QUOTE : Z := 39.
Definition TAB : Z := 9.       Definition NEWLINE : Z := 10.

(* str.isspace(), the characters removed by str.strip() *)
Definition py_isspace (c : Z) : bool :=
  ((9 <=? c) && (c <=? 13)) || ((28 <=? c) && (c <=? 32)) || (c =? 133) || (c =? 160)
  || (c =? 5760) || ((8192 <=? c) && (c <=? 8202)) || (c =? 8232) || (c =? 8233)
  || (c =? 8239) || (c =? 8287) || (c =? 12288).

Fixpoint lstrip (s : str) : str :=
  match s with c :: r => if py_isspace c then lstrip r else s | [] => [] end.
Definition py_strip (s : str) : str := rev (lstrip (rev (lstrip s))).

(* str(n) for a non-negative integer *)
Fixpoint uint_digits (u : Decimal.uint) : str :=
  match u with
  | Decimal.Nil => []
  | Decimal.D0 r => 48 :: uint_digits r | Decimal.D1 r => 49 :: uint_digits r
  | Decimal.D2 r => 50 :: uint_digits r | Decimal.D3 r => 51 :: uint_digits r
  | Decimal.D4 r => 52 :: uint_digits r | Decimal.D5 r => 53 :: uint_digits r
  | Decimal.D6 r => 54 :: uint_digits r | Decimal.D7 r => 55 :: uint_digits r
  | Decimal.D8 r => 56 :: uint_digits r | Decimal.D9 r => 57 :: uint_digits r
  end.
Definition dec_of_nat (n : nat) : str := uint_digits (N.to_uint (N.of_nat n)).

(* ------------------------------------------------------------------------------------------ *)
(* escape_nexus_token(label, preserve_spaces, quote_underscores, protect_regex)                *)

Definition double_quotes (l : str) : str :=
  flat_map (fun c => if c =? QUOTE then [QUOTE; QUOTE] else [c]) l.

Definition escape_token (protect : list Z) (preserve_spaces quote_underscores : bool) (label : str) : str :=
  let has_prot := existsb (fun c => zmem c protect) label in
  let has_us := zmem UNDERSCORE label in
  let has_sp := zmem SPACE label in
  if negb preserve_spaces && negb has_us && negb has_prot then
    map (fun c => if (c =? SPACE) || (c =? TAB) then UNDERSCORE else c) label
  else if has_prot || has_sp || (quote_underscores && has_us) then
    QUOTE :: double_quotes label ++ [QUOTE]
  else label.

Section Newick.
Variable L : Type.
Variable render_len : L -> str.
Variable parse_len : str -> option L.
Variable lower : str -> str.

(* ------------------------------------------------------------------------------------------ *)
(* trees as the writer sees them: taxon = label of the node's Taxon (None: no taxon, or a taxon
   whose label is None), label = node.label, len = edge.length, children left to right          *)
Inductive ntree : Type :=
| Nd (taxon : option str) (label : option str) (len : option L) (kids : list ntree).

Definition n_taxon (t : ntree) := match t with Nd x _ _ _ => x end.
Definition n_label (t : ntree) := match t with Nd _ l _ _ => l end.
Definition n_len (t : ntree) := match t with Nd _ _ e _ => e end.
Definition n_kids (t : ntree) := match t with Nd _ _ _ k => k end.

(* NewickWriter options that are modelled *)
Record wopts : Type := mkWopts {
  wo_suppress_leaf_taxon_labels : bool;       (* default False *)
  wo_suppress_leaf_node_labels : bool;        (* default True  *)
  wo_suppress_internal_taxon_labels : bool;   (* default False *)
  wo_suppress_internal_node_labels : bool;    (* default False *)
  wo_suppress_rooting : bool;                 (* default False *)
  wo_suppress_edge_lengths : bool;            (* default False *)
  wo_unquoted_underscores : bool;             (* default False *)
  wo_preserve_spaces : bool;                  (* default False *)
  wo_taxon_token : str -> str                 (* _get_taxon_tree_token: taxon label -> tree token
                                                 (identity unless a TRANSLATE map is installed) *)
}.

Definition default_wopts : wopts :=
  mkWopts false true false false false false false false (fun l => l).

Definition join_parts (parts : list str) : str :=
  match parts with
  | [] => []
  | p :: r => p ++ flat_map (fun q => SPACE :: q) r     (* node_label_element_separator = ' ' *)
  end.

(* _render_node_tag *)
Definition render_node_tag (o : wopts) (t : ntree) : str :=
  match t with
  | Nd tx lb _ ks =>
    let leaf := is_nil ks in
    let p1 := match tx with
              | Some l => if (if leaf then wo_suppress_leaf_taxon_labels o else wo_suppress_internal_taxon_labels o)
                          then [] else [wo_taxon_token o l]
              | None => []
              end in
    let p2 := match lb with
              | Some l => if is_nil l then []      (* `node.label` falsy *)
                          else if (if leaf then wo_suppress_leaf_node_labels o else wo_suppress_internal_node_labels o)
                          then [] else [l]
              | None => []
              end in
    let tag := join_parts (p1 ++ p2) in
    if is_nil tag then []
    else escape_token newick_writer_protect (wo_preserve_spaces o) (negb (wo_unquoted_underscores o)) tag
  end.

(* _write_node_body (annotations / comments suppressed) *)
Definition write_node_body (o : wopts) (t : ntree) : str :=
  render_node_tag o t ++
  match n_len t with
  | Some x => if wo_suppress_edge_lengths o then [] else COLON :: render_len x
  | None => []
  end.

(* Node.apply(before_fn=_write_node_open, after_fn=_write_node_close, leaf_fn=_write_leaf):
   `first` = the node has no parent or is its parent's first child *)
Fixpoint write_node (o : wopts) (first : bool) (t : ntree) : str :=
  match t with
  | Nd _ _ _ [] => (if first then [] else [COMMA]) ++ write_node_body o t
  | Nd _ _ _ (k :: ks) =>
    (if first then [LPAREN] else [COMMA; LPAREN])
      ++ write_node o true k ++ flat_map (write_node o false) ks
      ++ RPAREN :: write_node_body o t
  end.

(* _write_tree: is_rooted None = rooting_state_is_undefined *)
Definition rooting_token (o : wopts) (is_rooted : option bool) : str :=
  if wo_suppress_rooting o then []
  else match is_rooted with
       | None => []
       | Some true => writer_rooting_rooted
       | Some false => writer_rooting_unrooted
       end.

Definition write_tree (o : wopts) (is_rooted : option bool) (t : ntree) : str :=
  rooting_token o is_rooted ++ write_node o true t ++ [SEMI].

(* _write_tree_list: every tree statement is followed by "\n" *)
Definition write_tree_list (o : wopts) (ts : list (option bool * ntree)) : str :=
  flat_map (fun rt => write_tree o (fst rt) (snd rt) ++ [NEWLINE]) ts.

(* ------------------------------------------------------------------------------------------ *)
(* NexusTaxonSymbolMapper over a TaxonNamespace                                                 *)
(* Taxon objects are identified with their position in the namespace. *)
Record mapper : Type := mkMapper {
  m_ns : list str;                 (* labels of the namespace members, in order *)
  m_tokens : list (str * nat);     (* token_taxon_map (TRANSLATE), keys folded unless case sensitive *)
  m_labels : list (str * nat);     (* label_taxon_map, most recent assignment first *)
  m_numbers : list (str * nat);    (* number_taxon_map *)
  m_by_number : bool;              (* enable_lookup_by_taxon_number *)
  m_case_sensitive : bool
}.

Definition m_key (m : mapper) (s : str) : str := if m_case_sensitive m then s else lower s.

Fixpoint assoc {A} (k : str) (l : list (str * A)) : option A :=
  match l with
  | [] => None
  | (k', v) :: r => if str_eqb k k' then Some v else assoc k r
  end.

(* indices 0.. paired with the labels *)
Fixpoint enum_from {A} (i : nat) (l : list A) : list (nat * A) :=
  match l with [] => [] | x :: r => (i, x) :: enum_from (S i) r end.

(* NexusTaxonSymbolMapper(taxon_namespace, enable_lookup_by_taxon_number, case_sensitive)
   + reset_supplemental_mappings: later members with an equal (folded) label shadow earlier ones *)
Definition new_mapper (ns : list str) (by_number case_sensitive : bool) : mapper :=
  let key := fun s => if case_sensitive then s else lower s in
  mkMapper ns []
           (rev (map (fun p => (key (snd p), fst p)) (enum_from O ns)))
           (map (fun p => (dec_of_nat (S (fst p)), fst p)) (enum_from O ns))
           by_number case_sensitive.

Definition add_translate_token (m : mapper) (token : str) (taxon : nat) : mapper :=
  mkMapper (m_ns m) ((m_key m token, taxon) :: m_tokens m) (m_labels m) (m_numbers m)
           (m_by_number m) (m_case_sensitive m).

(* new_taxon(label) *)
Definition mapper_new_taxon (m : mapper) (label : str) : nat * mapper :=
  let i := length (m_ns m) in
  (i, mkMapper (m_ns m ++ [label]) (m_tokens m) ((m_key m label, i) :: m_labels m)
               ((dec_of_nat (S i), i) :: m_numbers m) (m_by_number m) (m_case_sensitive m)).

(* lookup_taxon_symbol(symbol, create_taxon_if_not_found=True): token, then label, then number *)
Definition require_taxon_for_symbol (m : mapper) (symbol : str) : nat * mapper :=
  match assoc (m_key m symbol) (m_tokens m) with
  | Some i => (i, m)
  | None =>
    match assoc (m_key m symbol) (m_labels m) with
    | Some i => (i, m)
    | None =>
      match (if m_by_number m then assoc symbol (m_numbers m) else None) with
      | Some i => (i, m)
      | None => mapper_new_taxon m symbol
      end
    end
  end.

(* ------------------------------------------------------------------------------------------ *)
(* NewickReader                                                                                 *)

Inductive rooting_directive : Type :=
| ForceUnrooted | ForceRooted | DefaultUnrooted | DefaultRooted | NoDirective (* rooting=None *).

Record ropts : Type := mkRopts {
  ro_rooting : rooting_directive;             (* default None *)
  ro_suppress_edge_lengths : bool;            (* default False *)
  ro_preserve_underscores : bool;             (* default False *)
  ro_suppress_internal_node_taxa : bool;      (* default True *)
  ro_suppress_leaf_node_taxa : bool;          (* default False *)
  ro_terminating_semicolon_required : bool;   (* default True *)
  ro_case_sensitive_taxon_labels : bool;      (* default False *)
  ro_blank_after_comma : bool                 (* MODEL VARIANT, not an option of the library:
                                                 false = the code as it is (a `,)` yields the trailing
                                                 blank node only while no node has been created, finding
                                                 trailing-blank-leaf); true = the repaired form (always).
                                                 The harness decides by replaying "(a,);" on the code. *)
}.

Definition default_ropts : ropts := mkRopts NoDirective false false true false true false false.

(* trees as the reader builds them: taxon = index of the Taxon in the namespace *)
Inductive ptree : Type :=
| PN (taxon : option nat) (label : option str) (len : option L) (comments : list str) (kids : list ptree).

Definition mem_str (s : str) (l : list str) : bool := existsb (str_eqb s) l.

(* _parse_tree_rooting_state(rooting_comment) *)
Definition parse_tree_rooting_state (o : ropts) (rooting_comment : str) : option bool :=
  match ro_rooting o with
  | ForceUnrooted => Some false
  | ForceRooted => Some true
  | d =>
    if mem_str rooting_comment reader_rooted_comments then Some true
    else if mem_str rooting_comment reader_unrooted_comments then Some false
    else match d with
         | DefaultRooted => Some true
         | DefaultUnrooted => Some false
         | _ => None
         end
  end.

(* _process_tree_comments with store_tree_weights = False: (is_rooted, comments kept on the tree) *)
Fixpoint process_tree_comments_loop (o : ropts) (cs : list str) (acc : option (option bool)) (kept : list str)
  : option (option bool) * list str :=
  match cs with
  | [] => (acc, kept)
  | c :: r =>
    let s := py_strip c in
    if mem_str s reader_rooting_comments
    then process_tree_comments_loop o r (Some (parse_tree_rooting_state o s)) kept
    else process_tree_comments_loop o r acc (kept ++ [c])
  end.

Definition process_tree_comments (o : ropts) (cs : list str) : option bool * list str :=
  match process_tree_comments_loop o cs None [] with
  | (Some r, kept) => (r, kept)
  | (None, kept) => (parse_tree_rooting_state o [], kept)
  end.

(* tokenizer + reader state *)
Record pstate : Type := mkPS {
  ps_cur : option str;        (* nexus_tokenizer.current_token *)
  ps_eof : bool;              (* nexus_tokenizer.is_eof() *)
  ps_comments : list str;     (* nexus_tokenizer.captured_comments *)
  ps_toks : list token;       (* tokens not yet fetched *)
  ps_end : tend;              (* what happens after them *)
  ps_nesting : Z;             (* self._parenthesis_nesting_level *)
  ps_complete : bool;         (* self._tree_statement_complete *)
  ps_seen : list nat;         (* self._seen_taxa *)
  ps_map : mapper
}.

Definition init_pstate (toks : list token * tend) (m : mapper) : pstate :=
  mkPS None false [] (fst toks) (snd toks) 0 false [] m.

Definition set_tok (st : pstate) cur eof comments toks e : pstate :=
  mkPS cur eof comments toks e (ps_nesting st) (ps_complete st) (ps_seen st) (ps_map st).
Definition set_nesting (st : pstate) (n : Z) : pstate :=
  mkPS (ps_cur st) (ps_eof st) (ps_comments st) (ps_toks st) (ps_end st) n (ps_complete st) (ps_seen st) (ps_map st).
Definition set_complete (st : pstate) (b : bool) : pstate :=
  mkPS (ps_cur st) (ps_eof st) (ps_comments st) (ps_toks st) (ps_end st) (ps_nesting st) b (ps_seen st) (ps_map st).
Definition set_seen_map (st : pstate) (seen : list nat) (m : mapper) : pstate :=
  mkPS (ps_cur st) (ps_eof st) (ps_comments st) (ps_toks st) (ps_end st) (ps_nesting st) (ps_complete st) seen m.
Definition set_cur (st : pstate) (c : option str) : pstate :=
  mkPS c (ps_eof st) (ps_comments st) (ps_toks st) (ps_end st) (ps_nesting st) (ps_complete st) (ps_seen st) (ps_map st).

(* Tokenizer.__next__ seen from the reader *)
Inductive advance_result : Type :=
| AdvTok (st : pstate)
| AdvStop (st : pstate)     (* StopIteration *)
| AdvErr (e : res unit).    (* Err e, or OutOfFuel of the tokenizer model *)

Definition advance (st : pstate) : advance_result :=
  match ps_toks st with
  | t :: r => AdvTok (set_tok st (Some (t_text t)) (t_eof t) (ps_comments st ++ t_comments t) r (ps_end st))
  | [] =>
    match ps_end st with
    | EndEof cs => AdvStop (set_tok st (ps_cur st) true (ps_comments st ++ cs) [] (EndEof []))
    | EndErr e => AdvErr (Err e)
    | EndFuel => AdvErr OutOfFuel
    end
  end.

Definition lift_err {A} (e : res unit) : res A :=
  match e with Err x => Err x | _ => OutOfFuel end.

(* require_next_token: UnexpectedEndOfStreamError is a DataParseError *)
Definition require_next (st : pstate) : res pstate :=
  match advance st with
  | AdvTok st' => Ok st'
  | AdvStop _ => Err ParseErr
  | AdvErr e => lift_err e
  end.

(* next_token: StopIteration sets current_token = None *)
Definition next_token_or_none (st : pstate) : res pstate :=
  match advance st with
  | AdvTok st' => Ok st'
  | AdvStop st' => Ok (set_cur st' None)
  | AdvErr e => lift_err e
  end.

(* pull_captured_comments (None and [] are not distinguished) *)
Definition pull_comments (st : pstate) : list str * pstate :=
  (ps_comments st, set_tok st (ps_cur st) (ps_eof st) [] (ps_toks st) (ps_end st)).

Definition cur_is (st : pstate) (c : Z) : bool :=
  match ps_cur st with Some [x] => x =? c | _ => false end.

Definition cur_text (st : pstate) : str := match ps_cur st with Some s => s | None => [] end.

Definition blank_node (comments : list str) : ptree := PN None None None comments [].

(* the node under construction in the label loop *)
Record pnode : Type := mkPnode {
  pn_taxon : option nat; pn_label : option str; pn_len : option L; pn_comments : list str
}.

Definition finish (nd : pnode) (kids : list ptree) : ptree :=
  PN (pn_taxon nd) (pn_label nd) (pn_len nd) (pn_comments nd) kids.

(* `while nexus_tokenizer.current_token == ","` : another blank node each *)
Fixpoint comma_loop (fuel : nat) (st : pstate) (kids : list ptree) : res (list ptree * pstate) :=
  match fuel with
  | O => OutOfFuel
  | S f =>
    if cur_is st COMMA then
      let '(cs, st1) := pull_comments st in
      do st2 <- require_next st1 ;;
      comma_loop f st2 (kids ++ [blank_node cs])
    else Ok (kids, st)
  end.

(* second half of _parse_tree_node_description: `while True:` label / edge length / terminator.
   Result: (node fields, state, returned_by_break) *)
Fixpoint label_loop (o : ropts) (fuel : nat) (st : pstate) (is_internal : bool) (label_parsed : bool)
         (nd : pnode) : res (pnode * pstate) :=
  match fuel with
  | O => OutOfFuel
  | S f =>
    let '(cc, st) := pull_comments st in
    let nd := mkPnode (pn_taxon nd) (pn_label nd) (pn_len nd) (pn_comments nd ++ cc) in
    let finish_break (st : pstate) : res (pnode * pstate) :=
        if ps_nesting st =? 0 then Ok (nd, st) else Err ParseErr in
    if cur_is st COLON then
      do st1 <- require_next st ;;
      do nd1 <- (if ro_suppress_edge_lengths o then Ok nd
                 else match parse_len (cur_text st1) with
                      | Some x => Ok (mkPnode (pn_taxon nd) (pn_label nd) (Some x) (pn_comments nd))
                      | None => Err ParseErr
                      end) ;;
      match advance st1 with
      | AdvTok st2 => label_loop o f st2 is_internal label_parsed nd1
      | AdvStop st2 =>
        if ro_terminating_semicolon_required o then Err ParseErr
        else let st3 := set_complete st2 true in
             if ps_nesting st3 =? 0 then Ok (nd1, st3) else Err ParseErr
      | AdvErr e => lift_err e
      end
    else if cur_is st RPAREN then Ok (nd, st)
    else if cur_is st SEMI then
      do st1 <- next_token_or_none (set_complete st true) ;;
      finish_break st1
    else if cur_is st COMMA then Ok (nd, st)
    else if cur_is st LPAREN then Err ParseErr
    else
      if label_parsed then Err ParseErr
      else
        let label := cur_text st in
        do ndst <- (if (is_internal && ro_suppress_internal_node_taxa o)
                       || (negb is_internal && ro_suppress_leaf_node_taxa o)
                    then Ok (mkPnode (pn_taxon nd) (Some label) (pn_len nd) (pn_comments nd), st)
                    else let '(i, m) := require_taxon_for_symbol (ps_map st) label in
                         if existsb (Nat.eqb i) (ps_seen st) then Err ParseErr
                         else Ok (mkPnode (Some i) (pn_label nd) (pn_len nd) (pn_comments nd),
                                  set_seen_map st (i :: ps_seen st) m)) ;;
        let '(nd1, st1) := ndst in
        match advance st1 with
        | AdvTok st2 => label_loop o f st2 is_internal true nd1
        | AdvStop st2 =>
          if ro_terminating_semicolon_required o then Err ParseErr
          else if ps_nesting st2 =? 0 then Ok (nd1, st2) else Err ParseErr
        | AdvErr e => lift_err e
        end
  end.

(* _parse_tree_node_description(current_node, is_internal_node) and its `for count in it.count()`
   loop over the children.  `pre` = comments already attached to the node by the caller. *)
Fixpoint parse_node (o : ropts) (fuel : nat) (st : pstate) (is_internal : option bool) (pre : list str)
  : res (ptree * pstate) :=
  match fuel with
  | O => OutOfFuel
  | S f =>
    let '(cs0, st) := pull_comments st in
    do ks <- (if cur_is st LPAREN
              then do st1 <- require_next st ;; children_loop o f st1 false true []
              else Ok ([], st)) ;;
    let '(kids, st2) := ks in
    let st3 := set_complete st2 false in
    let isint := match is_internal with Some b => b | None => negb (is_nil kids) end in
    do r <- label_loop o f st3 isint false (mkPnode None None None (pre ++ cs0)) ;;
    let '(nd, st4) := r in
    Ok (finish nd kids, st4)
  end
with children_loop (o : ropts) (fuel : nat) (st : pstate) (node_created : bool) (count0 : bool)
                   (kids : list ptree) : res (list ptree * pstate) :=
  match fuel with
  | O => OutOfFuel
  | S f =>
    if cur_is st COMMA then
      let '(kids1, st1) :=
          if node_created then (kids, st)
          else let '(cs, st') := pull_comments st in (kids ++ [blank_node cs], st') in
      do st2 <- require_next st1 ;;
      do r <- comma_loop f st2 kids1 ;;
      let '(kids2, st3) := r in
      if (ro_blank_after_comma o || negb node_created) && cur_is st3 RPAREN then
        let '(cs, st4) := pull_comments st3 in
        children_loop o f st4 true false (kids2 ++ [blank_node cs])
      else children_loop o f st3 node_created false kids2
    else if cur_is st RPAREN then
      let kids1 := if count0 then kids ++ [blank_node []] else kids in
      do st1 <- require_next (set_nesting st (ps_nesting st - 1)) ;;
      Ok (kids1, st1)
    else
      let isnew := cur_is st LPAREN in
      let st0 := if isnew then set_nesting st (ps_nesting st + 1) else st in
      let '(cs, st1) := pull_comments st0 in
      do r <- parse_node o f st1 (Some isnew) cs ;;
      let '(child, st2) := r in
      children_loop o f st2 true false (kids ++ [child])
  end.

(* one parsed tree statement *)
Record ptree_result : Type := mkPR {
  pr_is_rooted : option bool;
  pr_comments : list str;       (* comments delivered to the tree *)
  pr_tree : ptree
}.

(* `while (current_token == ";" or current_token is None) and not is_eof()` *)
Fixpoint skip_semicolons (fuel : nat) (st : pstate) (tree_comments : list str) : res (list str * pstate) :=
  match fuel with
  | O => OutOfFuel
  | S f =>
    if (cur_is st SEMI || match ps_cur st with None => true | _ => false end) && negb (ps_eof st) then
      do st1 <- require_next st ;;
      let '(cs, st2) := pull_comments st1 in
      skip_semicolons f st2 cs
    else Ok (tree_comments, st)
  end.

(* trailing `while current_token == ";" and not is_eof(): clear_captured_comments(); next_token()` *)
Fixpoint skip_trailing (fuel : nat) (st : pstate) : res pstate :=
  match fuel with
  | O => OutOfFuel
  | S f =>
    if cur_is st SEMI && negb (ps_eof st) then
      let '(_, st1) := pull_comments st in
      do st2 <- next_token_or_none st1 ;;
      skip_trailing f st2
    else Ok st
  end.

(* _parse_tree_statement: None = no further tree *)
Definition parse_tree_statement (o : ropts) (fuel : nat) (st : pstate) : res (option ptree_result * pstate) :=
  let '(tc, st) := pull_comments st in
  do r <- skip_semicolons fuel st tc ;;
  let '(tree_comments, st1) := r in
  if ps_eof st1 then Ok (None, st1)
  else
    let st2 := set_nesting st1 (if cur_is st1 LPAREN then 1 else 0) in
    let '(rooted, kept) := process_tree_comments o tree_comments in
    let st3 := set_seen_map (set_complete st2 false) [] (ps_map st2) in
    do r <- parse_node o fuel st3 None [] ;;
    let '(t, st4) := r in
    if negb (ps_complete st4) then Err ParseErr
    else
      do st5 <- skip_trailing fuel st4 ;;
      Ok (Some (mkPR rooted kept t), st5).

(* tree_iter *)
Fixpoint tree_iter (o : ropts) (fuel : nat) (n : nat) (st : pstate) (acc : list ptree_result)
  : res (list ptree_result * pstate) :=
  match n with
  | O => OutOfFuel
  | S n' =>
    do r <- parse_tree_statement o fuel st ;;
    match r with
    | (None, st1) => Ok (acc, st1)
    | (Some t, st1) => tree_iter o fuel n' st1 (acc ++ [t])
    end
  end.

Definition reader_fuel (toks : list token) : nat := 2 * length toks + 8.

(* NewickReader._read into a namespace with the given member labels (a new namespace: []).
   Result: the trees and the labels of the namespace afterwards. *)
Definition read_newick (o : ropts) (ns : list str) (text : str) : res (list ptree_result * list str) :=
  let toks := tokenize (nexus_cfg (ro_preserve_underscores o)) text in
  let m := new_mapper ns false (ro_case_sensitive_taxon_labels o) in
  let fuel := reader_fuel (fst toks) in
  do r <- tree_iter o fuel fuel (init_pstate toks m) [] ;;
  Ok (fst r, m_ns (ps_map (snd r))).

End Newick.

Arguments Nd {L} _ _ _ _.
Arguments PN {L} _ _ _ _ _.
Arguments mkPR {L} _ _ _.
Arguments pr_is_rooted {L} _.
Arguments pr_comments {L} _.
Arguments pr_tree {L} _.
