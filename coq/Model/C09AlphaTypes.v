(* C09: types of the state-alphabet tables dumped from dendropy.datamodel.charstatemodel
   (the dump itself is Model/C09Alphabets.v, rewritten by py/dv/c09.py on every run) and the
   two look-ups the readers and writers use.

   A state table lists the StateIdentity objects of one StateAlphabet in `state_iter()` order
   (fundamental, then ambiguous, then polymorphic); `s_index` is `StateIdentity._index`,
   `s_symbol` the canonical symbol as a list of code points ([] when the state has no symbol),
   `s_members` the `_index` of every fundamental state it maps to (`fundamental_states`),
   `s_synonyms` the `symbol_synonyms` (case variants of a case-insensitive alphabet and explicit
   synonyms such as DNA "X" for "N").  `a_fullmap` is `full_symbol_state_map` in its insertion
   order without the `None` key: the dictionary every reader (FASTA, PHYLIP, NEXUS) indexes with a
   one-character string.  The case rule of the library is: lookup is exact, and a
   case-insensitive alphabet has the other-case variant of every symbol as a synonym. *)
From Coq Require Import ZArith List Bool.
From DV Require Import Model.PyPrims.
Import ListNotations.
Open Scope Z_scope.

Inductive skind := Fundamental | Ambiguous | Polymorphic.

Definition skind_eqb (a b : skind) : bool :=
  match a, b with
  | Fundamental, Fundamental | Ambiguous, Ambiguous | Polymorphic, Polymorphic => true
  | _, _ => false
  end.

Definition text := list Z.       (* a Python str as code points *)

Definition text_eqb (a b : text) : bool := list_eqb Z.eqb a b.

Record state := mkState {
  s_index : Z;
  s_symbol : text;
  s_kind : skind;
  s_members : list Z;
  s_synonyms : list text
}.

Record alphabet := mkAlphabet {
  a_states : list state;
  a_fullmap : list (text * Z);
  a_case_sensitive : bool;
  a_gap : option Z;            (* index of gap_state *)
  a_missing : option Z         (* index of no_data_state *)
}.

(* full_symbol_state_map[key] : first binding (a dict has one binding per key; the generated
   obligation `keys_distinct` says the dump has no duplicate key) *)
Fixpoint tlookup (k : text) (l : list (text * Z)) : option Z :=
  match l with
  | [] => None
  | (k', v) :: r => if text_eqb k k' then Some v else tlookup k r
  end.

Definition state_of_symbol (a : alphabet) (c : Z) : option Z := tlookup [c] (a_fullmap a).

Fixpoint find_state (i : Z) (l : list state) : option state :=
  match l with
  | [] => None
  | s :: r => if Z.eqb i (s_index s) then Some s else find_state i r
  end.

(* str(state) for a state that has a symbol *)
Definition symbol_of_state (a : alphabet) (i : Z) : option text :=
  match find_state i (a_states a) with
  | Some s => match s_symbol s with [] => None | t => Some t end
  | None => None
  end.

(* ASCII case folding (the symbols of every shipped alphabet are ASCII) *)
Definition ascii_lower (c : Z) : Z := if (65 <=? c) && (c <=? 90) then c + 32 else c.
Definition ascii_upper (c : Z) : Z := if (97 <=? c) && (c <=? 122) then c - 32 else c.

Definition fold_symbol (a : alphabet) (t : text) : text :=
  if a_case_sensitive a then t else map ascii_lower t.

(* ---- the finite obligations checked on every generated table ---- *)

(* every state with a symbol is found again under its symbol, and under each synonym *)
Definition state_roundtrip_ok (a : alphabet) (s : state) : bool :=
  match s_symbol s with
  | [] => true
  | t => option_eqb Z.eqb (tlookup t (a_fullmap a)) (Some (s_index s))
         && forallb (fun y => option_eqb Z.eqb (tlookup y (a_fullmap a)) (Some (s_index s))) (s_synonyms s)
  end.

Fixpoint text_mem (t : text) (l : list text) : bool :=
  match l with [] => false | x :: r => text_eqb t x || text_mem t r end.

Fixpoint texts_distinct (l : list text) : bool :=
  match l with [] => true | x :: r => negb (text_mem x r) && texts_distinct r end.

(* whitespace as Python's str.isspace / str.strip / regex \s see it *)
Definition is_space (c : Z) : bool :=
  ((9 <=? c) && (c <=? 13)) || ((28 <=? c) && (c <=? 32)) || (c =? 133) || (c =? 160)
  || (c =? 5760) || ((8192 <=? c) && (c <=? 8202)) || (c =? 8232) || (c =? 8233)
  || (c =? 8239) || (c =? 8287) || (c =? 12288).

(* characters that may not be a state symbol if the text formats are to re-read it:
   whitespace (skipped by every reader), '>' (FASTA header), and the NEXUS tokens the MATRIX
   reader or the NEXUS tokenizer interprets: braces, parentheses, semicolon, comma, colon,
   equals sign, backslash, double and single quote, square brackets, the default MATCHCHAR
   (full stop) and the underscore (turned into a space in unquoted tokens) *)
Definition plain_symbol_char (c : Z) : bool :=
  negb (is_space c)
  && negb (existsb (Z.eqb c) [62; 123; 125; 40; 41; 59; 44; 58; 61; 92; 34; 39; 91; 93; 46; 95]).

Definition symbols_plain (a : alphabet) : bool :=
  forallb (fun s => match s_symbol s with [c] => plain_symbol_char c | _ => false end) (a_states a).

Definition indices_consecutive (a : alphabet) : bool :=
  list_eqb Z.eqb (map s_index (a_states a)) (map Z.of_nat (seq 0 (length (a_states a)))).

Definition alphabet_ok (a : alphabet) : bool :=
  forallb (state_roundtrip_ok a) (a_states a)
  && texts_distinct (map fst (a_fullmap a))
  && texts_distinct (map (fun s => fold_symbol a (s_symbol s)) (a_states a))
  && symbols_plain a
  && indices_consecutive a.
