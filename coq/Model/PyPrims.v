(* Python primitives the translator maps to (trusted mapping, see DESIGN section 7). *)
From Coq Require Import ZArith List Bool.
Import ListNotations.
Open Scope Z_scope.

(* bin(n).count("1"): number of 1 digits in the binary numeral of |n| *)
Fixpoint pos_popcount (p : positive) : Z :=
  match p with
  | xH => 1
  | xO q => pos_popcount q
  | xI q => 1 + pos_popcount q
  end.

Definition py_popcount (n : Z) : Z :=
  match n with
  | Z0 => 0
  | Zpos p => pos_popcount p
  | Zneg p => pos_popcount p
  end.

(* error enum shared by all models: the class of a Python exception *)
Inductive err : Type :=
| ParseErr | ValueErr | TypeErr | AttrErr | IndexErr | KeyErr | AssertErr
| LookupErr | RecursionErr | Hang | OtherErr.

Definition err_eqb (a b : err) : bool :=
  match a, b with
  | ParseErr, ParseErr | ValueErr, ValueErr | TypeErr, TypeErr | AttrErr, AttrErr
  | IndexErr, IndexErr | KeyErr, KeyErr | AssertErr, AssertErr | LookupErr, LookupErr
  | RecursionErr, RecursionErr | Hang, Hang | OtherErr, OtherErr => true
  | _, _ => false
  end.

Inductive res (A : Type) : Type :=
| Ok : A -> res A
| Err : err -> res A
| OutOfFuel : res A.
Arguments Ok {A} _.
Arguments Err {A} _.
Arguments OutOfFuel {A}.

Definition bind {A B} (r : res A) (f : A -> res B) : res B :=
  match r with Ok a => f a | Err e => Err e | OutOfFuel => OutOfFuel end.

Notation "'do' x <- r ;; k" := (bind r (fun x => k)) (at level 200, x pattern, r at level 100, k at level 200).

Fixpoint list_eqb {A} (eqb : A -> A -> bool) (l1 l2 : list A) : bool :=
  match l1, l2 with
  | [], [] => true
  | x :: r1, y :: r2 => eqb x y && list_eqb eqb r1 r2
  | _, _ => false
  end.

Definition option_eqb {A} (eqb : A -> A -> bool) (a b : option A) : bool :=
  match a, b with
  | None, None => true
  | Some x, Some y => eqb x y
  | _, _ => false
  end.

Definition res_eqb {A} (eqb : A -> A -> bool) (a b : res A) : bool :=
  match a, b with
  | Ok x, Ok y => eqb x y
  | Err e, Err f => err_eqb e f
  | OutOfFuel, OutOfFuel => true
  | _, _ => false
  end.

Lemma list_eqb_eq {A} (eqb : A -> A -> bool) :
  (forall x y, eqb x y = true <-> x = y) ->
  forall l1 l2, list_eqb eqb l1 l2 = true <-> l1 = l2.
Proof.
  intros H l1; induction l1 as [|x r IH]; intros [|y r2]; simpl; split; intro E;
    try reflexivity; try discriminate.
  - apply andb_true_iff in E. destruct E as [E1 E2]. apply H in E1. apply IH in E2. subst. reflexivity.
  - inversion E; subst. apply andb_true_iff. split; [apply H; reflexivity | apply IH; reflexivity].
Qed.
