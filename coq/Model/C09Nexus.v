(* C09: NEXUS CHARACTERS / DATA block, writer and reader, at the level of TOKENS.

   The token layer (NexusTokenizer: quoting, comments, underscore conversion, what counts as a
   delimiter) is property C02's; here a token is the string the tokenizer delivers
   (`tok = text`), an end of line is the token "\n" (or "\r"), which `next_token` skips unless
   `set_capture_eol(True)` is in force (the reader switches that on only while it reads the
   states of an INTERLEAVEd row).  The only character-level piece is `seq_tokens`: how the
   sequence text of one MATRIX row falls apart at the tokenizer's captured delimiters; the
   harness compares it (and every written token list) with what the real tokenizer returns.

   Transcribed: NexusWriter._write_char_block / _compose_format_terms;
   NexusReader._parse_characters_data_block, _parse_title_statement, _parse_link_statement,
   _parse_dimensions_statement, _parse_format_statement, _parse_matrix_statement,
   _process_discrete_matrix_data, _build_state_alphabet, _get_taxon, _read_character_states,
   _get_state_for_multistate_tokens, StateAlphabet.match_state / new_multistate.

   Not modelled: EQUATE (never written for the shipped alphabets), CONTINUOUS matrices (token
   level would be one token per value; exercised by the harness against the oracle only),
   truncated input (end of the token list inside a statement is reported as an error where the
   code calls require_next_token and ends the loop where it tests is_eof; property C20's), and
   non-ASCII case mapping of keywords / symbols (ASCII upper/lower used). *)
From Coq Require Import ZArith List Bool.
From DV Require Import Model.PyPrims Model.C09AlphaTypes Model.C09Alphabets Model.C09Model.
Import ListNotations.
Open Scope Z_scope.

Definition tok := text.

Definition EOL : tok := [10].
Definition is_eol (t : tok) : bool := text_eqb t [10] || text_eqb t [13].

Definition ucase (t : tok) : tok := map ascii_upper t.
Definition lcase (t : tok) : tok := map ascii_lower t.

(* "ABC" as code points *)
Definition kw_BEGIN : tok := [66;69;71;73;78].
Definition kw_END : tok := [69;78;68].
Definition kw_ENDBLOCK : tok := [69;78;68;66;76;79;67;75].
Definition kw_DATA : tok := [68;65;84;65].
Definition kw_CHARACTERS : tok := [67;72;65;82;65;67;84;69;82;83].
Definition kw_TITLE : tok := [84;73;84;76;69].
Definition kw_LINK : tok := [76;73;78;75].
Definition kw_TAXA : tok := [84;65;88;65].
Definition kw_DIMENSIONS : tok := [68;73;77;69;78;83;73;79;78;83].
Definition kw_NTAX : tok := [78;84;65;88].
Definition kw_NCHAR : tok := [78;67;72;65;82].
Definition kw_FORMAT : tok := [70;79;82;77;65;84].
Definition kw_DATATYPE : tok := [68;65;84;65;84;89;80;69].
Definition kw_SYMBOLS : tok := [83;89;77;66;79;76;83].
Definition kw_GAP : tok := [71;65;80].
Definition kw_MISSING : tok := [77;73;83;83;73;78;71].
Definition kw_MATCHCHAR : tok := [77;65;84;67;72;67;72;65;82].
Definition kw_INTERLEAVE : tok := [73;78;84;69;82;76;69;65;86;69].
Definition kw_MATRIX : tok := [77;65;84;82;73;88].
Definition kw_DNA : tok := [68;78;65].
Definition kw_RNA : tok := [82;78;65].
Definition kw_NUCLEOTIDE : tok := [78;85;67;76;69;79;84;73;68;69].
Definition kw_NUCLEOTIDES : tok := [78;85;67;76;69;79;84;73;68;69;83].
Definition kw_PROTEIN : tok := [80;82;79;84;69;73;78].
Definition kw_CONTINUOUS : tok := [67;79;78;84;73;78;85;79;85;83].
Definition kw_STANDARD : tok := [83;84;65;78;68;65;82;68].
Definition kw_ITEMS : tok := [73;84;69;77;83].
Definition kw_STATES : tok := [83;84;65;84;69;83].
Definition t_semi : tok := [59].
Definition t_eq : tok := [61].
Definition t_dq : tok := [34].
Definition t_lbrace : tok := [123].
Definition t_rbrace : tok := [125].
Definition t_lpar : tok := [40].
Definition t_rpar : tok := [41].
Definition t_dash : tok := [45].
Definition t_qm : tok := [63].
Definition t_dot : tok := [46].
Definition digits09 : text := [48;49;50;51;52;53;54;55;56;57].

Inductive dtype := DtDna | DtRna | DtNucleotide | DtProtein | DtStandard | DtContinuous
                 | DtRestriction | DtInfinite.

Definition dtype_eqb (a b : dtype) : bool :=
  match a, b with
  | DtDna, DtDna | DtRna, DtRna | DtNucleotide, DtNucleotide | DtProtein, DtProtein
  | DtStandard, DtStandard | DtContinuous, DtContinuous | DtRestriction, DtRestriction
  | DtInfinite, DtInfinite => true
  | _, _ => false
  end.

(* the tokenizer's captured delimiters (braces, parentheses, comma, semicolon, colon, equals
   sign, backslash, double quote) each become a token of their own *)
Definition captured (c : Z) : bool := existsb (Z.eqb c) [123; 125; 40; 41; 44; 59; 58; 61; 92; 34].

Fixpoint seq_tokens_aux (cur : text) (s : text) : list tok :=
  match s with
  | [] => match cur with [] => [] | _ => [rev cur] end
  | c :: r => if captured c
              then match cur with [] => [c] :: seq_tokens_aux [] r
                                | _ => rev cur :: [c] :: seq_tokens_aux [] r end
              else seq_tokens_aux (c :: cur) r
  end.
Definition seq_tokens (s : text) : list tok := seq_tokens_aux [] s.

(* ------------------------------------------------------------------------- *)
(* Writer                                                                    *)
(* ------------------------------------------------------------------------- *)

Record nx_wopts := mkNW { nw_simple : bool; nw_title : option tok; nw_link : option tok }.

Fixpoint dedup (l : list text) : list text :=
  match l with
  | [] => []
  | x :: r => if text_mem x r then dedup r else x :: dedup r
  end.

Definition same_set (x y : list text) : bool :=
  forallb (fun a => text_mem a y) x && forallb (fun a => text_mem a x) y.

(* the terms "MISSING=?" / "GAP=-" appended while iterating ambiguous_state_iter() *)
Fixpoint amb_terms (l : list state) : res (list tok) :=
  match l with
  | [] => Ok []
  | s :: r =>
    match s_kind s with
    | Ambiguous =>
      if text_eqb (s_symbol s) t_qm then do x <- amb_terms r ;; Ok (kw_MISSING :: t_eq :: t_qm :: x)
      else if text_eqb (s_symbol s) t_dash then do x <- amb_terms r ;; Ok (kw_GAP :: t_eq :: t_dash :: x)
      else match s_symbol s with
           | [] => amb_terms r
           | _ => Err OtherErr          (* EQUATE: not modelled *)
           end
    | Polymorphic => match s_symbol s with [] => amb_terms r | _ => Err OtherErr end
    | Fundamental => amb_terms r
    end
  end.

Fixpoint amb_terms_all (al : list alphabet) : res (list tok) :=
  match al with
  | [] => Ok []
  | a :: r => do x <- amb_terms (a_states a) ;; do y <- amb_terms_all r ;; Ok (x ++ y)
  end.

Definition fundamental_symbols (al : list alphabet) : list text :=
  concat (map (fun a => map s_symbol (filter (fun s => skind_eqb (s_kind s) Fundamental) (a_states a))) al).

(* NexusWriter._compose_format_terms.  `sym_order` is the iteration order of the Python set
   `fundamental_symbols` (hash dependent: an input, observed from the implementation); it must
   be a duplicate-free enumeration of the fundamental symbols of the matrix's state alphabets. *)
Definition format_tokens (dt : dtype) (al : list alphabet) (sym_order : list text) : res (list tok) :=
  let gmm := [kw_GAP; t_eq; t_dash; kw_MISSING; t_eq; t_qm; kw_MATCHCHAR; t_eq; t_dot] in
  match dt with
  | DtDna => Ok (kw_DATATYPE :: t_eq :: kw_DNA :: gmm)
  | DtRna => Ok (kw_DATATYPE :: t_eq :: kw_RNA :: gmm)
  | DtNucleotide => Ok (kw_DATATYPE :: t_eq :: kw_NUCLEOTIDE :: gmm)
  | DtProtein => Ok (kw_DATATYPE :: t_eq :: kw_PROTEIN :: gmm)
  | DtContinuous => Ok [kw_DATATYPE; t_eq; kw_CONTINUOUS; kw_ITEMS; t_eq; t_lpar; kw_STATES; t_rpar]
  | _ =>
    if same_set sym_order (fundamental_symbols al) && texts_distinct sym_order then
      do amb <- amb_terms_all al ;;
      Ok (kw_DATATYPE :: t_eq :: kw_STANDARD :: kw_SYMBOLS :: t_eq :: t_dq ::
          seq_tokens (concat sym_order) ++ t_dq :: amb)
    else Err OtherErr
  end.

Definition row_tokens (a : alphabet) (r : text * list Z) : list tok :=
  fst r :: seq_tokens (symbols_as_string a (snd r)) ++ [EOL].

(* NexusWriter._write_char_block as the token list of the text it writes (ends of line included) *)
Definition write_chars_block (dt : dtype) (al : list alphabet) (sym_order : list text)
           (o : nx_wopts) (m : matrix) : res (list tok) :=
  match al with
  | [] => Err TypeErr
  | a :: _ =>
    match zmax_list (map (fun r => len (snd r)) m) with
    | None => Err ValueErr                          (* max([]) *)
    | Some nchar =>
      do fmt <- format_tokens dt al sym_order ;;
      Ok ([kw_BEGIN; if nw_simple o then kw_DATA else kw_CHARACTERS; t_semi; EOL]
          ++ match nw_title o with Some t => [kw_TITLE; t; t_semi; EOL] | None => [] end
          ++ match nw_link o with Some t => [kw_LINK; kw_TAXA; t_eq; t; t_semi; EOL] | None => [] end
          ++ kw_DIMENSIONS :: (if nw_simple o then [kw_NTAX; t_eq; render_nat (len m)] else [])
          ++ [kw_NCHAR; t_eq; render_nat nchar; t_semi; EOL]
          ++ kw_FORMAT :: fmt ++ [t_semi; EOL]
          ++ [kw_MATRIX; EOL]
          ++ concat (map (row_tokens a) m)
          ++ [t_semi; EOL; kw_END; t_semi; EOL; EOL; EOL])
    end
  end.

(* ------------------------------------------------------------------------- *)
(* Reader                                                                    *)
(* ------------------------------------------------------------------------- *)

Record nx_state := mkNX {
  x_ns : list text;            (* labels of the taxon namespace the block resolves to, in order *)
  x_ntax : option Z;           (* _file_specified_ntax (set by the TAXA block, or by DIMENSIONS) *)
  x_nchar : option Z;          (* _file_specified_nchar *)
  x_dtype : dtype;             (* _data_type *)
  x_symbols : text;            (* _symbols *)
  x_gap : tok;                 (* _gap_char *)
  x_missing : tok;             (* _missing_char *)
  x_match : list tok;          (* _match_char *)
  x_interleave : bool;         (* _interleave *)
  x_cap : bool;                (* tokenizer: capture_eol currently on *)
  x_cs : bool;                 (* case_sensitive_taxon_labels *)
  x_title : option tok;
  x_link : option tok
}.

Definition nx_init (ns : list text) (ntax : option Z) (cs : bool) : nx_state :=
  mkNX ns ntax None DtStandard [] t_dash t_qm [t_dot] false false cs None None.

Definition set_ns st v := mkNX v (x_ntax st) (x_nchar st) (x_dtype st) (x_symbols st) (x_gap st) (x_missing st) (x_match st) (x_interleave st) (x_cap st) (x_cs st) (x_title st) (x_link st).
Definition set_ntax st v := mkNX (x_ns st) v (x_nchar st) (x_dtype st) (x_symbols st) (x_gap st) (x_missing st) (x_match st) (x_interleave st) (x_cap st) (x_cs st) (x_title st) (x_link st).
Definition set_nchar st v := mkNX (x_ns st) (x_ntax st) v (x_dtype st) (x_symbols st) (x_gap st) (x_missing st) (x_match st) (x_interleave st) (x_cap st) (x_cs st) (x_title st) (x_link st).
Definition set_dtype st v := mkNX (x_ns st) (x_ntax st) (x_nchar st) v (x_symbols st) (x_gap st) (x_missing st) (x_match st) (x_interleave st) (x_cap st) (x_cs st) (x_title st) (x_link st).
Definition set_symbols st v := mkNX (x_ns st) (x_ntax st) (x_nchar st) (x_dtype st) v (x_gap st) (x_missing st) (x_match st) (x_interleave st) (x_cap st) (x_cs st) (x_title st) (x_link st).
Definition set_gap st v := mkNX (x_ns st) (x_ntax st) (x_nchar st) (x_dtype st) (x_symbols st) v (x_missing st) (x_match st) (x_interleave st) (x_cap st) (x_cs st) (x_title st) (x_link st).
Definition set_missing st v := mkNX (x_ns st) (x_ntax st) (x_nchar st) (x_dtype st) (x_symbols st) (x_gap st) v (x_match st) (x_interleave st) (x_cap st) (x_cs st) (x_title st) (x_link st).
Definition set_match st v := mkNX (x_ns st) (x_ntax st) (x_nchar st) (x_dtype st) (x_symbols st) (x_gap st) (x_missing st) v (x_interleave st) (x_cap st) (x_cs st) (x_title st) (x_link st).
Definition set_interleave st v := mkNX (x_ns st) (x_ntax st) (x_nchar st) (x_dtype st) (x_symbols st) (x_gap st) (x_missing st) (x_match st) v (x_cap st) (x_cs st) (x_title st) (x_link st).
Definition set_cap st v := mkNX (x_ns st) (x_ntax st) (x_nchar st) (x_dtype st) (x_symbols st) (x_gap st) (x_missing st) (x_match st) (x_interleave st) v (x_cs st) (x_title st) (x_link st).
Definition set_title st v := mkNX (x_ns st) (x_ntax st) (x_nchar st) (x_dtype st) (x_symbols st) (x_gap st) (x_missing st) (x_match st) (x_interleave st) (x_cap st) (x_cs st) v (x_link st).
Definition set_link st v := mkNX (x_ns st) (x_ntax st) (x_nchar st) (x_dtype st) (x_symbols st) (x_gap st) (x_missing st) (x_match st) (x_interleave st) (x_cap st) (x_cs st) (x_title st) v.

(* next_token(): None at the end of the input *)
Fixpoint next_tok (cap : bool) (toks : list tok) : option (tok * list tok) :=
  match toks with
  | [] => None
  | t :: r => if negb cap && is_eol t then next_tok cap r else Some (t, r)
  end.

(* require_next_token(): an error at the end of the input *)
Definition req_tok (cap : bool) (toks : list tok) : res (tok * list tok) :=
  match next_tok cap toks with Some x => Ok x | None => Err ParseErr end.

(* skip_to_semicolon() *)
Fixpoint skip_semi (cap : bool) (toks : list tok) : list tok :=
  match toks with
  | [] => []
  | t :: r => if text_eqb t t_semi then r else skip_semi cap r
  end.

(* `a in b` for strings *)
Fixpoint is_prefix (a b : text) : bool :=
  match a, b with
  | [], _ => true
  | x :: a', y :: b' => (x =? y) && is_prefix a' b'
  | _, [] => false
  end.
Fixpoint is_infix (a b : text) : bool :=
  is_prefix a b || match b with [] => false | _ :: b' => is_infix a b' end.

(* _parse_title_statement (current token is TITLE) *)
Definition parse_title (cap : bool) (toks : list tok) : res (tok * list tok) :=
  do x <- req_tok cap toks ;;
  let (title, r) := x in
  do y <- req_tok cap r ;;
  let (sc, r') := y in
  if text_eqb sc t_semi then Ok (title, r') else Err ParseErr.

(* _parse_link_statement: returns links['taxa'].  `token` is the current token (upper-cased by the
   fetch that delivered it; None at the end of the input). *)
Fixpoint parse_link (fuel : nat) (cap : bool) (taxa : option tok) (token : option tok) (toks : list tok)
  : res (option tok * list tok) :=
  match fuel with
  | O => OutOfFuel
  | S f =>
    match token with
    | None => Err ParseErr                     (* the else branch: require_next_token_ucase at the end *)
    | Some t =>
      let fetch r := match next_tok cap r with
                     | Some (t', r') => (Some (ucase t'), r')
                     | None => (None, [])
                     end in
      if text_eqb t t_semi then Ok (taxa, toks)
      else if text_eqb t kw_TAXA || text_eqb t kw_CHARACTERS then
        match next_tok cap toks with
        | None => Err ParseErr
        | Some (e, r) =>
          if negb (text_eqb e t_eq) then Err ParseErr
          else match next_tok cap r with
               | None => Err ParseErr          (* value None, then the loop's else branch raises *)
               | Some (v, r') =>
                 let (t', r'') := fetch r' in
                 parse_link f cap (if text_eqb t kw_TAXA then Some v else taxa) t' r''
               end
        end
      else
        match next_tok cap toks with
        | None => Err ParseErr
        | Some (t', r) => parse_link f cap taxa (Some (ucase t')) r
        end
    end
  end.

Definition all_digits (t : tok) : bool :=
  match t with [] => false | _ => forallb is_digit t end.

(* _parse_dimensions_statement: `token` is the current (upper-cased) token *)
Fixpoint parse_dimensions (fuel : nat) (st : nx_state) (toks : list tok) : res (nx_state * list tok) :=
  match fuel with
  | O => OutOfFuel
  | S f =>
    do x <- req_tok (x_cap st) toks ;;
    let (t0, r) := x in
    let t := ucase t0 in
    if text_eqb t t_semi then Ok (st, r)
    else if text_eqb t kw_NTAX || text_eqb t kw_NCHAR then
      do y <- req_tok (x_cap st) r ;;
      let (e, r1) := y in
      if negb (text_eqb e t_eq) then Err ParseErr
      else
        do z <- req_tok (x_cap st) r1 ;;
        let (v, r2) := z in
        if all_digits v then
          match parse_nat v with
          | Some n => parse_dimensions f (if text_eqb t kw_NTAX then set_ntax st (Some n)
                                          else set_nchar st (Some n)) r2
          | None => Err ParseErr
          end
        else Err ParseErr
    else if text_eqb t kw_BEGIN then Err ParseErr
    else parse_dimensions f st r
  end.

(* the SYMBOLS="..." loop: `if token not in self._symbols: self._symbols += token` *)
Fixpoint parse_symbols (cap : bool) (acc : text) (toks : list tok) : res (text * list tok) :=
  match toks with
  | [] => Err ParseErr
  | t0 :: r =>
    if negb cap && is_eol t0 then parse_symbols cap acc r
    else let t := ucase t0 in
         if text_eqb t t_dq then Ok (acc, r)
         else parse_symbols cap (if is_infix t acc then acc else acc ++ t) r
  end.

(* _parse_format_statement: `token` is the current upper-cased token *)
Fixpoint parse_format (fuel : nat) (st : nx_state) (token : tok) (toks : list tok)
  : res (nx_state * list tok) :=
  match fuel with
  | O => OutOfFuel
  | S f =>
    let cap := x_cap st in
    let next st' r := do x <- req_tok cap r ;; let (t, r') := x in parse_format f st' (ucase t) r' in
    if text_eqb token t_semi then Ok (st, toks)
    else if text_eqb token kw_DATATYPE then
      do x <- req_tok cap toks ;;
      let (e, r) := x in
      if negb (text_eqb e t_eq) then Err ParseErr
      else
        do y <- req_tok cap r ;;
        let (v0, r1) := y in
        let v := ucase v0 in
        let st' :=
          if text_eqb v kw_DNA || text_eqb v kw_NUCLEOTIDES then set_dtype st DtDna
          else if text_eqb v kw_RNA then set_dtype st DtRna
          else if text_eqb v kw_NUCLEOTIDE then set_dtype st DtNucleotide
          else if text_eqb v kw_PROTEIN then set_dtype st DtProtein
          else if text_eqb v kw_CONTINUOUS then set_dtype st DtContinuous
          else set_symbols (set_dtype st DtStandard) digits09 in
        next st' r1
    else if text_eqb token kw_SYMBOLS then
      do x <- req_tok cap toks ;;
      let (e, r) := x in
      if negb (text_eqb e t_eq) then Err ParseErr
      else
        do y <- req_tok cap r ;;
        let (q, r1) := y in
        if negb (text_eqb q t_dq) then Err ParseErr
        else
          do z <- parse_symbols cap [] r1 ;;
          let (syms, r2) := z in
          next (set_symbols st syms) r2
    else if text_eqb token kw_GAP || text_eqb token kw_MISSING || text_eqb token kw_MATCHCHAR then
      do x <- req_tok cap toks ;;
      let (e, r) := x in
      if negb (text_eqb e t_eq) then Err ParseErr
      else
        do y <- req_tok cap r ;;
        let (v0, r1) := y in
        let v := ucase v0 in
        next (if text_eqb token kw_GAP then set_gap st v
              else if text_eqb token kw_MISSING then set_missing st v
              else set_match st [v; lcase v]) r1
    else if text_eqb token kw_INTERLEAVE then
      do x <- req_tok cap toks ;;
      let (e0, r) := x in
      let e := ucase e0 in
      if text_eqb e t_eq then
        do y <- req_tok cap r ;;
        let (v0, r1) := y in
        let v := ucase v0 in
        next (set_interleave st (negb (match v with 78 :: _ => true | _ => false end))) r1
      else parse_format f (set_interleave st true) e r
    else if text_eqb token kw_BEGIN then Err ParseErr
    else next st toks
  end.

(* ---- state alphabets built or extended while reading -------------------- *)

(* StateAlphabet(fundamental_states=symbols, no_data_symbol=missing, gap_symbol=gap,
   case_sensitive=False): _validate_new_symbol raises ValueError on a symbol already in use *)
Definition case_synonyms (t : text) : list text :=
  (if text_eqb (ucase t) t then [] else [ucase t]) ++
  (if text_eqb (lcase t) t || text_eqb (lcase t) (ucase t) then [] else [lcase t]).

Fixpoint add_fundamentals (syms : list text) (idx : Z) (used : list text) (acc : list state)
  : res (list state * list text * Z) :=
  match syms with
  | [] => Ok (acc, used, idx)
  | s :: r =>
    match s with
    | [] => Err ParseErr
    | _ =>
      if text_mem s used then Err ParseErr
      else
        let syn := case_synonyms s in
        if existsb (fun y => text_mem y (s :: used)) syn then Err ParseErr
        else add_fundamentals r (idx + 1) (used ++ s :: syn) (acc ++ [mkState idx s Fundamental [] syn])
    end
  end.

Definition fullmap_of (l : list state) : list (text * Z) :=
  concat (map (fun s => match s_symbol s with
                        | [] => []
                        | t => (t, s_index s) :: map (fun y => (y, s_index s)) (s_synonyms s)
                        end) l).

(* NexusReader._build_state_alphabet *)
Definition build_alphabet (symbols : text) (gap missing : tok) : res alphabet :=
  let syms0 := map (fun c => [c]) symbols in
  let syms := match gap with
              | [] => syms0
              | _ => if is_infix gap symbols then filter (fun s => negb (text_eqb s gap)) syms0 else syms0
              end in
  match syms with
  | [] => Err ParseErr                              (* No state symbols defined for STANDARD data type *)
  | _ =>
    do x <- add_fundamentals syms 0 [] [] ;;
    let '(fs, used, n) := x in
    do y <- (match gap with
             | [] => Ok (fs, used, n, None)
             | _ => do g <- add_fundamentals [gap] n used fs ;;
                    let '(fs', used', n') := g in Ok (fs', used', n', Some n)
             end) ;;
    let '(fs1, used1, n1, gapi) := y in
    match missing with
    | [] => Ok (mkAlphabet fs1 (fullmap_of fs1) false gapi None)
    | _ =>
      if text_mem missing used1 then Err ParseErr
      else
        let syn := case_synonyms missing in
        if existsb (fun s => text_mem s (missing :: used1)) syn then Err ParseErr
        else
          let all := fs1 ++ [mkState n1 missing Ambiguous (map s_index fs1) syn] in
          Ok (mkAlphabet all (fullmap_of all) false gapi (Some n1))
    end
  end.

Definition alphabet_of_dtype (dt : dtype) : alphabet :=
  match dt with
  | DtDna => alpha_dna | DtRna => alpha_rna | DtNucleotide => alpha_nucleotide
  | DtProtein => alpha_protein | DtRestriction => alpha_restriction
  | DtInfinite => alpha_infinite | _ => alpha_standard
  end.

Definition zmem (x : Z) (l : list Z) : bool := existsb (Z.eqb x) l.
Fixpoint zdedup (seen : list Z) (l : list Z) : list Z :=
  match l with
  | [] => []
  | x :: r => if zmem x seen then zdedup seen r else x :: zdedup (x :: seen) r
  end.
Definition zsame_set (x y : list Z) : bool :=
  forallb (fun a => zmem a y) x && forallb (fun a => zmem a x) y.

(* the fundamental member indices a one-character symbol stands for *)
Definition fundamentals_of_symbol (a : alphabet) (c : Z) : option (list Z) :=
  match state_of_symbol a c with
  | None => None
  | Some i => match find_state i (a_states a) with
              | None => None
              | Some s => match s_kind s with
                          | Fundamental => Some [s_index s]
                          | _ => Some (zdedup [] (s_members s))
                          end
              end
  end.

Fixpoint fundamentals_of_symbols (a : alphabet) (cs : text) : option (list Z) :=
  match cs with
  | [] => Some []
  | c :: r => match fundamentals_of_symbol a c, fundamentals_of_symbols a r with
              | Some x, Some y => Some (x ++ y)
              | _, _ => None
              end
  end.

(* a state created by new_multistate(symbol=None) gets no _index; the model names the k-th such
   ambiguous state 1000+k and the k-th polymorphic one 2000+k *)
Definition fresh_base (k : skind) : Z := match k with Polymorphic => 2000 | _ => 1000 end.

Definition count_fresh (a : alphabet) (k : skind) : Z :=
  len (filter (fun s => skind_eqb (s_kind s) k && (fresh_base k <=? s_index s) && (s_index s <? fresh_base k + 1000)) (a_states a)).

(* _get_state_for_multistate_tokens: match_state by the SET of fundamental states, else
   new_ambiguous_state / new_polymorphic_state(symbol=None, member_state_symbols=c) *)
Definition multistate (a : alphabet) (k : skind) (c : text) : res (Z * alphabet) :=
  match fundamentals_of_symbols a c with
  | None => Err ParseErr
  | Some ms =>
    match find (fun s => skind_eqb (s_kind s) k && zsame_set (s_members s) ms) (a_states a) with
    | Some s => Ok (s_index s, a)
    | None =>
      let i := fresh_base k + count_fresh a k in
      Ok (i, mkAlphabet (a_states a ++ [mkState i [] k ms []]) (a_fullmap a)
                        (a_case_sensitive a) (a_gap a) (a_missing a))
    end
  end.

(* ---- _read_character_states ------------------------------------------- *)

(* `for c in token:` of the plain-symbol branch *)
Fixpoint read_chars (st : nx_state) (a : alphabet) (nchar have : Z) (first : option (list Z))
         (acc : list Z) (cs : text) : res (list Z) :=
  match cs with
  | [] => Ok acc
  | c :: r =>
    do s <- (if text_mem [c] (x_match st) then
               match first with
               | None => Err ParseErr                                (* TypeError -> NexusReaderError *)
               | Some fv => match nth_error fv (Z.to_nat (have + len acc)) with
                            | Some s => Ok s
                            | None => Err ParseErr                   (* IndexError *)
                            end
               end
             else match state_of_symbol a c with
                  | Some s => Ok s
                  | None => Err ParseErr
                  end) ;;
    if have + len acc =? nchar then Err ParseErr                     (* too many characters *)
    else read_chars st a nchar have first (acc ++ [s]) r
  end.

Inductive rs_out :=
| RsDone (acc : list Z) (a : alphabet) (rest : list tok)
| RsTerminated (a : alphabet) (rest : list tok).       (* BlockTerminatedException *)

(* the while loop; `mode` = inside a { } or ( ) group with the tokens collected so far.
   `cap` = capture_eol as set at the top of the method (= _interleave) *)
Fixpoint read_states (st : nx_state) (a : alphabet) (nchar have : Z) (first : option (list Z))
         (mode : option (skind * text)) (acc : list Z) (toks : list tok) : res rs_out :=
  match mode with
  | None =>
    if nchar <=? have + len acc then Ok (RsDone acc a toks)
    else
      match toks with
      | [] => Err ParseErr
      | t :: r =>
        if is_eol t then
          if x_interleave st then Ok (RsDone acc a r)
          else read_states st a nchar have first None acc r
        else if text_eqb t t_lbrace then read_states st a nchar have first (Some (Ambiguous, [])) acc r
        else if text_eqb t t_lpar then read_states st a nchar have first (Some (Polymorphic, [])) acc r
        else if text_eqb t t_semi then
          if x_interleave st then Ok (RsTerminated a r)         (* BlockTerminatedException *)
          else Err ParseErr                                     (* insufficient characters before ';' *)
        else match read_chars st a nchar have first acc t with
             | Ok acc' => read_states st a nchar have first None acc' r
             | Err e => Err e
             | OutOfFuel => OutOfFuel
             end
      end
  | Some (k, buf) =>
    match toks with
    | [] => Err ParseErr
    | t :: r =>
      if negb (x_interleave st) && is_eol t then read_states st a nchar have first mode acc r
      else if text_eqb t (match k with Ambiguous => t_rbrace | _ => t_rpar end) then
        match multistate a k buf with
        | Ok (s, a') => read_states st a' nchar have first None (acc ++ [s]) r
        | Err e => Err e
        | OutOfFuel => OutOfFuel
        end
      else if text_eqb t [44] then read_states st a nchar have first mode acc r   (* "," between members: skipped *)
      else read_states st a nchar have first (Some (k, buf ++ t)) acc r
    end
  end.

(* ---- MATRIX ------------------------------------------------------------- *)

(* the resolver used when a block is read on its own: the namespace handed in stays *)
Definition keep_ns (_ : option tok) (ns : list text) : res (list text) := Ok ns.

Section NexusReader.
Variable lower : text -> text.
(* NexusReader._get_taxon_namespace(link_title), called by _parse_matrix_statement: the labels of
   the namespace the block attaches to, given the LINK TAXA title (None without LINK) and the
   namespace the reader state currently holds.  The data-set level definition is in C09Dataset.v;
   `keep_ns` is the single-namespace reading. *)
Variable resolve : option tok -> list text -> res (list text).

Definition taxon_match (cs : bool) (name l : text) : bool :=
  if cs then text_eqb name l else text_eqb (lower name) (lower l).

Fixpoint find_taxon (cs : bool) (name : text) (ns : list text) (i : nat) : option nat :=
  match ns with
  | [] => None
  | l :: r => if taxon_match cs name l then Some i else find_taxon cs name r (S i)
  end.

(* NexusReader._get_taxon *)
Definition get_taxon (st : nx_state) (label : tok) : res (nx_state * nat) :=
  let may_add := match x_ntax st with
                 | None => true
                 | Some n => (n =? 0) || (len (x_ns st) <? n)
                 end in
  match find_taxon (x_cs st) label (x_ns st) O with
  | Some i => Ok (st, i)
  | None => if may_add then Ok (set_ns st (x_ns st ++ [label]), length (x_ns st))
            else Err ParseErr
  end.

Definition nrows := list (nat * list Z).

Fixpoint row_get (i : nat) (rows : nrows) : option (list Z) :=
  match rows with
  | [] => None
  | (j, v) :: r => if Nat.eqb i j then Some v else row_get i r
  end.

Fixpoint row_extend (i : nat) (x : list Z) (rows : nrows) : nrows :=
  match rows with
  | [] => [(i, x)]
  | (j, v) :: r => if Nat.eqb i j then (j, v ++ x) :: r else (j, v) :: row_extend i x r
  end.

(* _process_discrete_matrix_data: both loops.  After the interleaved loop every row must have
   reached NCHAR (`rows_complete`); the sequential loop checks each row as it goes. *)
Fixpoint matrix_loop (fuel : nat) (st : nx_state) (a : alphabet) (nchar : Z) (rows : nrows)
         (first : option nat) (toks : list tok) : res (nx_state * alphabet * nrows * list tok) :=
  let rows_complete (x : nx_state * alphabet * nrows * list tok) :=
    if forallb (fun r : nat * list Z => nchar <=? len (snd r)) (snd (fst x)) then Ok x else Err ParseErr in
  match fuel with
  | O => OutOfFuel
  | S f =>
    match next_tok (x_cap st) toks with
    | None => if x_interleave st then rows_complete (st, a, rows, [])
              else Err ParseErr                  (* MATRIX statement not terminated by ';' *)
    | Some (t, r) =>
      if text_eqb t t_semi then
        (if x_interleave st then rows_complete (st, a, rows, r) else Ok (st, a, rows, r))
      else
        do x <- get_taxon st t ;;
        let (st1, i) := x in
        let rows1 := row_extend i [] rows in                 (* char_block[taxon] creates the row *)
        let have := match row_get i rows1 with Some v => len v | None => 0 end in
        let fv := match first with Some j => row_get j rows1 | None => None end in
        let st2 := if x_interleave st1 then set_cap st1 true else st1 in
        do o <- read_states st2 a nchar have fv None [] r ;;
        match o with
        | RsTerminated a' r' =>
          if x_interleave st2 then
            match next_tok (x_cap st2) r' with
            | None => rows_complete (st2, a', rows1, [])
            | Some (_, r'') => rows_complete (st2, a', rows1, r'')
            end
          else Err OtherErr                                  (* BlockTerminatedException escapes *)
        | RsDone acc a' r' =>
          let st3 := if x_interleave st2 then set_cap st2 false else st2 in
          let rows2 := row_extend i acc rows1 in
          let first' := match first with Some j => Some j | None => Some i end in
          if negb (x_interleave st3) && (have + len acc <? nchar) then Err ParseErr
          else matrix_loop f st3 a' nchar rows2 first' r'
        end
    end
  end.

Definition nonzero (o : option Z) : option Z :=
  match o with Some n => if n =? 0 then None else Some n | None => None end.

Record block_result := mkBR {
  br_dtype : dtype;
  br_alpha : alphabet;
  br_rows : matrix;            (* (label of the taxon, states) in the matrix's insertion order *)
  br_ns : list text;           (* the namespace afterwards *)
  br_title : option tok;
  br_link : option tok
}.

(* _parse_matrix_statement *)
Definition parse_matrix (fuel : nat) (st0 : nx_state) (toks : list tok)
  : res (nx_state * block_result * list tok) :=
  match nonzero (x_ntax st0), nonzero (x_nchar st0) with
  | Some _, Some nchar =>
    do ns <- resolve (x_link st0) (x_ns st0) ;;
    let st := set_ns st0 ns in
    match x_dtype st with
    | DtContinuous => Err OtherErr                           (* not modelled *)
    | dt =>
      do a <- (match dt with
               | DtStandard => build_alphabet (x_symbols st) (x_gap st) (x_missing st)
               | _ => Ok (alphabet_of_dtype dt)
               end) ;;
      do x <- matrix_loop fuel st a nchar [] None toks ;;
      let '(st', a', rows, rest) := x in
      Ok (st', mkBR dt a' (map (fun r => (nth (fst r) (x_ns st') [], snd r)) rows) (x_ns st')
                    (x_title st') (x_link st'), rest)
    end
  | _, _ => Err ParseErr
  end.

(* _parse_characters_data_block, entered after the CHARACTERS / DATA token.  The result lists
   one entry per MATRIX statement.  Fuel: every iteration of every loop consumes at least one
   token, so the number of tokens bounds the iterations of each loop; the statement loops are
   given the fuel that is left for the block loop (never less than the tokens that remain). *)
Fixpoint block_loop (fuel : nat) (st : nx_state) (done : list block_result) (toks : list tok)
  : res (nx_state * list block_result * list tok) :=
  match fuel with
  | O => OutOfFuel
  | S f =>
    match next_tok (x_cap st) toks with
    | None => Ok (st, done, [])
    | Some (t0, r) =>
      let t := ucase t0 in
      if text_eqb t kw_END || text_eqb t kw_ENDBLOCK then Ok (st, done, skip_semi (x_cap st) r)
      else if text_eqb t kw_TITLE then
        do x <- parse_title (x_cap st) r ;;
        let (title, r') := x in block_loop f (set_title st (Some title)) done r'
      else if text_eqb t kw_LINK then
        do x <- parse_link f (x_cap st) None
                           (match next_tok (x_cap st) r with Some (u, _) => Some (ucase u) | None => None end)
                           (match next_tok (x_cap st) r with Some (_, q) => q | None => [] end) ;;
        let (lk, r') := x in block_loop f (set_link st lk) done r'
      else if text_eqb t kw_DIMENSIONS then
        do x <- parse_dimensions f st r ;;
        let (st', r') := x in block_loop f st' done r'
      else if text_eqb t kw_FORMAT then
        do x <- req_tok (x_cap st) r ;;
        let (u, r1) := x in
        do y <- parse_format f st (ucase u) r1 ;;
        let (st', r') := y in block_loop f st' done r'
      else if text_eqb t kw_MATRIX then
        do x <- parse_matrix f st r ;;
        let '(st', br, r') := x in block_loop f st' (done ++ [br]) r'
      else if text_eqb t kw_BEGIN then Err ParseErr
      else block_loop f st done r
    end
  end.

(* the whole block: BEGIN CHARACTERS|DATA ; ... END ; *)
Definition read_chars_block (st : nx_state) (toks : list tok) : res (nx_state * list block_result * list tok) :=
  match next_tok (x_cap st) toks with
  | Some (b, r) =>
    if text_eqb (ucase b) kw_BEGIN then
      match next_tok (x_cap st) r with
      | Some (k, r') =>
        if text_eqb (ucase k) kw_CHARACTERS || text_eqb (ucase k) kw_DATA then
          let r'' := skip_semi (x_cap st) r' in
          let st1 := set_dtype (set_link (set_title st None) None) DtStandard in
          let st2 := match x_symbols st1 with [] => set_symbols st1 digits09 | _ => st1 end in
          block_loop (S (length r'')) st2 [] r''
        else Err OtherErr
      | None => Err OtherErr
      end
    else Err OtherErr
  | None => Err OtherErr
  end.

End NexusReader.
