(* C08 (generated-code tie): the object graph over which Gen/Extract.v is instantiated.

   State = Heap.v's heap (node = id, edge = the node's id, as in Model/C03GenInst.v)
           + the attribute extraction stores on new nodes (new id -> id of the node it was made from)
           + edge labels (not part of Heap.v's cells; extract_subtree copies them, nothing reads them).

   `img on s n v`: the nodes reachable from n through the child lists of the state s form the rose
   tree v of Model/C08Model.v when every node is NAMED BY ITS EXTRACTION SOURCE (that is how
   C08Model.extract_subtree names the nodes of its result): same taxon, label and edge length, same
   children in the same order, every child's parent pointer is its parent and - when the attribute is
   requested (`on`) - the attribute of a node is the source id.  Every child was created before
   its parent (smaller id), and every node is at least `lo` (with lo = the first id that was free in
   the source heap: all nodes are new). *)
From Coq Require Import ZArith List Bool.
From DV Require Import Model.PyPrims Model.Tree Model.Heap Model.HeapOps Model.C15Prims Model.MutPrims
     Model.C03GenInst Model.C08GenPrims.
Import ListNotations.
Open Scope Z_scope.

Record xstate : Type := mkX {
  xh : heap;
  xsrc : list (Z * Z);            (* setattr(new, extraction_source_reference_attr_name, old): most recent first *)
  xel : list (Z * option Z)       (* edge labels that were written *)
}.

Definition xlift (f : heap -> heap) (s : xstate) : xstate := mkX (f (xh s)) (xsrc s) (xel s).

Definition xres {A : Type} (r : mres heap A) (s : xstate) : mres xstate A :=
  match r with
  | MOk a h => MOk a (mkX h (xsrc s) (xel s))
  | MErr e h => MErr e (mkX h (xsrc s) (xel s))
  | MFuel => MFuel
  end.

Fixpoint zfind {V : Type} (k : Z) (m : list (Z * V)) : option V :=
  match m with
  | [] => None
  | (k', v) :: r => if Z.eqb k k' then Some v else zfind k r
  end.

Definition xsource (s : xstate) (n : Z) : option Z := zfind n (xsrc s).
Definition elabel (s : xstate) (e : Z) : option Z := match zfind e (xel s) with Some v => v | None => None end.

Definition HXG : mutgraph :=
  {| mst := xstate; mnode := Z; medge := Z;
     mg_eqb := Z.eqb;
     rd_parent := fun s => parent (xh s); wr_parent := fun n v => xlift (set_parent n v);
     rd_kids := fun s => kids (xh s); wr_kids := fun n v => xlift (set_kids n v);
     rd_edge := fun _ n => n;
     rd_taxon := fun s => taxon (xh s);
     rd_head := fun _ e => e;
     rd_length := fun s => elen (xh s); wr_length := fun e v => xlift (set_elen e v);
     rd_seed := fun s => seed (xh s); wr_seed := fun n => xlift (set_seed n);
     rd_rooted := fun s => rooted (xh s); wr_rooted := fun r => xlift (set_rooted r);
     new_node := fun x l e s => (next (xh s), xlift (alloc x l e) s);
     x_reseed_at := fun ns ub cb su s => xres (x_reseed_at HG ns ub cb su (xh s)) s;
     x_suppress_unifurcations := fun s => xres (x_suppress_unifurcations HG (xh s)) s;
     x_encode_bipartitions := fun su cb s => xres (x_encode_bipartitions HG su cb (xh s)) s;
     x_postorder_nodes := fun s => x_postorder_nodes HG (xh s);
     x_leaf_nodes := fun s => x_leaf_nodes HG (xh s);
     x_preorder_nodes := fun s => x_preorder_nodes HG (xh s);
     x_leaf_nodes_of := fun s c => x_leaf_nodes_of HG (xh s) c;
     x_collapse_basal_bifurcation := fun su s => xres (x_collapse_basal_bifurcation HG su (xh s)) s |}.

Definition HX : xgraph :=
  {| xg := HXG;
     rd_label := fun s => label (xh s);
     wr_label := fun n v => xlift (set_label n v);
     wr_taxon := fun n v => xlift (set_taxon n v);
     rd_elabel := elabel;
     wr_elabel := fun e v s => mkX (xh s) (xsrc s) ((e, v) :: xel s);
     wr_xsource := fun n o s => mkX (xh s) ((n, o) :: xsrc s) (xel s);
     x_postorder_nodes_of := fun s c => match abs_at (xh s) c with Some t => Some (post_ids t) | None => None end |}.

Fixpoint img (on : bool) (lo : Z) (s : xstate) (n : Z) (v : tree) {struct v} : Prop :=
  match v with
  | T i x l e ks =>
    lo <= n /\ taxon (xh s) n = x /\ label (xh s) n = l /\ elen (xh s) n = e /\ (on = true -> xsource s n = Some i) /\
    (fix all (ns : list Z) (ks : list tree) {struct ks} : Prop :=
       match ns, ks with
       | [], [] => True
       | c :: ns', k :: ks' => c < n /\ parent (xh s) c = Some n /\ img on lo s c k /\ all ns' ks'
       | _, _ => False
       end) (kids (xh s) n) ks
  end.
