(* C07: specification-level model of the re-rooting / re-orienting methods of dendropy Tree
   (src/dendropy/datamodel/treemodel/_tree.py: reseed_at, to_outgroup_position, reroot_at_node,
   reroot_at_edge, reroot_at_midpoint, randomly_reorient, randomly_rotate, ladderize, reorder,
   suppress_unifurcations, collapse_basal_bifurcation; _edge.py Edge.invert / Edge.collapse).

   Every method is a pure function on the id-carrying rose trees of Model/Tree.v (+ the rooting
   flag `is_rooted : option bool`) written so that it reproduces the library's result tree exactly:
   node identities, child order, which node keeps which edge length, where new nodes appear, what
   the flags do.  It is not a statement transcription (pointer manipulation is C03's subject); it
   is tied to the code by py/dv/c07.py, which compares the dump of the real tree after the real call
   with these functions, case by case, inside Coq.

   Lengths: Z in units of 2^-10, None = Python None.  Non-determinism of the library is an input:
   the most distant pair used by reroot_at_midpoint, the draws of the random source. *)
From Coq Require Import ZArith List Bool.
From DV Require Import Model.PyPrims Model.Tree.
Import ListNotations.
Open Scope Z_scope.

Definition len0 (e : option Z) : Z := match e with Some x => x | None => 0 end.
Definition set_len (e : option Z) (t : tree) : tree :=
  match t with T i x l _ ks => T i x l e ks end.

(* first Some of f over a list *)
Definition first_some {A B} (f : A -> option B) : list A -> option B :=
  fix go (l : list A) : option B :=
    match l with
    | [] => None
    | a :: r => match f a with Some b => Some b | None => go r end
    end.

(* first Some of f over a list, f also sees the elements before and after *)
Definition first_ctx {A B} (f : list A -> A -> list A -> option B) : list A -> list A -> option B :=
  fix go (pre l : list A) : option B :=
    match l with
    | [] => None
    | a :: post => match f pre a post with Some b => Some b | None => go (pre ++ [a]) post end
    end.

Fixpoint all_some {A} (l : list (option A)) : option (list A) :=
  match l with
  | [] => Some []
  | None :: _ => None
  | Some a :: r => match all_some r with Some r' => Some (a :: r') | None => None end
  end.

(* the first node (preorder) with identity n *)
Fixpoint find_node (n : Z) (t : tree) : option tree :=
  match t with
  | T i x l e ks => if i =? n then Some t else first_some (find_node n) ks
  end.

Fixpoint parent_of (n : Z) (t : tree) : option Z :=
  match t with
  | T i x l e ks => first_some (fun k => if t_id k =? n then Some i else parent_of n k) ks
  end.

(* ---------------------------------------------------------------------------------------
   reseed_at: the chain of Edge.invert calls from the old seed down to the new seed.
   Edge.invert(head H, tail P): H is removed from P's children, P is appended as the LAST child of
   H, P takes H's edge length and H takes P's.  The chain starts at the old seed, so every H
   successively receives the old seed's edge length e0, and the final result is:
   new seed = target with children (its own ++ [old parent]), where the old parent has lost the
   child on the path, has gained ITS old parent as last child, and carries the length of the edge
   that was inverted.  `above` is the already inverted part (empty at the old seed). *)
Fixpoint rot (e0 : option Z) (n : Z) (t : tree) (above : list tree) : option tree :=
  match t with
  | T i x l e ks =>
    if i =? n then Some (T i x l e0 (ks ++ above))
    else first_ctx (fun pre k post => rot e0 n k [T i x l (t_len k) (pre ++ post ++ above)]) [] ks
  end.

(* Tree.suppress_unifurcations (postorder; also the loop inside encode_bipartitions): a node with
   exactly one child is replaced by the child, whose length becomes child + node with the rules
   node None -> child unchanged, child None -> node's length *)
Definition addlen_supp (child parent : option Z) : option Z :=
  match parent with
  | None => child
  | Some p => match child with None => Some p | Some c => Some (c + p) end
  end.

Fixpoint suppress (t : tree) : tree :=
  match t with
  | T i x l e ks =>
    match map suppress ks with
    | [c] => set_len (addlen_supp (t_len c) e) c
    | ks' => T i x l e ks'
    end
  end.

(* Tree.collapse_basal_bifurcation (since fix 1fc3f136):
     if to_del_edge.length is not None:
         if to_keep.edge.length is None: to_keep.edge.length = to_del_edge.length
         else: try: to_keep.edge.length += to_del_edge.length except: pass     (float + float never raises) *)
Definition addlen_try (keep del : option Z) : option Z :=
  match del with
  | None => keep
  | Some d => match keep with None => Some d | Some k => Some (k + d) end
  end.

Definition collapse_basal (t : tree) : tree * bool :=
  match t with
  | T i x l e [c0; c1] =>
    if (2 <=? length (t_kids c1))%nat
    then (T i x l e (set_len (addlen_try (t_len c0) (t_len c1)) c0 :: t_kids c1), true)
    else if (2 <=? length (t_kids c0))%nat
    then (T i x l e (t_kids c0 ++ [set_len (addlen_try (t_len c1) (t_len c0)) c1]), true)
    else (t, false)
  | _ => (t, false)
  end.

Definition not_rooted (r : option bool) : bool :=
  match r with Some true => false | _ => true end.

(* tail of reseed_at, and the structural part of encode_bipartitions(suppress_unifurcations,
   collapse_unrooted_basal_bifurcation): both do the same thing to the tree.
   collapse_basal_bifurcation() is called with its default set_as_unrooted_tree=True *)
Definition post_reseed (t : tree) (r : option bool) (coll supp : bool) : tree * option bool :=
  let '(t1, r1) :=
    if coll && not_rooted r
    then let '(t', did) := collapse_basal t in (t', if did then Some false else r)
    else (t, r) in
  (if supp then suppress t1 else t1, r1).

(* reseed_at on a leaf with suppress_unifurcations: the new seed's single child (its old parent)
   is removed and the old parent's children are given to the new seed; the old parent's edge
   length is lost (outside the documented domain, F19) *)
Definition leaf_fix (t : tree) : tree :=
  match t with
  | T i x l e [c] => T i x l e (t_kids c)
  | _ => t
  end.

(* `Err LookupErr` = the node is not in the tree: outside the domain (the library would follow the
   foreign node's own parent chain); excluded by the hypotheses of every theorem *)
Definition reseed_at (t : tree) (r : option bool) (n : Z) (upd coll supp : bool)
  : res (tree * option bool) :=
  do t1 <- (if t_id t =? n then Ok t
            else match find_node n t, rot (t_len t) n t [] with
                 | Some X, Some t1 => Ok (if is_leaf X && supp then leaf_fix t1 else t1)
                 | _, _ => Err LookupErr
                 end);;
  Ok (post_reseed t1 r coll supp).

(* first child with identity og moved to the front *)
Definition to_front (og : Z) (ks : list tree) : option (list tree) :=
  first_ctx (fun pre k post => if t_id k =? og then Some (k :: pre ++ post) else None) [] ks.

(* to_outgroup_position BEFORE repair 1c81f78b (re-seed with suppression, then move the outgroup to the front;
   kept because the old form's theorems and the links to HeapOps.to_outgroup_position speak about it):
   `Err OtherErr` = the seed is a unifurcation whose only child is the
   outgroup and gets suppressed as the root (the library then re-attaches the new seed below the
   detached old seed: an ill-formed structure, C03's subject; not generated by the harness) *)
Definition to_outgroup_old (t : tree) (r : option bool) (og : Z) (upd supp : bool)
  : res (tree * option bool) :=
  match parent_of og t with
  | None => Err AssertErr
  | Some p =>
    do tr <- reseed_at t r p upd false supp;;
    match fst tr with
    | T i x l e ks =>
      if i =? p
      then match to_front og ks with
           | Some ks' => Ok (T i x l e ks', snd tr)
           | None => Err ValueErr
           end
      else Err OtherErr
    end
  end.

(* to_outgroup_position NOW (repair 1c81f78b): the outgroup is moved to the front of its parent's child list
   BEFORE reseed_at(parent, suppress_unifurcations): re-seeding keeps the order of the new seed's own children
   (the old parent is appended last), so this is the re-seeding without suppression with the outgroup first,
   followed by the tree-wide suppression when it is asked for - which now also handles an outgroup that is a
   unifurcation (merged into its child, which stays first) and a unifurcating seed *)
Definition to_outgroup (t : tree) (r : option bool) (og : Z) (upd supp : bool)
  : res (tree * option bool) :=
  do tr <- to_outgroup_old t r og upd false;;
  Ok (if supp then suppress (fst tr) else fst tr, snd tr).

Definition reroot_at_node (t : tree) (r : option bool) (n : Z) (upd supp coll : bool)
  : res (tree * option bool) :=
  do tr <- reseed_at t r n false false supp;;
  Ok (if upd then post_reseed (fst tr) (Some true) coll supp else (fst tr, Some true)).

(* reroot_at_edge / reroot_at_midpoint: a new node is put on the edge above h: it becomes the LAST
   child of h's parent with length l1 and has the single child h with length l2 *)
Fixpoint split_edge (h fresh : Z) (l1 l2 : option Z) (t : tree) : option tree :=
  match t with
  | T i x l e ks =>
    option_map (T i x l e)
      (first_ctx (fun pre k post =>
         if t_id k =? h then Some (pre ++ post ++ [T fresh None None l1 [set_len l2 k]])
         else option_map (fun k' => pre ++ k' :: post) (split_edge h fresh l1 l2 k)) [] ks)
  end.

Definition reroot_at_edge (t : tree) (r : option bool) (h : Z) (l1 l2 : option Z)
           (upd supp : bool) (fresh : Z) : res (tree * option bool) :=
  if t_id t =? h then Err AttrErr
  else match split_edge h fresh l1 l2 t with
       | None => Err LookupErr
       | Some t1 => reroot_at_node t1 r fresh upd supp true
       end.

(* ---------------------------------------------------------------------------------------
   reroot_at_midpoint *)

(* (id, length) of the nodes from the first leaf (preorder) with taxon a up to the root of t *)
Fixpoint up_chain (a : option Z) (t : tree) : option (list (Z * option Z)) :=
  match t with
  | T i x l e ks =>
    match ks with
    | [] => if oz_eqb x a then Some [(i, e)] else None
    | _ => option_map (fun c => c ++ [(i, e)]) (first_some (up_chain a) ks)
    end
  end.

(* most recent common ancestor of the leaves a and b, and the chains (leaf first) strictly below it *)
Fixpoint mrca_chains (a b : option Z) (t : tree)
  : option (Z * list (Z * option Z) * list (Z * option Z)) :=
  match t with
  | T i x l e ks =>
    match first_some (mrca_chains a b) ks with
    | Some m => Some m
    | None => match first_some (up_chain a) ks, first_some (up_chain b) ks with
              | Some ca, Some cb => Some (i, ca, cb)
              | _, _ => None
              end
    end
  end.

Definition sum_len0 (c : list (Z * option Z)) : Z := fold_right (fun p s => len0 (snd p) + s) 0 c.

(* Node.distance_from_root on a leaf-to-root chain, with its treatment of None lengths *)
Definition dfr (c : list (Z * option Z)) : res Z :=
  match c with
  | [] => Ok 0
  | [(_, e)] => Ok (len0 e)
  | (_, Some e) :: rest => Ok (e + sum_len0 rest)
  | (_, None) :: (_, Some p) :: _ => Ok p
  | (_, None) :: (_, None) :: _ => Err TypeErr
  end.

Inductive hit := HitNode (n : Z) | HitEdge (h : Z) (head_len tail_len : Z).

(* the `while cur_node is not mrca_node` loop *)
Fixpoint walk (top : Z) (plen : Z) (chain : list (Z * option Z)) : res hit :=
  match chain with
  | [] => Err AssertErr
  | (i, None) :: _ => Err TypeErr
  | (i, Some e) :: rest =>
    if plen <? e then Ok (HitEdge i plen (e - plen))
    else if e <? plen then walk top (plen - e) rest
    else Ok (HitNode (match rest with (p, _) :: _ => p | [] => top end))
  end.

Fixpoint dbl (t : tree) : tree :=
  match t with T i x l e ks => T i x l (option_map (Z.mul 2) e) (map dbl ks) end.

Fixpoint comes_first (a b : option Z) (l : list (option Z)) : bool :=
  match l with
  | [] => true
  | x :: r => if oz_eqb x a then true else if oz_eqb x b then false else comes_first a b r
  end.

Definition is_none {A} (o : option A) : bool := match o with None => true | Some _ => false end.

(* The midpoint can fall in the middle of an edge of odd length, so the method is modelled on the
   tree with all lengths doubled: THE RESULT IS IN HALF UNITS.  `pair` is what
   max_pairwise_distance_taxa returned to the method (None: no pair). *)
Definition midpoint_core (t : tree) (r : option bool) (pr : option (option Z * option Z))
           (upd supp coll : bool) (fresh : Z) : res (tree * option bool) :=
  if negb (is_leaf t) && existsb is_none (leaf_taxa t) then Err AssertErr
  else match pr with
  | None => Err TypeErr
  | Some (a, b) =>
    let '(s0, s1) := if comes_first a b (leaf_taxa t) then (a, b) else (b, a) in
    match up_chain s0 t, up_chain s1 t, mrca_chains s0 s1 t with
    | Some f0, Some f1, Some (m, c0, c1) =>
      do d0 <- dfr f0;;
      do d1 <- dfr f1;;
      let chain := if d0 <? d1 then c1 else c0 in
      let D := sum_len0 c0 + sum_len0 c1 in
      do h <- walk m (D / 2) chain;;
      do tr <- match h with
               | HitNode n => reseed_at t r n false false supp
               | HitEdge hd hl tl =>
                 match split_edge hd fresh (Some tl) (Some hl) t with
                 | Some t' => reseed_at t' r fresh false false supp
                 | None => Err LookupErr
                 end
               end;;
      Ok (if upd then (fst (post_reseed (fst tr) (Some true) coll false), Some true)
          else (fst tr, Some true))
    | _, _, _ => Err LookupErr
    end
  end.

Definition reroot_at_midpoint (t : tree) (r : option bool) (pr : option (option Z * option Z))
           (upd supp coll : bool) (fresh : Z) : res (tree * option bool) :=
  midpoint_core (dbl t) r pr upd supp coll fresh.

(* ---------------------------------------------------------------------------------------
   ladderize / reorder: stable sorts of every child list *)

Fixpoint desc_count (t : tree) : Z :=
  match t with T _ _ _ _ ks => fold_right (fun k n => desc_count k + 1 + n) 0 ks end.

Fixpoint insert_by (key : tree -> Z) (asc : bool) (x : tree) (l : list tree) : list tree :=
  match l with
  | [] => [x]
  | y :: r => if (if asc then key x <=? key y else key y <=? key x)
              then x :: l else y :: insert_by key asc x r
  end.

Definition sort_by (key : tree -> Z) (asc : bool) (l : list tree) : list tree :=
  fold_right (insert_by key asc) [] l.

Fixpoint ladderize (asc : bool) (t : tree) : tree :=
  match t with
  | T i x l e ks => T i x l e (sort_by desc_count asc (map (ladderize asc) ks))
  end.

Fixpoint alookup {V} (k : Z) (l : list (Z * V)) : option V :=
  match l with
  | [] => None
  | (k', v) :: r => if k =? k' then Some v else alookup k r
  end.

(* reorder(): key = taxon label, '' for nodes without taxon; the label order is given as ranks *)
Definition rank_of (rk : list (Z * Z)) (t : tree) : Z :=
  match t_taxon t with
  | None => 0
  | Some x => match alookup x rk with Some v => v | None => 0 end
  end.

Fixpoint reorder (asc : bool) (rk : list (Z * Z)) (t : tree) : tree :=
  match t with
  | T i x l e ks => T i x l e (sort_by (rank_of rk) asc (map (reorder asc rk) ks))
  end.

(* ---------------------------------------------------------------------------------------
   randomly_rotate with a scripted random source: for every internal node the permutation the
   shuffle produced (position p of the new child list holds old child number sg[p]) *)
Fixpoint pick (sg : list nat) (ks : list tree) : option (list tree) :=
  match sg with
  | [] => Some []
  | j :: r => match nth_error ks j, pick r ks with
              | Some k, Some l => Some (k :: l)
              | _, _ => None
              end
  end.

Definition is_perm (sg : list nat) (n : nat) : bool :=
  (length sg =? n)%nat && forallb (fun j => existsb (Nat.eqb j) sg) (seq 0 n).

Definition apply_perm (sg : list nat) (ks : list tree) : option (list tree) :=
  if is_perm sg (length ks) then pick sg ks else None.

(* None: the script has no (valid) entry for some internal node *)
Fixpoint rotate (sc : list (Z * list nat)) (t : tree) : option tree :=
  match t with
  | T i x l e ks =>
    match ks with
    | [] => Some t
    | _ => match all_some (map (rotate sc) ks), alookup i sc with
           | Some ks', Some sg => option_map (T i x l e) (apply_perm sg ks')
           | _, _ => None
           end
    end
  end.

(* randomly_reorient: n = the node rng.sample picked; `Err OtherErr` = script not applicable *)
Definition reorient (t : tree) (r : option bool) (n : option Z) (upd : bool)
           (sc : list (Z * list nat)) : res (tree * option bool) :=
  match n with
  | None => Err OtherErr
  | Some n =>
    match find_node n t with
    | None => Err LookupErr
    | Some X =>
      do tr <- (if is_leaf X then to_outgroup t r n upd true else reseed_at t r n upd true true);;
      match rotate sc (fst tr) with
      | Some t2 => Ok (t2, snd tr)
      | None => Err OtherErr
      end
    end
  end.

(* ---------------------------------------------------------------------------------------
   correspondence cases *)
Inductive op :=
| OReseed (n : Z) (upd coll supp : bool)
| OToOutgroup (n : Z) (upd supp : bool)
| ORerootNode (n : Z) (upd supp coll : bool)
| ORerootEdge (h : Z) (l1 l2 : option Z) (upd supp : bool) (fresh : Z)
| OMidpoint (pr : option (option Z * option Z)) (upd supp coll : bool) (fresh : Z)
| OLadderize (asc : bool)
| OReorder (asc : bool) (rk : list (Z * Z))
| ORotate (sc : list (Z * list nat))
| OReorient (n : option Z) (upd : bool) (sc : list (Z * list nat))
| OSuppress
| OCollapseBasal (set_unrooted : bool).

Record case := mkCase {
  c_tree : tree;
  c_rooted : option bool;
  c_op : op;
  c_exp : res (tree * option bool)
}.

Definition run_op (t : tree) (r : option bool) (o : op) : res (tree * option bool) :=
  match o with
  | OReseed n upd coll supp => reseed_at t r n upd coll supp
  | OToOutgroup n upd supp => to_outgroup t r n upd supp
  | ORerootNode n upd supp coll => reroot_at_node t r n upd supp coll
  | ORerootEdge h l1 l2 upd supp fresh => reroot_at_edge t r h l1 l2 upd supp fresh
  | OMidpoint pr upd supp coll fresh => reroot_at_midpoint t r pr upd supp coll fresh
  | OLadderize asc => Ok (ladderize asc t, r)
  | OReorder asc rk => Ok (reorder asc rk t, r)
  | ORotate sc => match rotate sc t with Some t' => Ok (t', r) | None => Err OtherErr end
  | OReorient n upd sc => reorient t r n upd sc
  | OSuppress => Ok (suppress t, r)
  | OCollapseBasal su =>
    let '(t', did) := collapse_basal t in Ok (t', if did && su then Some false else r)
  end.

Definition case_run (c : case) : res (tree * option bool) := run_op (c_tree c) (c_rooted c) (c_op c).

Definition ob_eqb (a b : option bool) : bool :=
  match a, b with
  | None, None => true
  | Some x, Some y => Bool.eqb x y
  | _, _ => false
  end.

Definition obs_eqb (a b : tree * option bool) : bool :=
  tree_eqb (fst a) (fst b) && ob_eqb (snd a) (snd b).

(* the implementation's observation is in units; reroot_at_midpoint's model result in half units *)
Definition scale_exp (o : op) (e : res (tree * option bool)) : res (tree * option bool) :=
  match o, e with
  | OMidpoint _ _ _ _ _, Ok (t, r) => Ok (dbl t, r)
  | _, _ => e
  end.

Definition case_ok (c : case) : bool := res_eqb obs_eqb (case_run c) (scale_exp (c_op c) (c_exp c)).

(* documented as not changing the rooting state ("soft") / as setting it to rooted ("hard") *)
Definition op_soft (o : op) : bool :=
  match o with
  | OReseed _ _ _ _ | OToOutgroup _ _ _ | OLadderize _ | OReorder _ _ | ORotate _
  | OReorient _ _ _ | OSuppress => true
  | _ => false
  end.

Definition op_hard (o : op) : bool :=
  match o with
  | ORerootNode _ _ _ _ | ORerootEdge _ _ _ _ _ _ | OMidpoint _ _ _ _ _ => true
  | _ => false
  end.
