(* C04: executable model of dendropy.calculate.treecompare
     symmetric_difference / unweighted_robinson_foulds_distance / false_positives_and_negatives /
     find_missing_bipartitions / weighted_robinson_foulds_distance / robinson_foulds_distance /
     euclidean_distance / _bipartition_difference / _get_length_diffs
   together with the parts of Tree they drive:
     Tree.encode_bipartitions (default arguments: basal bifurcation collapse of not-rooted trees,
     unifurcation suppression with edge length merging, leafset masks, split mask normalisation),
     Tree.collapse_basal_bifurcation, Tree.bipartition_encoding, Tree.bipartition_edge_map (lazy,
     cached in Tree._bipartition_edge_map), Edge.bipartition, Bipartition.__hash__/__eq__ (= split mask).

   Hand transcription; tied to the source by py/dv/c04.py (correspondence) - the two bit functions
   normalize_bitmask / least_significant_set_bit come from the translator (Gen/BitFns.v).

   Units: edge lengths are Z multiples of 2^-10 (Model/Tree.v); weighted RF is reported in the same
   unit, the Euclidean distance as its exact radicand `euclid_sq` in unit^2
   (euclidean_distance = sqrt(euclid_sq) * 2^-10; the square root itself and binary64 rounding are
   outside the model).

   Two places where the code as it stands violates the property are modelled in both forms, the
   harness probing the working tree for which one it has: `policy` (missing edge lengths in
   _get_length_diffs: Current | ZeroBoth | RefuseBoth) and `mg` (collapse_basal_bifurcation dropping
   or keeping a removed length, see add_len).

   Object identity: nodes (and their edges: an Edge is never re-seated) are named by the `id` field
   of Model/Tree.v trees; a Bipartition is represented by its split mask (the only thing __hash__
   and __eq__ look at). *)
From Coq Require Import ZArith List Bool.
From DV Require Import Model.PyPrims Model.Tree Gen.BitFns.
Import ListNotations.
Open Scope Z_scope.

(* ------------------------------------------------------------------------------------------ *)
(* Python dict with int keys: insertion ordered; assigning to an existing key keeps its position *)

Fixpoint zlookup {V} (k : Z) (l : list (Z * V)) : option V :=
  match l with
  | [] => None
  | (k', v) :: r => if Z.eqb k k' then Some v else zlookup k r
  end.

Fixpoint dict_set {V} (k : Z) (v : V) (l : list (Z * V)) : list (Z * V) :=
  match l with
  | [] => [(k, v)]
  | (k', v') :: r => if Z.eqb k k' then (k', v) :: r else (k', v') :: dict_set k v r
  end.

Fixpoint dict_remove {V} (k : Z) (l : list (Z * V)) : list (Z * V) :=
  match l with
  | [] => []
  | (k', v') :: r => if Z.eqb k k' then r else (k', v') :: dict_remove k r
  end.

(* d.pop(k): value and remaining dict, None = KeyError *)
Definition dict_pop {V} (k : Z) (l : list (Z * V)) : option (V * list (Z * V)) :=
  match zlookup k l with
  | Some v => Some (v, dict_remove k l)
  | None => None
  end.

(* {}; for (k, v) in l: d[k] = v *)
Definition dict_of {V} (l : list (Z * V)) : list (Z * V) :=
  fold_left (fun d kv => dict_set (fst kv) (snd kv) d) l [].

Definition memz (x : Z) (l : list Z) : bool := existsb (Z.eqb x) l.

(* set(l) for a list of ints, as a duplicate-free list (first occurrences, in order) *)
Fixpoint dedup (l : list Z) : list Z :=
  match l with
  | [] => []
  | x :: r => if memz x r then dedup r else x :: dedup r
  end.

(* len(set(a).difference(set(b))) *)
Definition diff_count (a b : list Z) : Z :=
  Z.of_nat (length (filter (fun x => negb (memz x b)) (dedup a))).

(* ------------------------------------------------------------------------------------------ *)
(* Structure: what encode_bipartitions() does to the tree itself *)

(* collapse_basal_bifurcation: to_keep.edge.length += to_del_edge.length   inside try/except: a None
   on either side leaves to_keep's length as it was - so a removed length is DROPPED when the kept edge
   has none (finding basal-collapse-drops-length-onto-missing).  mg = true is the repaired form (the
   removed length is taken over, as unifurcation suppression does); the harness finds out which form
   the working tree has by probing it. *)
Definition add_len (mg : bool) (keep del : option Z) : option Z :=
  match keep, del with
  | Some x, Some y => Some (x + y)
  | None, Some y => if mg then Some y else None
  | _, _ => keep
  end.

(* unifurcation suppression: if head.length is not None:
       child.length = head.length if child.length is None else child.length + head.length *)
Definition merge_len (head child : option Z) : option Z :=
  match head with
  | None => child
  | Some h => match child with None => Some h | Some c => Some (c + h) end
  end.

Definition set_len (t : tree) (e : option Z) : tree :=
  match t with T i x l _ ks => T i x l e ks end.

Definition nkids (t : tree) : nat := length (t_kids t).

(* Tree.collapse_basal_bifurcation(): new tree and the node taken out (id, its edge length) *)
Definition collapse_basal (mg : bool) (t : tree) : tree * option (Z * option Z) :=
  match t with
  | T i x l e [c0; c1] =>
    if Nat.leb 2 (nkids c1) then
      (T i x l e (set_len c0 (add_len mg (t_len c0) (t_len c1)) :: t_kids c1), Some (t_id c1, t_len c1))
    else if Nat.leb 2 (nkids c0) then
      (T i x l e (t_kids c0 ++ [set_len c1 (add_len mg (t_len c1) (t_len c0))]), Some (t_id c0, t_len c0))
    else (t, None)
  | _ => (t, None)
  end.

(* the suppress_unifurcations branch of the post-order loop of encode_bipartitions: a node with
   exactly one child is replaced by that child (already processed), lengths merged downwards;
   a unifurcating seed hands the seed role to its child *)
Fixpoint suppress (t : tree) : tree :=
  match t with
  | T i x l e ks =>
    match map suppress ks with
    | [k] => set_len k (merge_len e (t_len k))
    | ks' => T i x l e ks'
    end
  end.

(* the nodes taken out by `suppress` with their (unchanged) edge lengths *)
Fixpoint suppressed (t : tree) : list (Z * option Z) :=
  match t with
  | T i _ _ e ks =>
    flat_map suppressed ks ++ (match ks with [_] => [(i, e)] | _ => [] end)
  end.

Definition is_true (r : option bool) : bool := match r with Some true => true | _ => false end.

(* (tree, _is_rooted) *)
Definition struct := (tree * option bool)%type.

(* step 1 of encode_bipartitions: `collapse_unrooted_basal_bifurcation and not self._is_rooted and
   len(seed_node._child_nodes) == 2` -> collapse_basal_bifurcation() (sets is_rooted = False only
   when it really collapses) *)
Definition basal_step (mg : bool) (s : struct) : struct * list (Z * option Z) :=
  let '(t, r) := s in
  if negb (is_true r) && Nat.eqb (nkids t) 2 then
    match collapse_basal mg t with
    | (t', Some d) => ((t', Some false), [d])
    | (_, None) => (s, [])
    end
  else (s, []).

(* the structure encode_bipartitions() leaves behind *)
Definition normalise (mg : bool) (s : struct) : struct :=
  let s1 := fst (basal_step mg s) in (suppress (fst s1), snd s1).

(* nodes (edges) that encode_bipartitions() takes out of the tree *)
Definition removed_by_encode (mg : bool) (s : struct) : list (Z * option Z) :=
  let '(s1, d) := basal_step mg s in d ++ suppressed (fst s1).

(* ------------------------------------------------------------------------------------------ *)
(* Bitmasks *)

Definition acc_map := list (Z * Z).     (* taxon -> accession index of the namespace *)

Definition taxon_mask (acc : acc_map) (x : option Z) : Z :=
  match x with
  | Some tx => match zlookup tx acc with Some i => Z.shiftl 1 i | None => 0 end
  | None => 0
  end.

(* edge.bipartition._leafset_bitmask *)
Fixpoint lmask (acc : acc_map) (t : tree) : Z :=
  match t with
  | T _ x _ _ [] => taxon_mask acc x
  | T _ _ _ _ ks => fold_right (fun k m => Z.lor (lmask acc k) m) 0 ks
  end.

(* every leaf taxon is a member of the namespace (otherwise taxon_bitmask raises KeyError) *)
Definition taxa_known (acc : acc_map) (t : tree) : bool :=
  forallb (fun x => match x with
                    | Some tx => match zlookup tx acc with Some _ => true | None => false end
                    | None => true end) (leaf_taxa t).

(* post-order nodes (= edges): (head node id, (leafset mask, (edge length, is the seed edge))) *)
Fixpoint pnodes (acc : acc_map) (isroot : bool) (t : tree) : list (Z * (Z * (option Z * bool))) :=
  match t with
  | T i _ _ e ks => flat_map (pnodes acc false) ks ++ [(i, (lmask acc t, (e, isroot)))]
  end.

(* Bipartition.compile_split_bitmask *)
Definition split_of (rooted : option bool) (tm m : Z) : Z :=
  if is_true rooted then m
  else py_normalize_bitmask m tm (py_least_significant_set_bit tm).

(* the encoding of an (already normalised) structure: post-order (split mask, head node id) *)
Definition enc_pairs (acc : acc_map) (s : struct) : list (Z * Z) :=
  let tm := lmask acc (fst s) in
  map (fun n => (split_of (snd s) tm (fst (snd n)), fst n)) (pnodes acc true (fst s)).

(* ------------------------------------------------------------------------------------------ *)
(* Per-tree state *)

Record tstate := mkTS {
  ts_ns : Z;                                (* identity of tree.taxon_namespace *)
  ts_tree : tree;                           (* nodes reachable from seed_node *)
  ts_rooted : option bool;                  (* Tree._is_rooted *)
  ts_det : list (Z * (option Z * bool));    (* edges of nodes no longer in the tree:
                                               (length, tail_node is None) *)
  ts_ebip : list (Z * Z);                   (* head node id -> split mask of edge.bipartition *)
  ts_frozen : bool;                         (* the Bipartitions made by the last encode are immutable
                                               (compile_split_bitmask returns early, leaving them
                                               mutable = unhashable, when the tree's leafset mask is 0) *)
  ts_enc : option (list Z);                 (* Tree.bipartition_encoding (split masks) *)
  ts_bmap : option (list (Z * Z))           (* Tree._bipartition_edge_map: split mask -> edge *)
}.

Definition ts_struct (st : tstate) : struct := (ts_tree st, ts_rooted st).

(* a tree on which nothing was ever computed *)
Definition fresh (ns : Z) (s : struct) : tstate :=
  mkTS ns (fst s) (snd s) [] [] true None None.

(* edge.bipartition = Bipartition(...) for every edge of the encoding: the new bindings shadow
   the old ones *)
Definition ebip_update (new : list (Z * Z)) (old : list (Z * Z)) : list (Z * Z) :=
  map (fun mi => (snd mi, fst mi)) new ++ old.

(* Tree.encode_bipartitions() *)
Definition encode_st (mg : bool) (acc : acc_map) (st : tstate) : res tstate :=
  if negb (taxa_known acc (ts_tree st)) then Err KeyErr else
  let s := ts_struct st in
  let s' := normalise mg s in
  let pairs := enc_pairs acc s' in
  let gone := map (fun d => (fst d, (snd d, true))) (removed_by_encode mg s) in
  Ok (mkTS (ts_ns st) (fst s') (snd s') (gone ++ ts_det st)
           (ebip_update pairs (ts_ebip st))
           (negb (Z.eqb (lmask acc (fst s')) 0))
           (Some (map fst pairs))
           None).

(* (edge.length, edge.tail_node is None) of the edge whose head node is `i` *)
Definition edge_info (acc : acc_map) (st : tstate) (i : Z) : res (option Z * bool) :=
  match zlookup i (pnodes acc true (ts_tree st)) with
  | Some x => Ok (snd x)
  | None => match zlookup i (ts_det st) with Some x => Ok x | None => Err OtherErr end
  end.

Definition is_nil {A} (l : list A) : bool := match l with [] => true | _ => false end.

Definition falsy {A} (o : option (list A)) : bool :=
  match o with None => true | Some l => is_nil l end.

(* for edge in postorder_edge_iter(): map[edge.bipartition] = edge *)
Fixpoint build_bmap (ebip : list (Z * Z)) (ids : list Z) (d : list (Z * Z)) : res (list (Z * Z)) :=
  match ids with
  | [] => Ok d
  | i :: r =>
    match zlookup i ebip with
    | None => Err AssertErr    (* Edge.bipartition makes a fresh mutable Bipartition: hashing asserts *)
    | Some m => build_bmap ebip r (dict_set m i d)
    end
  end.

(* Tree.bipartition_edge_map (property _get_bipartition_edge_map) *)
Definition get_bmap (mg : bool) (acc : acc_map) (st : tstate) : res (list (Z * Z)) * tstate :=
  if negb (falsy (ts_bmap st)) then
    (match ts_bmap st with Some m => Ok m | None => Err OtherErr end, st)
  else
    match (if falsy (ts_enc st) then encode_st mg acc st else Ok st) with
    | Err e => (Err e, st)
    | OutOfFuel => (OutOfFuel, st)
    | Ok st1 =>
      if negb (ts_frozen st1) then (Err AssertErr, st1) else
      match build_bmap (ts_ebip st1) (map fst (pnodes acc true (ts_tree st1))) [] with
      | Ok m => (Ok m, mkTS (ts_ns st1) (ts_tree st1) (ts_rooted st1) (ts_det st1) (ts_ebip st1)
                          (ts_frozen st1) (ts_enc st1) (Some m))
      | Err e => (Err e, st1)
      | OutOfFuel => (OutOfFuel, st1)
      end
    end.

(* ------------------------------------------------------------------------------------------ *)
(* World: the trees of a case *)

Record world := mkW {
  w_acc : acc_map;
  w_trees : list tstate
}.

Definition get_t (w : world) (a : nat) : res tstate :=
  match nth_error (w_trees w) a with Some st => Ok st | None => Err IndexErr end.

Fixpoint list_set {A} (l : list A) (n : nat) (x : A) : list A :=
  match l, n with
  | [], _ => []
  | _ :: r, O => x :: r
  | y :: r, S m => y :: list_set r m x
  end.

Definition set_t (w : world) (a : nat) (st : tstate) : world :=
  mkW (w_acc w) (list_set (w_trees w) a st).

(* results thread the world through errors: an exception does not undo earlier mutation *)
Definition wres (A : Type) := (res A * world)%type.

Definition wbind {A B} (r : wres A) (f : A -> world -> wres B) : wres B :=
  match r with
  | (Ok a, w) => f a w
  | (Err e, w) => (Err e, w)
  | (OutOfFuel, w) => (OutOfFuel, w)
  end.

Definition encode_at (mg : bool) (w : world) (a : nat) : wres unit :=
  match get_t w a with
  | Ok st => match encode_st mg (w_acc w) st with
             | Ok st' => (Ok tt, set_t w a st')
             | Err e => (Err e, w)
             | OutOfFuel => (OutOfFuel, w)
             end
  | Err e => (Err e, w)
  | OutOfFuel => (OutOfFuel, w)
  end.

Definition enc_is_none (w : world) (a : nat) : bool :=
  match get_t w a with
  | Ok st => match ts_enc st with None => true | Some _ => false end
  | _ => false
  end.

(* the common prologue of every public function:
     if tree1.taxon_namespace is not tree2.taxon_namespace: raise TaxonNamespaceIdentityError (a ValueError)
     if not is_bipartitions_updated: tree1.encode_bipartitions(); tree2.encode_bipartitions()
     else: encode each tree whose bipartition_encoding is None *)
Definition prologue (mg : bool) (w : world) (a b : nat) (upd : bool) : wres unit :=
  match get_t w a, get_t w b with
  | Ok sa, Ok sb =>
    if negb (Z.eqb (ts_ns sa) (ts_ns sb)) then (Err ValueErr, w)
    else if negb upd then
      wbind (encode_at mg w a) (fun _ w1 => encode_at mg w1 b)
    else
      wbind (if enc_is_none w a then encode_at mg w a else (Ok tt, w))
            (fun _ w1 => if enc_is_none w1 b then encode_at mg w1 b else (Ok tt, w1))
  | Err e, _ => (Err e, w)
  | _, Err e => (Err e, w)
  | _, _ => (OutOfFuel, w)
  end.

(* tree.bipartition_encoding after the prologue; hashable = may be put into a set *)
Definition enc_at (w : world) (a : nat) : res (list Z * bool) :=
  match get_t w a with
  | Ok st => match ts_enc st with
             | Some l => Ok (l, ts_frozen st)
             | None => Err TypeErr        (* set(None); unreachable after the prologue *)
             end
  | Err e => Err e
  | OutOfFuel => OutOfFuel
  end.

(* false_positives_and_negatives(reference = a, comparison = b) *)
Definition do_fpfn (mg : bool) (w : world) (a b : nat) (upd : bool) : wres (Z * Z) :=
  wbind (prologue mg w a b upd) (fun _ w1 =>
    match enc_at w1 a, enc_at w1 b with
    | Ok (ra, ha), Ok (cb, hb) =>
      if (negb ha && negb (is_nil ra)) || (negb hb && negb (is_nil cb)) then (Err AssertErr, w1)
      else (Ok (diff_count cb ra, diff_count ra cb), w1)
    | Err e, _ => (Err e, w1)
    | _, Err e => (Err e, w1)
    | _, _ => (OutOfFuel, w1)
    end).

(* symmetric_difference = unweighted_robinson_foulds_distance = Tree.symmetric_difference *)
Definition do_symdiff (mg : bool) (w : world) (a b : nat) (upd : bool) : wres Z :=
  wbind (do_fpfn mg w a b upd) (fun t w1 => (Ok (fst t + snd t), w1)).

(* find_missing_bipartitions(reference = a, comparison = b): list membership uses __eq__ only *)
Definition do_missing (mg : bool) (w : world) (a b : nat) (upd : bool) : wres (list Z) :=
  wbind (prologue mg w a b upd) (fun _ w1 =>
    match enc_at w1 a, enc_at w1 b with
    | Ok (ra, _), Ok (cb, _) => (Ok (filter (fun m => negb (memz m cb)) ra), w1)
    | Err e, _ => (Err e, w1)
    | _, Err e => (Err e, w1)
    | _, _ => (OutOfFuel, w1)
    end).

(* ------------------------------------------------------------------------------------------ *)
(* _get_length_diffs *)

(* How a missing (None) edge length is treated.  Current is the code as it stands; the other two
   are the two candidate repairs of its asymmetry (see Props/C04.v, defined_sym and defined_sym_refuted): the harness
   finds out which one the working tree implements by probing it. *)
Inductive policy := Current | ZeroBoth | RefuseBoth.

(* value of an edge whose length may be missing, on the side the current code does not guard:
     elen = getattr(edge, "length"); if elen is None: elen = 0
   RefuseBoth guards it like the other side. *)
Definition lenient_value (p : policy) (x : option Z * bool) : res Z :=
  match fst x with
  | Some v => Ok v
  | None => match p with
            | RefuseBoth => if snd x then Ok 0 else Err ValueErr
            | _ => Ok 0
            end
  end.

(* the guarded side:
     if elen is None:
         if e.tail_node is None: elen = 0.0      # allow root edge ...
         else: raise ValueError(...) *)
Definition strict_value (p : policy) (x : option Z * bool) : res Z :=
  match fst x with
  | Some v => Ok v
  | None => match p with
            | ZeroBoth => Ok 0
            | _ => if snd x then Ok 0 else Err ValueErr
            end
  end.

Section Loops.
  Context {X : Type}.
  Variable p : policy.
  Variable info1 info2 : X -> res (option Z * bool).   (* edge -> (length, tail_node is None) *)

  (* first loop: over tree1's map (named tree2_bipartition_edge_map in the source), popping from a
     copy of tree2's map (named tree1_bipartition_edge_map) *)
  Fixpoint loop1 (m1 : list (Z * X)) (m2 : list (Z * X)) (out : list (Z * Z))
    : res (list (Z * Z) * list (Z * X)) :=
    match m1 with
    | [] => Ok (out, m2)
    | (k, e1) :: r =>
      do i1 <- info1 e1 ;;
      do v1 <- lenient_value p i1 ;;
      match dict_pop k m2 with
      | Some (e2, m2') =>
        do i2 <- info2 e2 ;;
        do v2 <- strict_value p i2 ;;
        loop1 r m2' (out ++ [(v1, v2)])
      | None =>
        loop1 r m2 (out ++ [(v1, 0)])
      end
    end.

  (* second loop: over what is left of tree2's map, looking the split up in tree1's map again *)
  Fixpoint loop2 (m1 : list (Z * X)) (rest : list (Z * X)) (out : list (Z * Z))
    : res (list (Z * Z)) :=
    match rest with
    | [] => Ok out
    | (k, e2) :: r =>
      do i2 <- info2 e2 ;;
      do v2 <- lenient_value p i2 ;;
      match zlookup k m1 with
      | None => loop2 m1 r (out ++ [(0, v2)])
      | Some e1 =>
        (* this guard is still in the source for every form of the first loop (it cannot fire: the split
           was popped from the copy if tree1 has it) *)
        do i1 <- info1 e1 ;;
        do v1 <- strict_value Current i1 ;;
        loop2 m1 r (out ++ [(v1, v2)])
      end
    end.

  Definition length_diffs (m1 m2 : list (Z * X)) : res (list (Z * Z)) :=
    do x <- loop1 m1 m2 [] ;;
    loop2 m1 (snd x) (fst x).
End Loops.

Definition bmap_at (mg : bool) (w : world) (a : nat) : wres (list (Z * Z)) :=
  match get_t w a with
  | Ok st => let '(r, st') := get_bmap mg (w_acc w) st in (r, set_t w a st')
  | Err e => (Err e, w)
  | OutOfFuel => (OutOfFuel, w)
  end.

Definition info_at (w : world) (a : nat) (i : Z) : res (option Z * bool) :=
  do st <- get_t w a ;; edge_info (w_acc w) st i.

(* _get_length_diffs(tree1 = a, tree2 = b) *)
Definition do_length_diffs (mg : bool) (p : policy) (w : world) (a b : nat) (upd : bool) : wres (list (Z * Z)) :=
  wbind (prologue mg w a b upd) (fun _ w1 =>
  wbind (bmap_at mg w1 b) (fun m2 w2 =>          (* dict(tree2.bipartition_edge_map) *)
  wbind (bmap_at mg w2 a) (fun m1 w3 =>          (* tree1.bipartition_edge_map *)
    (length_diffs p (info_at w3 a) (info_at w3 b) m1 m2, w3)))).

Definition sum_abs (l : list (Z * Z)) : Z := fold_right (fun d s => Z.abs (fst d - snd d) + s) 0 l.
Definition sum_sq (l : list (Z * Z)) : Z :=
  fold_right (fun d s => (fst d - snd d) * (fst d - snd d) + s) 0 l.

(* weighted_robinson_foulds_distance = robinson_foulds_distance = Tree.robinson_foulds_distance *)
Definition do_wrf (mg : bool) (p : policy) (w : world) (a b : nat) (upd : bool) : wres Z :=
  wbind (do_length_diffs mg p w a b upd) (fun l w1 => (Ok (sum_abs l), w1)).

(* euclidean_distance ** 2 *)
Definition do_euclid_sq (mg : bool) (p : policy) (w : world) (a b : nat) (upd : bool) : wres Z :=
  wbind (do_length_diffs mg p w a b upd) (fun l w1 => (Ok (sum_sq l), w1)).

(* ------------------------------------------------------------------------------------------ *)
(* Operations of a case *)

Inductive op :=
| OpEdit (a : nat) (t : tree) (r : option bool) (det : list (Z * (option Z * bool)))
         (enc_reset bmap_reset : bool)
    (* a structural edit made by code outside this model (child swap, Edge.collapse, reseed_at,
       length / rooting assignment): the harness reports the structure it leaves behind; caches
       stay as they were unless the edit was seen to reset them *)
| OpEncode (a : nat)
| OpFpFn (a b : nat) (upd : bool)
| OpSymDiff (a b : nat) (upd : bool)
| OpMissing (a b : nat) (upd : bool)
| OpWRF (a b : nat) (upd : bool)
| OpEuclid (a b : nat) (upd : bool).

Inductive out :=
| OUnit
| OInt (z : Z)
| OPair (fp fn : Z)
| OMasks (l : list Z)
| OErr (e : err)
| OFuel.

Definition to_out {A} (f : A -> out) (r : res A) : out :=
  match r with Ok a => f a | Err e => OErr e | OutOfFuel => OFuel end.

Definition step (mg : bool) (p : policy) (w : world) (o : op) : out * world :=
  match o with
  | OpEdit a t r det er br =>
    match get_t w a with
    | Ok st => (OUnit, set_t w a (mkTS (ts_ns st) t r det (ts_ebip st) (ts_frozen st)
                                       (if er then None else ts_enc st)
                                       (if br then None else ts_bmap st)))
    | Err e => (OErr e, w)
    | OutOfFuel => (OFuel, w)
    end
  | OpEncode a =>
    let '(r, w1) := encode_at mg w a in
    (match r with
     | Ok _ => to_out (fun x => OMasks (fst x)) (enc_at w1 a)
     | Err e => OErr e
     | OutOfFuel => OFuel
     end, w1)
  | OpFpFn a b upd => let '(r, w1) := do_fpfn mg w a b upd in (to_out (fun x => OPair (fst x) (snd x)) r, w1)
  | OpSymDiff a b upd => let '(r, w1) := do_symdiff mg w a b upd in (to_out OInt r, w1)
  | OpMissing a b upd => let '(r, w1) := do_missing mg w a b upd in (to_out OMasks r, w1)
  | OpWRF a b upd => let '(r, w1) := do_wrf mg p w a b upd in (to_out OInt r, w1)
  | OpEuclid a b upd => let '(r, w1) := do_euclid_sq mg p w a b upd in (to_out OInt r, w1)
  end.

(* ------------------------------------------------------------------------------------------ *)
(* The case record of the correspondence check *)

Definition out_eqb (x y : out) : bool :=
  match x, y with
  | OUnit, OUnit => true
  | OInt a, OInt b => Z.eqb a b
  | OPair a b, OPair c d => Z.eqb a c && Z.eqb b d
  | OMasks a, OMasks b => list_eqb Z.eqb a b
  | OErr a, OErr b => err_eqb a b
  | OFuel, OFuel => true
  | _, _ => false
  end.

Definition orooted_eqb (a b : option bool) : bool := option_eqb Bool.eqb a b.

(* expected observation of one step: the result and, for every tree whose dumped structure
   differs from the dump before the step, the new dump (tree, is_rooted) *)
Definition expect := (out * list (nat * (tree * option bool)))%type.

Record case := mkCase {
  c_policy : policy;
  c_mg : bool;
  c_acc : acc_map;
  c_trees : list (Z * (tree * option bool));     (* namespace id, structure *)
  c_ops : list op;
  c_expect : list expect
}.

Fixpoint alookup_nat {V} (k : nat) (l : list (nat * V)) : option V :=
  match l with
  | [] => None
  | (k', v) :: r => if Nat.eqb k k' then Some v else alookup_nat k r
  end.

Definition struct_eqb (a b : struct) : bool :=
  tree_eqb (fst a) (fst b) && orooted_eqb (snd a) (snd b).

(* after a step: listed trees have the listed structure, all others kept theirs (an edit op
   always lists its tree) *)
Fixpoint structs_ok (i : nat) (before after : list tstate) (ch : list (nat * struct)) : bool :=
  match before, after with
  | [], [] => true
  | sb :: rb, sa :: ra =>
    (match alookup_nat i ch with
     | Some s => struct_eqb (ts_struct sa) s
     | None => struct_eqb (ts_struct sa) (ts_struct sb)
     end) && structs_ok (S i) rb ra ch
  | _, _ => false
  end.

Definition is_edit (o : op) : bool := match o with OpEdit _ _ _ _ _ _ => true | _ => false end.

Fixpoint run_ok (mg : bool) (p : policy) (w : world) (ops : list op) (ex : list expect) : bool :=
  match ops, ex with
  | [], [] => true
  | o :: ro, (eo, ch) :: re =>
    let '(r, w1) := step mg p w o in
    out_eqb r eo
    && (if is_edit o then true else structs_ok 0 (w_trees w) (w_trees w1) ch)
    && run_ok mg p w1 ro re
  | _, _ => false
  end.

Definition init_world (c : case) : world :=
  mkW (c_acc c) (map (fun x => fresh (fst x) (snd x)) (c_trees c)).

Definition case_ok (c : case) : bool := run_ok (c_mg c) (c_policy c) (init_world c) (c_ops c) (c_expect c).

(* diagnostics for replays: what the model computes *)
Fixpoint run_show (mg : bool) (p : policy) (w : world) (ops : list op) : list (out * list struct) :=
  match ops with
  | [] => []
  | o :: ro => let '(r, w1) := step mg p w o in (r, map ts_struct (w_trees w1)) :: run_show mg p w1 ro
  end.

Definition case_run (c : case) : list (out * list struct) :=
  run_show (c_mg c) (c_policy c) (init_world c) (c_ops c).

(* ------------------------------------------------------------------------------------------ *)
(* The functions as a client sees them: two (three) freshly built trees over one namespace,
   default arguments.  Props/C04.v states the property about these; `default_args_fresh` there
   shows that the default-argument calls on ANY world state compute exactly these. *)

Definition world2 (acc : acc_map) (s1 s2 : struct) : world := mkW acc [fresh 0 s1; fresh 0 s2].

Definition fpfn (mg : bool) (acc : acc_map) (s1 s2 : struct) : res (Z * Z) := fst (do_fpfn mg (world2 acc s1 s2) 0 1 false).
Definition rf (mg : bool) (acc : acc_map) (s1 s2 : struct) : res Z := fst (do_symdiff mg (world2 acc s1 s2) 0 1 false).
Definition missing (mg : bool) (acc : acc_map) (s1 s2 : struct) : res (list Z) := fst (do_missing mg (world2 acc s1 s2) 0 1 false).
Definition wrf (mg : bool) (p : policy) (acc : acc_map) (s1 s2 : struct) : res Z := fst (do_wrf mg p (world2 acc s1 s2) 0 1 false).
Definition euclid_sq (mg : bool) (p : policy) (acc : acc_map) (s1 s2 : struct) : res Z :=
  fst (do_euclid_sq mg p (world2 acc s1 s2) 0 1 false).

(* the split set and the per-split edge lengths of a structure, as encode_bipartitions() sees it:
   post-order list of (split mask, (edge length, is the seed edge)) of the normalised tree *)
Definition entries_n (acc : acc_map) (s : struct) : list (Z * (option Z * bool)) :=
  let tm := lmask acc (fst s) in
  map (fun n => (split_of (snd s) tm (fst (snd n)), snd (snd n))) (pnodes acc true (fst s)).

Definition entries (mg : bool) (acc : acc_map) (s : struct) : list (Z * (option Z * bool)) :=
  entries_n acc (normalise mg s).

Definition splits (mg : bool) (acc : acc_map) (s : struct) : list Z := map fst (entries mg acc s).

(* length of the (first) edge carrying split m; a split that is absent, or whose edge has no
   length, counts 0 *)
Definition split_len (mg : bool) (acc : acc_map) (s : struct) (m : Z) : Z :=
  match zlookup m (entries mg acc s) with
  | Some (Some v, _) => v
  | _ => 0
  end.

(* the domain of the property as a check on the tree as given (before any normalisation): every
   leaf taxon is a member of the namespace, the leaves carry at least one taxon, node identities
   are distinct *)
Fixpoint nodupb (l : list Z) : bool :=
  match l with
  | [] => true
  | x :: r => negb (memz x r) && nodupb r
  end.

Definition well_formed (acc : acc_map) (s : struct) : bool :=
  taxa_known acc (fst s) && negb (Z.eqb (lmask acc (fst s)) 0) && nodupb (map t_id (postorder (fst s))).
