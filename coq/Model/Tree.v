(* Shared specification-level trees: id-carrying rose trees.

   id     : object identity of the Node (harness numbers nodes; new nodes get fresh ids)
   taxon  : option taxon-id  (accession-independent identity of the Taxon object)
   label  : option label-id
   len    : option Z   edge length of the edge subtending the node, in a fixed dyadic unit
            (the harness only generates lengths k * 2^-10 with small k, for which binary64
            arithmetic (+,-) is exact; None is Python None)
   kids   : children, left to right *)
From Coq Require Import ZArith List Bool Lia.
Import ListNotations.
Open Scope Z_scope.

Inductive tree : Type :=
| T (id : Z) (taxon : option Z) (label : option Z) (len : option Z) (kids : list tree).

Definition t_id (t : tree) := match t with T i _ _ _ _ => i end.
Definition t_taxon (t : tree) := match t with T _ x _ _ _ => x end.
Definition t_label (t : tree) := match t with T _ _ l _ _ => l end.
Definition t_len (t : tree) := match t with T _ _ _ l _ => l end.
Definition t_kids (t : tree) := match t with T _ _ _ _ k => k end.
Definition is_leaf (t : tree) : bool := match t_kids t with [] => true | _ => false end.

(* nested induction principle *)
Section TreeInd.
  Variable P : tree -> Prop.
  Hypothesis H : forall i x l e ks, Forall P ks -> P (T i x l e ks).
  Fixpoint tree_ind' (t : tree) : P t :=
    match t with
    | T i x l e ks =>
      H i x l e ks
        ((fix go (ks : list tree) : Forall P ks :=
            match ks with
            | [] => Forall_nil P
            | k :: r => Forall_cons k (tree_ind' k) (go r)
            end) ks)
    end.
End TreeInd.

Fixpoint size (t : tree) : nat :=
  match t with T _ _ _ _ ks => S (fold_right (fun k n => (size k + n)%nat) O ks) end.

Definition sizes (l : list tree) : nat := fold_right (fun k n => (size k + n)%nat) O l.

Lemma size_eq i x l e ks : size (T i x l e ks) = S (sizes ks).
Proof. reflexivity. Qed.

Lemma sizes_cons k r : sizes (k :: r) = (size k + sizes r)%nat.
Proof. reflexivity. Qed.

Lemma sizes_app a b : sizes (a ++ b) = (sizes a + sizes b)%nat.
Proof. induction a as [|k r IH]; simpl; [reflexivity|]. unfold sizes in *. simpl. rewrite IH. lia. Qed.

Lemma sizes_rev a : sizes (rev a) = sizes a.
Proof. induction a as [|k r IH]; simpl; [reflexivity|]. rewrite sizes_app, IH. simpl. unfold sizes. simpl. lia. Qed.

Lemma size_pos t : (0 < size t)%nat.
Proof. destruct t; simpl; lia. Qed.

(* structural traversal specifications *)
Fixpoint preorder (t : tree) : list tree :=
  match t with T _ _ _ _ ks => t :: flat_map preorder ks end.

Fixpoint postorder (t : tree) : list tree :=
  match t with T _ _ _ _ ks => flat_map postorder ks ++ [t] end.

Fixpoint leaves (t : tree) : list tree :=
  match t with
  | T _ _ _ _ [] => [t]
  | T _ _ _ _ ks => flat_map leaves ks
  end.

Definition ids (t : tree) : list Z := map t_id (preorder t).

Fixpoint leaf_taxa (t : tree) : list (option Z) :=
  match t with
  | T _ x _ _ [] => [x]
  | T _ _ _ _ ks => flat_map leaf_taxa ks
  end.

Fixpoint height (t : tree) : nat :=
  match t with T _ _ _ _ ks => S (fold_right (fun k n => Nat.max (height k) n) O ks) end.

(* boolean equality (for the correspondence check) *)
Definition oz_eqb (a b : option Z) : bool :=
  match a, b with Some x, Some y => Z.eqb x y | None, None => true | _, _ => false end.

Fixpoint tree_eqb (a b : tree) : bool :=
  match a, b with
  | T i x l e ks, T i' x' l' e' ks' =>
    Z.eqb i i' && oz_eqb x x' && oz_eqb l l' && oz_eqb e e' &&
    (fix go (p q : list tree) : bool :=
       match p, q with
       | [], [] => true
       | a1 :: r1, b1 :: r2 => tree_eqb a1 b1 && go r1 r2
       | _, _ => false
       end) ks ks'
  end.

Lemma oz_eqb_eq a b : oz_eqb a b = true <-> a = b.
Proof.
  destruct a, b; simpl; split; intro E; try discriminate; try reflexivity.
  - apply Z.eqb_eq in E. subst. reflexivity.
  - inversion E. apply Z.eqb_refl.
Qed.

Lemma tree_eqb_eq : forall a b, tree_eqb a b = true <-> a = b.
Proof.
  induction a as [i x l e ks IH] using tree_ind'. intros [i' x' l' e' ks']. simpl.
  rewrite !andb_true_iff, Z.eqb_eq, !oz_eqb_eq.
  assert (G : forall q,
    (fix go (p q : list tree) : bool :=
       match p, q with
       | [], [] => true
       | a1 :: r1, b1 :: r2 => tree_eqb a1 b1 && go r1 r2
       | _, _ => false
       end) ks q = true <-> ks = q).
  { induction IH as [|k r Hk Hr IHr]; intros [|b1 r2]; split; intro E; try reflexivity; try discriminate.
    - apply andb_true_iff in E. destruct E as [E1 E2]. apply Hk in E1. apply IHr in E2. subst. reflexivity.
    - inversion E; subst. apply andb_true_iff. split; [apply Hk; reflexivity | apply IHr; reflexivity]. }
  rewrite G. split.
  - intros [[[[-> ->] ->] ->] ->]. reflexivity.
  - intro E. inversion E; subst. repeat split; reflexivity.
Qed.
