(* C14, sixth wave: specification-level definitions for the uniqueness of the (unrooted, weighted)
   tree realising a metric: the edges of a tree with rational lengths as weighted splits of its taxa *)
From Coq Require Import ZArith QArith List Bool.
From DV Require Import Model.PyPrims Model.Tree Model.C14Model Model.C14Spec Model.C14Spec2.
Import ListNotations.
Open Scope Z_scope.

(* the nodes of t other than its root, each given as the subtree hanging from it; the edge above such a
   node m has length qlen0 m *)
Fixpoint qnodes (t : qtree) : list qtree :=
  match t with QT _ _ _ ks => flat_map (fun k => k :: qnodes k) ks end.

(* the taxa below a node, as a predicate: one side of the split induced by the edge above it *)
Definition qcl (m : qtree) (x : Z) : bool := qhas x m.

(* every leaf of t (t itself included) carries a taxon *)
Definition qleaves_ok (t : qtree) : Prop :=
  forall m, In m (t :: qnodes t) -> q_kids m = [] -> q_taxon m <> None.

(* two predicates describe the same bipartition of the taxa in L: they agree on L, or one is the
   complement of the other on L *)
Definition same_split (L : list Z) (s c : Z -> bool) : bool :=
  forallb (fun x => Bool.eqb (s x) (c x)) L || forallb (fun x => Bool.eqb (s x) (negb (c x))) L.

(* both sides of the bipartition of L are inhabited *)
Definition proper_split (L : list Z) (s : Z -> bool) : Prop :=
  (exists x, In x L /\ s x = true) /\ (exists y, In y L /\ s y = false).

(* the total length of the edges of t that induce the bipartition s of t's taxa (0 when there is none).
   Edges in series -- the two edges at a root with two children, the edges around a node with one
   child -- induce the same bipartition and are counted together: this is the length of the edge of
   the UNROOTED tree with unifurcations suppressed. *)
Definition split_len (t : qtree) (s : Z -> bool) : Q :=
  qsum (map (fun m => if same_split (qtaxa t) s (qcl m) then qlen0 m else 0%Q) (qnodes t)).

(* no bipartition carries a negative total length (implied by: no edge has a negative length) *)
Definition split_nonneg (t : qtree) : Prop :=
  forall m, In m (qnodes t) -> proper_split (qtaxa t) (qcl m) -> (0 <= split_len t (qcl m))%Q.

(* the triangle inequality on distinct taxa *)
Definition mtriangle (M : tbl Q) (order : list Z) : Prop :=
  forall a b c, In a order -> In b order -> In c order -> a <> b -> a <> c -> b <> c ->
    (mval M a c <= mval M a b + mval M b c)%Q.

(* the positive part of a rational *)
Definition qpos (e : Q) : Q := if Qle_bool 0 e then e else 0%Q.

(* the path distance as a total function (0 where qdist is undefined) *)
Definition qd (t : qtree) (a b : Z) : Q := match qdist t a b with Some q => q | None => 0%Q end.
