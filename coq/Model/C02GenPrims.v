(* Run-time library of the translator py/dv/gen_newick.py (Gen/NewickGen.v).  Definitions only.

   The translator compiles a whitelisted subset of Python, statement by statement, into terms over
   the combinators below.  What is TRUSTED is exactly what this file says about Python:

   * control flow: a statement is a function  S -> flow S R  on the state S = (object * locals):
       FNext  = the statement completed normally
       FBreak = `break`            FRet r = `return r`
       FExc x = an exception propagates (ExStop = StopIteration, ExEos = UnexpectedEndOfStreamError,
                ExErr e = the class of PyPrims.err the raised class derives from; the state at the raise is kept because callers catch
                StopIteration and go on using the object)
       FFuel  = the fuel of a `while` ran out (model artefact; excluded by the equalities proved in
                Proofs/C02Gen*.v)
     s_seq = statement sequence, s_if = if/else, s_while = while (the test is re-evaluated before
     each round, `break` leaves the innermost loop), s_for = for over a list value computed once,
     s_try = try/except on one exception class, s_call = call of another translated method on the
     same object.
   * expressions are evaluated left to right; an expression that can raise has type `res T`
     (PyPrims.res; only Ok / Err are used).  Locals and fields have STATIC types
       str = Python str (list of code points)      ostr = str or None      lstr = list of str
       int = Python int (Z)     bool     cset = a set of one-character strings (list of code points)
     and storing None where a str is required raises TypeError at that point (need_str); the
     equalities are proved for all inputs, so this typing discipline is checked, not assumed.
   * primitive operations, with the Python expression each one stands for, are listed below. *)
From Coq Require Import ZArith List Bool.
From DV Require Import Model.PyPrims Model.Tokenizer Model.Newick.
Import ListNotations.
Open Scope Z_scope.

(* ------------------------------------------------------------------------------------------ *)
(* control flow                                                                                 *)
(* ExEos = Tokenizer.UnexpectedEndOfStreamError, kept apart from the other DataParseErrors because the
   reader catches exactly this class *)
Inductive exc : Type := ExStop | ExEos | ExErr (e : err).
Definition exc_err (x : exc) : err := match x with ExErr e => e | ExEos => ParseErr | ExStop => OtherErr end.

Inductive flow (S R : Type) : Type :=
| FNext (s : S)
| FBreak (s : S)
| FRet (r : R) (s : S)
| FExc (x : exc) (s : S)
| FFuel.
Arguments FNext {S R} _.
Arguments FBreak {S R} _.
Arguments FRet {S R} _ _.
Arguments FExc {S R} _ _.
Arguments FFuel {S R}.

(* result of a translated function / method: value and object afterwards *)
Inductive mres (O A : Type) : Type :=
| MRet (a : A) (o : O)
| MExc (x : exc) (o : O)
| MFuel.
Arguments MRet {O A} _ _.
Arguments MExc {O A} _ _.
Arguments MFuel {O A}.

Section Stmts.
Context {S R : Type}.
Definition stmt := S -> flow S R.

Definition s_skip : stmt := fun s => FNext s.
Definition s_break : stmt := fun s => FBreak s.
Definition s_raise (x : exc) : stmt := fun s => FExc x s.
Definition s_seq (a b : stmt) : stmt :=
  fun s => match a s with FNext s' => b s' | o => o end.
(* assignment statements *)
Definition s_do (f : S -> S) : stmt := fun s => FNext (f s).
Definition s_doe (f : S -> res S) : stmt :=
  fun s => match f s with Ok s' => FNext s' | Err e => FExc (ExErr e) s | OutOfFuel => FFuel end.
Definition s_ret (f : S -> R) : stmt := fun s => FRet (f s) s.
Definition s_rete (f : S -> res R) : stmt :=
  fun s => match f s with Ok r => FRet r s | Err e => FExc (ExErr e) s | OutOfFuel => FFuel end.
Definition s_if (c : S -> bool) (a b : stmt) : stmt := fun s => if c s then a s else b s.
Definition s_ife (c : S -> res bool) (a b : stmt) : stmt :=
  fun s => match c s with Ok true => a s | Ok false => b s | Err e => FExc (ExErr e) s | OutOfFuel => FFuel end.

Fixpoint while_loop (fuel : nat) (c : S -> res bool) (body : stmt) (s : S) : flow S R :=
  match fuel with
  | O => FFuel
  | Datatypes.S f =>
    match c s with
    | Ok true =>
      match body s with
      | FNext s' => while_loop f c body s'
      | FBreak s' => FNext s'
      | o => o
      end
    | Ok false => FNext s
    | Err e => FExc (ExErr e) s
    | OutOfFuel => FFuel
    end
  end.
(* the fuel is computed from the state at loop entry *)
Definition s_whilee (fuel : S -> nat) (c : S -> res bool) (body : stmt) : stmt :=
  fun s => while_loop (fuel s) c body s.
Definition s_while (fuel : S -> nat) (c : S -> bool) (body : stmt) : stmt :=
  s_whilee fuel (fun s => Ok (c s)) body.

(* for x in <list>: body   (the list is evaluated once; `bind x` stores the element in its local) *)
Fixpoint for_loop {X} (l : list X) (bind : X -> S -> S) (body : stmt) (s : S) : flow S R :=
  match l with
  | [] => FNext s
  | x :: r =>
    match body (bind x s) with
    | FNext s' => for_loop r bind body s'
    | FBreak s' => FNext s'
    | o => o
    end
  end.
Definition s_for {X} (l : S -> list X) (bind : X -> S -> S) (body : stmt) : stmt :=
  fun s => for_loop (l s) bind body s.

Definition s_fore {X} (l : S -> res (list X)) (bind : X -> S -> S) (body : stmt) : stmt :=
  fun s => match l s with Ok v => for_loop v bind body s | Err e => FExc (ExErr e) s | OutOfFuel => FFuel end.

(* try: body  except <class>: handler     (`catches x` = the raised class is caught) *)
Definition s_try (body : stmt) (catches : exc -> bool) (handler : stmt) : stmt :=
  fun s => match body s with
           | FExc x s' => if catches x then handler s' else FExc x s'
           | o => o
           end.
End Stmts.

(* self.m(...) on the same object: `store` puts the returned value into the locals *)
Definition s_call {O Lc R A} (m : O -> mres O A) (store : A -> Lc -> Lc) : @stmt (O * Lc) R :=
  fun s => match m (fst s) with
           | MRet a o' => FNext (o', store a (snd s))
           | MExc x o' => FExc x (o', snd s)
           | MFuel => FFuel
           end.
(* return self.m(...) *)
Definition s_call_ret {O Lc A} (m : O -> mres O A) : @stmt (O * Lc) A :=
  fun s => match m (fst s) with
           | MRet a o' => FRet a (o', snd s)
           | MExc x o' => FExc x (o', snd s)
           | MFuel => FFuel
           end.

(* a function body run from its initial state; falling off the end returns `dflt` (None) *)
Definition run {O Lc R} (body : @stmt (O * Lc) R) (s0 : O * Lc) (dflt : R) : mres O R :=
  match body s0 with
  | FNext s | FBreak s => MRet dflt (fst s)
  | FRet r s => MRet r (fst s)
  | FExc x s => MExc x (fst s)
  | FFuel => MFuel
  end.

(* a function whose result is the final value of one of its locals (an in/out parameter) *)
Definition run_f {O Lc R} (body : @stmt (O * Lc) R) (s0 : O * Lc) (final : O * Lc -> R) : mres O R :=
  match body s0 with
  | FNext s | FBreak s => MRet (final s) (fst s)
  | FRet r s => MRet r (fst s)
  | FExc x s => MExc x (fst s)
  | FFuel => MFuel
  end.

Definition catch_stop (x : exc) : bool := match x with ExStop => true | _ => false end.
Definition catch_eos (x : exc) : bool := match x with ExEos => true | _ => false end.
Definition catch_err (e : err) (x : exc) : bool := match x with ExErr e' => err_eqb e e' | _ => false end.

(* ------------------------------------------------------------------------------------------ *)
(* values                                                                                       *)
(* a str-typed position receives an ostr value: None raises TypeError *)
Definition need_str (x : option str) : res str :=
  match x with Some s => Ok s | None => Err TypeErr end.

Definition ostr_eqb (a b : option str) : bool :=                 (* a == b *)
  match a, b with
  | Some x, Some y => str_eqb x y
  | None, None => true
  | _, _ => false
  end.
Definition is_none {A} (x : option A) : bool := match x with None => true | Some _ => false end.   (* x is None *)
Definition ostr_truthy (x : option str) : bool := match x with Some (_ :: _) => true | _ => false end.
Definition str_truthy (x : str) : bool := negb (is_nil x).
Definition obool_truthy (x : option bool) : bool := match x with Some true => true | _ => false end.   (* bool(x), x True/False/None *)
Definition list_truthy {A} (x : list A) : bool := negb (is_nil x).

(* x in cs  for a set cs of one-character strings: None and strings of another length are not members *)
Definition in_cset (x : option str) (cs : list Z) : bool :=
  match x with Some [c] => zmem c cs | _ => false end.

(* x in s  for two strings: substring test *)
Fixpoint prefix_b (x s : str) : bool :=
  match x, s with
  | [], _ => true
  | a :: x', b :: s' => (a =? b) && prefix_b x' s'
  | _ :: _, [] => false
  end.
Fixpoint str_in (x s : str) : bool :=
  prefix_b x s || match s with [] => false | _ :: s' => str_in x s' end.

Definition str_join (sep : str) (l : list str) : str :=           (* sep.join(l) *)
  match l with
  | [] => []
  | p :: r => p ++ flat_map (fun q => sep ++ q) r
  end.

(* s.replace(chr(old), new)  (single-character pattern) *)
Definition replace1 (s : str) (old : Z) (new : str) : str :=
  flat_map (fun c => if c =? old then new else [c]) s.

(* s.split(chr(sep))  (single-character separator): never empty *)
Fixpoint split1_acc (s : str) (sep : Z) (cur : str) : list str :=
  match s with
  | [] => [rev cur]
  | c :: r => if c =? sep then rev cur :: split1_acc r sep [] else split1_acc r sep (c :: cur)
  end.
Definition split1 (s : str) (sep : Z) : list str := split1_acc s sep [].

(* re.search(<one character class>, s) is not None; the class is the generated list of Gen/CharClasses.v *)
Definition re_search_class (cls : list Z) (s : str) : bool := existsb (fun c => zmem c cls) s.

(* ------------------------------------------------------------------------------------------ *)
(* the Tokenizer object                                                                         *)
Record tkst : Type := mkTk {
  k_src : str;                  (* self.src: the characters not yet read *)
  k_cur : option str;           (* self._cur_char: None, "" or one character *)
  k_token : option str;         (* self.current_token *)
  k_quoted : bool;              (* self.is_token_quoted *)
  k_comments : list str;        (* self.captured_comments *)
  k_line : Z; k_col : Z;        (* self.current_line_num, self.current_column_num *)
  k_tline : Z; k_tcol : Z       (* self.token_line_num, self.token_column_num *)
}.

Definition set_k_src (o : tkst) v := mkTk v (k_cur o) (k_token o) (k_quoted o) (k_comments o) (k_line o) (k_col o) (k_tline o) (k_tcol o).
Definition set_k_cur (o : tkst) v := mkTk (k_src o) v (k_token o) (k_quoted o) (k_comments o) (k_line o) (k_col o) (k_tline o) (k_tcol o).
Definition set_k_token (o : tkst) v := mkTk (k_src o) (k_cur o) v (k_quoted o) (k_comments o) (k_line o) (k_col o) (k_tline o) (k_tcol o).
Definition set_k_quoted (o : tkst) v := mkTk (k_src o) (k_cur o) (k_token o) v (k_comments o) (k_line o) (k_col o) (k_tline o) (k_tcol o).
Definition set_k_comments (o : tkst) v := mkTk (k_src o) (k_cur o) (k_token o) (k_quoted o) v (k_line o) (k_col o) (k_tline o) (k_tcol o).
Definition set_k_line (o : tkst) v := mkTk (k_src o) (k_cur o) (k_token o) (k_quoted o) (k_comments o) v (k_col o) (k_tline o) (k_tcol o).
Definition set_k_col (o : tkst) v := mkTk (k_src o) (k_cur o) (k_token o) (k_quoted o) (k_comments o) (k_line o) v (k_tline o) (k_tcol o).
Definition set_k_tline (o : tkst) v := mkTk (k_src o) (k_cur o) (k_token o) (k_quoted o) (k_comments o) (k_line o) (k_col o) v (k_tcol o).
Definition set_k_tcol (o : tkst) v := mkTk (k_src o) (k_cur o) (k_token o) (k_quoted o) (k_comments o) (k_line o) (k_col o) (k_tline o) v.

(* self.src.read(n): the next n characters ("" at the end of the stream), which are consumed *)
Definition src_read (n : nat) (o : tkst) : str * tkst := (firstn n (k_src o), set_k_src o (skipn n (k_src o))).

(* Tokenizer.__init__ / set_stream state for a text *)
Definition tk_init (text : str) : tkst := mkTk text None None false [] 1 0 0 0.

(* fuel of the loops of the tokenizer: every round consumes a character, or is the last one *)
Definition tk_fuel (o : tkst) : nat := Datatypes.S (Datatypes.S (length (k_src o))).

(* ------------------------------------------------------------------------------------------ *)
(* the NexusTaxonSymbolMapper object = Model/Newick.v `mapper`; a Taxon is its namespace position.
   A dict is an association list, most recent assignment first.  `folded` marks the two dicts whose
   class __init__ chooses by case_sensitive (CaseInsensitiveDict: keys compared after str.lower). *)
Definition set_m_tokens (m : mapper) v := mkMapper (m_ns m) v (m_labels m) (m_numbers m) (m_by_number m) (m_case_sensitive m).
Definition set_m_labels (m : mapper) v := mkMapper (m_ns m) (m_tokens m) v (m_numbers m) (m_by_number m) (m_case_sensitive m).
Definition set_m_numbers (m : mapper) v := mkMapper (m_ns m) (m_tokens m) (m_labels m) v (m_by_number m) (m_case_sensitive m).

Section MapPrims.
Variable lower : str -> str.
Definition dict_key (m : mapper) (folded : bool) (k : str) : str := if folded then m_key lower m k else k.
(* d[k]: KeyError when absent *)
Definition map_getitem (m : mapper) (folded : bool) (d : list (str * nat)) (k : str) : res nat :=
  match assoc (dict_key m folded k) d with Some v => Ok v | None => Err KeyErr end.
(* d[k] = v *)
Definition map_setitem (m : mapper) (folded : bool) (d : list (str * nat)) (k : str) (v : nat) : list (str * nat) :=
  (dict_key m folded k, v) :: d.
End MapPrims.

(* ------------------------------------------------------------------------------------------ *)
(* the value returned by a method that does not change the object / by a module-level function *)
Definition mval {O A} (r : mres O A) : res A :=
  match r with MRet a _ => Ok a | MExc x _ => Err (exc_err x) | MFuel => OutOfFuel end.

(* ------------------------------------------------------------------------------------------ *)
(* NewickWriter: the object state is the text written to the stream so far (out.write(x) appends);
   the options are Model/Newick.v `wopts`.  Trees are Model/Newick.v `ntree` (taxon = label of the
   node's Taxon, None when there is no Taxon or its label is None; Taxon and Edge objects are truthy). *)
Section WriterPrims.
Variable L : Type.

(* a node as the writer's callbacks receive it: the subtree, the number of children of its parent
   (None: no parent) and its position among them; `p._child_nodes[k] is node` compares positions *)
Record wnode : Type := mkWnode { wn_tree : ntree L; wn_parent : option nat; wn_index : nat }.
Record wtree : Type := mkWtree { wt_rooted : option bool; wt_root : ntree L }.
      (* wt_rooted None = rooting_state_is_undefined; otherwise is_rooted *)

(* node._parent_node._child_nodes[k] is node   (AttributeError without parent, IndexError, k < 0 from the end) *)
Definition child_is (parent : option nat) (k : Z) (idx : nat) : res bool :=
  match parent with
  | None => Err AttrErr
  | Some n => let i := if k <? 0 then Z.of_nat n + k else k in
              if (0 <=? i) && (i <? Z.of_nat n) then Ok (Z.to_nat i =? idx)%nat else Err IndexErr
  end.

(* "{}".format(edge.length) through edge_label_compose_fn = _format_edge_length (default format) *)
Definition need_len (x : option L) : res L := match x with Some v => Ok v | None => Err TypeErr end.

(* tree.apply(before_fn, after_fn, leaf_fn) = Node.apply on the seed node: leaf_fn on a node without
   children; before_fn, the children left to right, after_fn otherwise (C15 apply_brackets) *)
Section Apply.
Context {O : Type}.
Variables before after leaf : wnode -> O -> mres O unit.
Definition mseq (a : mres O unit) (k : O -> mres O unit) : mres O unit :=
  match a with MRet _ o => k o | MExc x o => MExc x o | MFuel => MFuel end.
Definition apply_list (f : ntree L -> nat -> O -> mres O unit) : list (ntree L) -> nat -> O -> mres O unit :=
  fix go (l : list (ntree L)) (i : nat) (o : O) : mres O unit :=
    match l with
    | [] => MRet tt o
    | k :: r => mseq (f k i o) (go r (Datatypes.S i))
    end.
Fixpoint apply_node (t : ntree L) (parent : option nat) (idx : nat) (o : O) : mres O unit :=
  match t with
  | Nd _ _ _ ks =>
    let me := mkWnode t parent idx in
    match ks with
    | [] => leaf me o
    | _ :: _ =>
      mseq (before me o) (fun o1 =>
      mseq (apply_list (fun k i => apply_node k (Some (length ks)) i) ks 0%nat o1) (after me))
    end
  end.
End Apply.
End WriterPrims.
Arguments mkWnode {L} _ _ _.
Arguments wn_tree {L} _.
Arguments wn_parent {L} _.
Arguments wn_index {L} _.
Arguments mkWtree {L} _ _.
Arguments wt_rooted {L} _.
Arguments wt_root {L} _.
Arguments apply_node {L O} _ _ _ _ _ _ _.
Arguments apply_list {L O} _ _ _ _.

(* ------------------------------------------------------------------------------------------ *)
(* NewickReader.  The object state is Model/Newick.v `pstate`: the NexusTokenizer seen through its
   token-level interface (current_token, is_eof(), captured_comments, the tokens still to come),
   the reader's _parenthesis_nesting_level / _tree_statement_complete / _seen_taxa and the taxon
   symbol mapper behind taxon_symbol_map_fn.
   Node and Tree objects under construction are represented BY VALUE (Model/Newick.v `ptree`, and
   `rtree` below): a method that mutates a node / tree passed as argument returns the new value,
   which the caller stores back into the variable it passed (copy-in / copy-out).  This is the
   object semantics as long as no second live reference to the object exists, which holds in the
   translated functions: a new node is attached to its parent only after it is complete. *)
Section ReaderPrims.
Variable L : Type.
Variable parse_len : str -> option L.
Variable lower : str -> str.

Record rtree : Type := mkRtree { rt_rooted : option bool; rt_comments : list str; rt_seed : ptree L }.
Definition new_rtree : rtree := mkRtree None [] (PN None None None [] []).      (* tree_factory() *)
Definition set_rt_rooted (t : rtree) v := mkRtree v (rt_comments t) (rt_seed t).
Definition set_rt_comments (t : rtree) v := mkRtree (rt_rooted t) v (rt_seed t).
Definition set_rt_seed (t : rtree) v := mkRtree (rt_rooted t) (rt_comments t) v.

(* nodes *)
Definition pt_taxon (n : ptree L) := match n with PN x _ _ _ _ => x end.
Definition pt_label (n : ptree L) := match n with PN _ x _ _ _ => x end.
Definition pt_len (n : ptree L) := match n with PN _ _ x _ _ => x end.
Definition pt_comments (n : ptree L) := match n with PN _ _ _ x _ => x end.
Definition pt_kids (n : ptree L) := match n with PN _ _ _ _ x => x end.
Definition new_pnode : ptree L := PN None None None [] [].                       (* tree.node_factory() *)
Definition pt_set_taxon (n : ptree L) (v : option nat) := PN v (pt_label n) (pt_len n) (pt_comments n) (pt_kids n).
Definition pt_set_label (n : ptree L) (v : option str) := PN (pt_taxon n) v (pt_len n) (pt_comments n) (pt_kids n).
Definition pt_set_len (n : ptree L) (v : option L) := PN (pt_taxon n) (pt_label n) v (pt_comments n) (pt_kids n).
Definition pt_add_child (n c : ptree L) := PN (pt_taxon n) (pt_label n) (pt_len n) (pt_comments n) (pt_kids n ++ [c]).
(* nexusprocessing.process_comments_for_item(item, item_comments, extract_comment_metadata=False):
   nothing when item_comments is None or empty, else every comment is appended to item.comments *)
Definition pt_add_comments (n : ptree L) (cs : option (list str)) : ptree L :=
  match cs with
  | None => n
  | Some l => PN (pt_taxon n) (pt_label n) (pt_len n) (pt_comments n ++ l) (pt_kids n)
  end.

Definition need_list (x : option (list str)) : res (list str) := match x with Some l => Ok l | None => Err TypeErr end.
Definition to_olist (l : list str) : option (list str) := match l with [] => None | _ => Some l end.

(* self.edge_length_type(token): float(token), ValueError when it does not parse *)
Definition edge_length_of (tok : str) : res (option L) :=
  match parse_len tok with Some v => Ok (Some v) | None => Err ValueErr end.

(* self._rooting == "<literal>" / self._rooting is None *)
Definition rooting_is (d : rooting_directive) (s : str) : bool :=
  match d with
  | ForceUnrooted => str_eqb s [102; 111; 114; 99; 101; 45; 117; 110; 114; 111; 111; 116; 101; 100]
  | ForceRooted => str_eqb s [102; 111; 114; 99; 101; 45; 114; 111; 111; 116; 101; 100]
  | DefaultUnrooted => str_eqb s [100; 101; 102; 97; 117; 108; 116; 45; 117; 110; 114; 111; 111; 116; 101; 100]
  | DefaultRooted => str_eqb s [100; 101; 102; 97; 117; 108; 116; 45; 114; 111; 111; 116; 101; 100]
  | NoDirective => false
  end.
Definition rooting_is_none (d : rooting_directive) : bool := match d with NoDirective => true | _ => false end.

(* the tokenizer methods the reader calls, over the token-level state *)
Definition rd_pull_comments (st : pstate) : mres pstate (option (list str)) :=      (* pull_captured_comments() *)
  let r := pull_comments st in MRet (to_olist (fst r)) (snd r).
Definition rd_clear_comments (st : pstate) : mres pstate unit :=                   (* clear_captured_comments() *)
  MRet tt (snd (pull_comments st)).
Definition rd_require_next (st : pstate) : mres pstate (option str) :=             (* require_next_token() *)
  match advance st with
  | AdvTok st' => MRet (ps_cur st') st'
  | AdvStop st' => MExc ExEos st'
  | AdvErr (Err e) => MExc (ExErr e) st
  | AdvErr _ => MFuel
  end.
Definition rd_next_token (st : pstate) : mres pstate (option str) :=               (* next_token() *)
  match advance st with
  | AdvTok st' => MRet (ps_cur st') st'
  | AdvStop st' => MRet None (set_cur st' None)
  | AdvErr (Err e) => MExc (ExErr e) st
  | AdvErr _ => MFuel
  end.
(* taxon_symbol_map_fn(label) = NexusTaxonSymbolMapper.require_taxon_for_symbol on the mapper in the state *)
Definition rd_map_symbol (st : pstate) (label : str) : mres pstate nat :=
  let r := require_taxon_for_symbol lower (ps_map st) label in
  MRet (fst r) (set_seen_map st (ps_seen st) (snd r)).
Definition set_ps_seen (st : pstate) (seen : list nat) : pstate := set_seen_map st seen (ps_map st).
End ReaderPrims.
Arguments mkRtree {L} _ _ _.
Arguments rt_rooted {L} _.
Arguments rt_comments {L} _.
Arguments rt_seed {L} _.
Arguments new_rtree {L}.
Arguments set_rt_rooted {L} _ _.
Arguments set_rt_comments {L} _ _.
Arguments set_rt_seed {L} _ _.
Arguments pt_taxon {L} _.
Arguments pt_label {L} _.
Arguments pt_len {L} _.
Arguments pt_comments {L} _.
Arguments pt_kids {L} _.
Arguments new_pnode {L}.
Arguments pt_set_taxon {L} _ _.
Arguments pt_set_label {L} _ _.
Arguments pt_set_len {L} _ _.
Arguments pt_add_child {L} _ _.
Arguments pt_add_comments {L} _ _.
Arguments edge_length_of {L} _ _.
