(* C13 (second wave): correspondence instance for Model/C13Chars.v.  The CHARACTERS / DATA block is
   instantiated by a skeleton that skips to the block's END and records one matrix (every generated
   CHARACTERS block has a MATRIX statement), the SETS block by a skeleton that skips it: what is
   compared with the implementation is WHICH blocks are dispatched as character blocks, i.e. the
   number of matrices DataSet.get(taxon_namespace=ns) delivers with and without exclude_trees. *)
From Coq Require Import ZArith List Bool.
From DV Require Import Model.PyPrims Model.C13Model Model.C13Chars.
Import ListNotations.

Definition sk_parse_chars (upper : str -> str) (fuel : nat) (k : core) (g : regs) (ms : list unit)
  : res (core * regs * list unit) :=
  do k5 <- zstep k (consume_to_end_of_block upper fuel (z_cur (k_z k))) ;; Ok (k5, g, ms ++ [tt]).

Definition sk_parse_sets (upper : str -> str) (fuel : nat) (k : core) (g : regs) (ms : list unit)
  : res (core * regs * list unit) :=
  do k5 <- zstep k (consume_to_end_of_block upper fuel (z_cur (k_z k))) ;; Ok (k5, g, ms).

Record case2 : Type := mkCase2 {
  k2_base : case;
  k2_matcounts : list (bool * nat)     (* (exclude_trees, number of character matrices delivered) *)
}.

Definition mat_count (k : case) (et : bool) : res nat :=
  let lo := lower_with (k_lower k) in
  let up := upper_with (k_lower k) in
  let d : doc := (k_toks k, k_end k) in
  let fuel := doc_fuel d in
  do r <- c_parse_nexus_stream sktree unit lo up (sk_parse_tree lo) sk_set_label sk_add_comments (k_vlink k)
            (c_ns cfg_yield) TLNew (sk_parse_chars up fuel) (sk_parse_sets up fuel) et fuel
            (nexus_init sktree cfg_yield [] d) ;;
  Ok (length (snd r)).

Definition case2_ok (k : case2) : bool :=
  case_ok (k2_base k)
  && forallb (fun p => res_eqb Nat.eqb (mat_count (k2_base k) (fst p)) (Ok (snd p))) (k2_matcounts k).

Definition case2_run (k : case2) := (case_run (k2_base k), map (fun p => mat_count (k2_base k) (fst p)) (k2_matcounts k)).
