(* C03 (wave 7): OBJECT level of the stored bipartition encoding (definitions only).

   Model/C03Bip.v identifies a Bipartition object with the node whose edge owns it and keeps only the
   leafset mask.  Here the objects are cells of a store: an identity, and the fields the property
   speaks about (_split_bitmask, _leafset_bitmask, _is_rooted).  `edge.bipartition = <object>` is a
   binding node -> identity, Tree.bipartition_encoding is a list of identities.  Transcribed as to
   WHICH object is created / bound / listed / dropped:

   - encode_bipartitions (and therefore every operation called with update_bipartitions=True: each
     ends in it, Proofs/C03Bip.v *_ub) creates ONE NEW object per edge in post-order, binds it to
     the edge, gives it the tree's rooting flag AS IT IS WHEN THE ENCODING RUNS and the split mask
     compile_split_bitmask derives from that flag, and stores the list of the new objects;
   - suppress_unifurcations(update_bipartitions=True) drops from the stored list the objects carried
     by the edges of the nodes it removes, BY IDENTITY (`id(nd.edge.bipartition)` in the source);
   - reroot_at_node: reseed_at(update_bipartitions=False), THEN is_rooted = True, THEN the encoding.

   The two seeded forms (an edge of a retained unifurcation bound to its child's object; the
   encoding made before the flag is set) are definitions here too, so that the theorems can say
   what goes wrong with them. *)
From Coq Require Import ZArith List Bool.
From DV Require Import Model.PyPrims Model.Tree Model.Heap Model.HeapOps Model.C03Spec Model.C03Bip Gen.BitFns.
Import ListNotations.
Open Scope Z_scope.

Record brec : Type := mkBR { br_split : Z; br_leafset : Z; br_rooted : option bool }.

Record bstate : Type := mkBS {
  bs_objs : list (Z * brec);   (* the store: identity -> fields *)
  bs_next : Z;                 (* next identity *)
  bs_edge : list (Z * Z);      (* node -> identity of the object its edge carries (first binding wins) *)
  bs_enc : list Z              (* Tree.bipartition_encoding *)
}.

Definition bs_empty : bstate := mkBS [] 0 [] [].

Fixpoint zfind {A} (k : Z) (l : list (Z * A)) : option A :=
  match l with
  | [] => None
  | (a, v) :: r => if Z.eqb k a then Some v else zfind k r
  end.

Definition edge_obj (s : bstate) (n : Z) : option Z := zfind n (bs_edge s).
Definition obj_rec (s : bstate) (o : Z) : option brec := zfind o (bs_objs s).

Definition rooted_true (r : option bool) : bool := match r with Some true => true | _ => false end.

(* Bipartition.compile_split_bitmask(tree_leafset_bitmask=tm, ...) on an object whose _is_rooted is r and
   _leafset_bitmask is m.  `if tree_leafset_bitmask:` is false for 0: nothing is compiled, the split
   mask keeps the constructor's 0 *)
Definition compile_split (r : option bool) (tm m : Z) : Z :=
  if Z.eqb tm 0 then 0
  else if rooted_true r then m
  else py_normalize_bitmask m tm (py_least_significant_set_bit tm).

Definition fresh_rec (r : option bool) (tm m : Z) : brec := mkBR (compile_split r tm m) m r.

(* one new object per entry (owner node, leafset mask), identities n, n+1, ... *)
Fixpoint alloc (r : option bool) (tm : Z) (es : list (Z * Z)) (n : Z) : list (Z * (Z * brec)) :=
  match es with
  | [] => []
  | (i, m) :: rest => (i, (n, fresh_rec r tm m)) :: alloc r tm rest (n + 1)
  end.

Definition encode_entries (r : option bool) (tm : Z) (es : list (Z * Z)) (s : bstate) : bstate :=
  let a := alloc r tm es (bs_next s) in
  mkBS (map snd a ++ bs_objs s) (bs_next s + len es)
       (map (fun x => (fst x, fst (snd x))) a ++ bs_edge s)
       (map (fun x => fst (snd x)) a).

(* encode_bipartitions on the structure t while Tree._is_rooted is r *)
Definition obj_encode (r : option bool) (t : tree) (s : bstate) : bstate :=
  encode_entries r (leafset t) (enc_list t) s.

(* suppress_unifurcations(update_bipartitions=True) on the structure t (before the call):
   bipartitions_to_delete = the objects on the edges of the removed nodes, dropped from the list by id() *)
Definition obj_su_incremental (t : tree) (s : bstate) : bstate :=
  let dead := flat_map (fun n => match edge_obj s n with Some o => [o] | None => [] end) (su_removed t) in
  mkBS (bs_objs s) (bs_next s) (bs_edge s) (filter (fun o => negb (memz o dead)) (bs_enc s)).

(* ---- what is observable: per edge in post-order (node, object, fields); the list as objects ---- *)

Definition post_ids (t : tree) : list Z := map fst (enc_list t).

Definition edge_objs (s : bstate) (t : tree) : list (option Z) := map (edge_obj s) (post_ids t).

Definition read_edges (s : bstate) (t : tree) : list (Z * option brec) :=
  map (fun n => (n, match edge_obj s n with Some o => obj_rec s o | None => None end)) (post_ids t).

Definition read_enc (s : bstate) : list (option brec) := map (obj_rec s) (bs_enc s).

(* what a fresh encoding of t under the flag r holds, per edge in post-order *)
Definition enc_full (r : option bool) (t : tree) : list (Z * brec) :=
  map (fun p => (fst p, fresh_rec r (leafset t) (snd p))) (enc_list t).

(* ---- object level of the operations ---- *)

(* any operation asked to update bipartitions that returned with structure t and flag r *)
Definition obj_after_ub (r : option bool) (t : tree) (s : bstate) : bstate := obj_encode r t s.

(* Tree.reroot_at_node(update_bipartitions=ub): t' = structure reseed_at leaves; flag set; then encode *)
Definition obj_reroot_at_node (ub : bool) (t' : tree) (s : bstate) : option bool * bstate :=
  let r := Some true in                       (* self.is_rooted = True *)
  (r, if ub then obj_encode r t' s else s).

(* seeded form C03-8: update_bipartitions passed through to reseed_at (encoding under the OLD flag r0),
   the flag set afterwards *)
Definition obj_reroot_at_node_early (ub : bool) (r0 : option bool) (t' : tree) (s : bstate) : option bool * bstate :=
  let s1 := if ub then obj_encode r0 t' s else s in
  (Some true, s1).

(* seeded form C03-7: the edge of a retained unifurcation is bound to its only child's object, and the
   list holds that object once more *)
Fixpoint alloc_shared (r : option bool) (tm : Z) (t : tree) (n : Z) : list (Z * (Z * brec)) * Z :=
  match t with
  | T i _ _ _ ks =>
    let step := fun (acc : list (Z * (Z * brec)) * Z) k =>
                  let '(l, n1) := alloc_shared r tm k (snd acc) in (fst acc ++ l, n1) in
    let '(l, n1) := fold_left step ks ([], n) in
    match ks with
    | [k] => (l ++ [(i, match zfind (t_id k) l with Some x => x | None => (n1, fresh_rec r tm (leafset t)) end)], n1)
    | _ => (l ++ [(i, (n1, fresh_rec r tm (leafset t)))], n1 + 1)
    end
  end.

Definition obj_encode_shared (r : option bool) (t : tree) (s : bstate) : bstate :=
  let a := fst (alloc_shared r (leafset t) t (bs_next s)) in
  mkBS (map snd a ++ bs_objs s) (snd (alloc_shared r (leafset t) t (bs_next s)))
       (map (fun x => (fst x, fst (snd x))) a ++ bs_edge s)
       (map (fun x => fst (snd x)) a).

(* ---- the invariant ---- *)

(* no two edges of t carry one object; the list holds exactly the edges' objects, each once (in post-order) *)
Definition no_bip_shared (s : bstate) (t : tree) : Prop :=
  NoDup (edge_objs s t) /\ map Some (bs_enc s) = edge_objs s t.

(* the stored encoding is what a fresh encoding of t under r produces *)
Definition enc_fresh (s : bstate) (r : option bool) (t : tree) : Prop :=
  read_edges s t = map (fun p => (fst p, Some (snd p))) (enc_full r t)
  /\ read_enc s = map (fun p => Some (snd p)) (enc_full r t).

(* ---- comparison with the harness' dump (correspondence) ---- *)

(* identities numbered by first occurrence: edges in post-order, then the list *)
Fixpoint zindex (k : Z) (l : list Z) (n : Z) : option Z :=
  match l with
  | [] => None
  | a :: r => if Z.eqb k a then Some n else zindex k r (n + 1)
  end.

Fixpoint dedup (l : list Z) (seen : list Z) : list Z :=
  match l with
  | [] => seen
  | a :: r => if memz a seen then dedup r seen else dedup r (seen ++ [a])
  end.

Definition oflat (l : list (option Z)) : list Z := flat_map (fun o => match o with Some x => [x] | None => [] end) l.

Definition canon_order (s : bstate) (t : tree) : list Z := dedup (oflat (edge_objs s t) ++ bs_enc s) [].

Definition canon (ord : list Z) (o : option Z) : Z :=
  match o with Some x => match zindex x ord 0 with Some k => k | None => -1 end | None => -1 end.

Definition ob_code (r : option bool) : Z := match r with None => 0 | Some false => 1 | Some true => 2 end.

(* (node, object number, split, leafset, rooted code) per edge; object numbers of the list *)
Definition obj_dump (s : bstate) (t : tree) : list (list Z) * list Z :=
  let ord := canon_order s t in
  (map (fun n => let o := edge_obj s n in
                 match (match o with Some x => obj_rec s x | None => None end) with
                 | Some b => [n; canon ord o; br_split b; br_leafset b; ob_code (br_rooted b)]
                 | None => [n; -1]
                 end) (post_ids t),
   map (fun o => canon ord (Some o)) (bs_enc s)).

Fixpoint zins (x : Z) (l : list Z) : list Z :=
  match l with
  | [] => [x]
  | y :: r => if x <=? y then x :: l else y :: zins x r
  end.
Definition zsort (l : list Z) : list Z := fold_right zins [] l.

(* the list is compared as a multiset of object numbers: randomly_reorient (and the unrepaired
   to_outgroup_position) re-order children AFTER the encoding was made, so the list need not be in the
   post-order of the final tree (same convention as C03Model.enc_ok) *)
Definition dump_eqb (a b : list (list Z) * list Z) : bool :=
  list_eqb (list_eqb Z.eqb) (fst a) (fst b) && list_eqb Z.eqb (zsort (snd a)) (zsort (snd b)).
