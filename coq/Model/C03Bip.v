(* C03: bipartition encoding on top of the structural model (definitions only).

   Every edge (= its head node) carries a Bipartition whose _leafset_bitmask is the OR of the taxon
   bits of the leaves below it; Tree.bipartition_encoding is the list of these objects, one per
   edge, in post-order.  A Bipartition object is identified with the node whose edge owns it.

   - encode_bipartitions (and every operation called with update_bipartitions=True, which ends in
     it) rebuilds all of it from the structure: `enc_list` of the tree the operation leaves.
   - suppress_unifurcations(update_bipartitions=True) is the one INCREMENTAL maintainer: it leaves
     the masks of the surviving edges alone and deletes from the stored list the bipartitions of the
     nodes it removed (by object identity): `su_enc_incremental`. *)
From Coq Require Import ZArith List Bool.
From DV Require Import Model.PyPrims Model.Tree Model.Heap Model.HeapOps Model.C03Spec.
Import ListNotations.
Open Scope Z_scope.

(* TaxonNamespace.taxon_bitmask for a namespace without vacated indices: bit = accession index *)
Definition taxon_bit (x : Z) : Z := Z.shiftl 1 x.

(* edge.bipartition._leafset_bitmask as encode_bipartitions computes it *)
Fixpoint leafset (t : tree) : Z :=
  match t with
  | T _ x _ _ [] => match x with Some k => taxon_bit k | None => 0 end
  | T _ _ _ _ ks => fold_right (fun k m => Z.lor (leafset k) m) 0 ks
  end.

(* bipartition_encoding: (owner node, leafset mask) per edge, post-order *)
Fixpoint enc_list (t : tree) : list (Z * Z) :=
  match t with
  | T i _ _ _ ks => flat_map enc_list ks ++ [(i, leafset t)]
  end.

(* the nodes suppress_unifurcations removes: those with exactly one child at their turn *)
Fixpoint su_removed (t : tree) : list Z :=
  match t with
  | T i _ _ _ ks =>
    flat_map su_removed ks ++ (match map spec_su ks with [_] => [i] | _ => [] end)
  end.

(* suppress_unifurcations(update_bipartitions=True) applied to a stored encoding list *)
Definition su_enc_incremental (t : tree) (stored : list (Z * Z)) : list (Z * Z) :=
  filter (fun p => negb (memz (fst p) (su_removed t))) stored.
