(* C18 - executable model of birthdeath.discrete_birth_death_tree over a draw script.

   Transcribed from /repo/src/dendropy/model/birthdeath.py (discrete_birth_death_tree) statement by
   statement, in the vocabulary of Model/C18Prims.v / Model/C18DiscPrims.v (so that the code generated
   from the source by py/dv/gen_sim.py is the same term: Proofs/C18GenDisc.v).
   The options ntax / max_time are parameters (None = not passed), repeat_until_success and
   taxon_namespace too; tree= and assign_taxa= are not passed.  Definitions only. *)
From Coq Require Import QArith ZArith List Bool Arith.
From DV Require Import Model.C18Model Model.C18Prims Model.C18DiscPrims.
From DV Require Model.PyPrims.
Import ListNotations.
Open Scope nat_scope.

Record dparams : Type := mkDp {
  dp_b : Q; dp_d : Q; dp_sb : Q; dp_sd : Q;     (* birth_rate, death_rate, birth_rate_sd, death_rate_sd *)
  dp_repeat : bool;                             (* repeat_until_success *)
  dp_ntax : option nat;                         (* ntax= *)
  dp_maxt : option nat                          (* max_time= (generations) *)
}.

(* the variables carried by `for nd in leaf_nodes`:
   nd.birth_rate store, nd.death_rate store, the tree, the next fresh node identity, num_gens *)
Definition dst : Type := (list (nat * Q) * list (nat * Q) * btree * nat * nat)%type.

Definition dst_tr (s : dst) : btree := let '(_, _, t, _, _) := s in t.
Definition dst_next (s : dst) : nat := let '(_, _, _, n, _) := s in n.
Definition dst_gens (s : dst) : nat := let '(_, _, _, _, g) := s in g.

(* the body of `for nd in leaf_nodes:` *)
Definition disc_leaf (P : dparams) (s : dst) (nd : nat) : M (ctl dst Empty_set) :=
  let '(br, dr, t, next, gens) := s in
  let br := if negb (b_has br nd) then b_set_rate br nd (dp_b P) else br in
  let dr := if negb (b_has dr nd) then b_set_rate dr nd (dp_d P) else dr in
  let t := b_upd_len t nd (fun l_ => (l_ + 1)%Q) in                       (* nd.edge.length += 1 *)
  let! u := py_uniform01 in
  if Qltb u (b_rate br nd) then
    let '(t, next, c1) := py_new_child t next nd in
    let '(t, next, c2) := py_new_child t next nd in
    let t := C18Prims.b_set_len t c1 0%Q in
    let t := C18Prims.b_set_len t c2 0%Q in
    let! x2 := d_gauss 0%Q (dp_sb P) in
    let br := b_set_rate br c1 (b_rate br nd + x2)%Q in
    let! x3 := d_gauss 0%Q (dp_sd P) in
    let dr := b_set_rate dr c1 (b_rate dr nd + x3)%Q in
    let! x4 := d_gauss 0%Q (dp_sb P) in
    let br := b_set_rate br c2 (b_rate br nd + x4)%Q in
    let! x5 := d_gauss 0%Q (dp_sd P) in
    let dr := b_set_rate dr c2 (b_rate dr nd + x5)%Q in
    ret (CNext (R := Empty_set) (br, dr, t, next, gens))
  else if Qltb (b_rate br nd) u && Qltb u (b_rate br nd + b_rate dr nd)%Q then
    if negb (b_is nd (b_id t)) then
      let! t := b_prune_subtree_s t nd in                                  (* tree.prune_subtree(nd) *)
      ret (CNext (R := Empty_set) (br, dr, t, next, gens))
    else if negb (dp_repeat P) then raise PyPrims.OtherErr                 (* TreeSimTotalExtinctionException *)
    else ret (CNext (R := Empty_set) (br, dr, t, next, 0))                 (* num_gens = 0 *)
  else ret (CNext (R := Empty_set) (br, dr, t, next, gens)).

(* the loop test and one pass of the generation loop *)
Definition disc_test (tt tg : option nat) (leaves : list nat) (gens : nat) : bool :=
  (py_is_none tt || (length leaves <? py_unwrap_n tt)) && (py_is_none tg || (gens <? py_unwrap_n tg)).

Definition disc_gen (P : dparams) (tt tg : option nat) (s : dst * list nat) : M (ctl (dst * list nat) Empty_set) :=
  let '(br, dr, t, next, gens, leaves) := s in
  if disc_test tt tg leaves gens then
    let! c := py_forM (disc_leaf P) leaves (br, dr, t, next, gens) in
    match c with
    | CReturn r_ => match r_ with end
    | CNext s_ | CBreak s_ =>
        let '(br, dr, t, next, gens) := s_ in
        ret (CNext (R := Empty_set) (br, dr, t, next, gens + 1, leaf_ids t))
    end
  else ret (CBreak (R := Empty_set) (br, dr, t, next, gens, leaves)).

(* while (target_num_gens is None or num_gens < target_num_gens): u = rng.uniform(0, 1) ... *)
Definition disc_extra (P : dparams) (tg : option nat) (gens : nat) (add : nat) : M (ctl nat Empty_set) :=
  if py_is_none tg || (gens <? py_unwrap_n tg) then
    let! u := py_uniform01 in
    if Qltb u (dp_b P + dp_d P)%Q then ret (CBreak (R := Empty_set) add)
    else ret (CNext (R := Empty_set) (add + 1))
  else ret (CBreak (R := Empty_set) add).

Definition disc_grow (add : nat) (t : btree) (nd : nat) : btree :=
  b_upd_len t nd (fun l_ => (l_ + inject_Z (Z.of_nat add))%Q).

(* from `tree = dendropy.Tree(...)` to `return tree`; tt = target_num_taxa, the namespace is ns *)
Definition disc_main (P : dparams) (ns : list lab) (tt : option nat) : M (btree * list lab) :=
  let tg := dp_maxt P in
  let t := py_tree_new in
  let t := C18Prims.b_set_len t (b_id t) 0%Q in
  let br := b_set_rate (@nil (nat * Q)) (b_id t) (dp_b P) in
  let dr := b_set_rate (@nil (nat * Q)) (b_id t) (dp_d P) in
  let! c := py_while_script (disc_gen P tt tg) (br, dr, t, 1, 0, leaf_ids t) in
  match c with
  | CReturn r_ => match r_ with end
  | CNext s_ | CBreak s_ =>
      let '(br, dr, t, next, gens, leaves) := s_ in
      let! c2 := py_while_script (disc_extra P tg gens) 0 in
      match c2 with
      | CReturn r_ => match r_ with end
      | CNext add | CBreak add =>
          let t := fold_left (disc_grow add) (leaf_ids t) t in
          let! (t, ns) := py_randomly_assign_taxa t ns in
          ret (t, ns)
      end
  end.

(* discrete_birth_death_tree(b, d, sb, sd, taxon_namespace=ns, [ntax=], [max_time=], repeat_until_success=, rng=) *)
Definition disc_run_ns (P : dparams) (ns : list lab) : M (btree * list lab) :=
  disc_main P ns (Some (py_kw_get (dp_ntax P) (length ns))).

(* discrete_birth_death_tree(b, d, sb, sd, [ntax=], [max_time=], repeat_until_success=, rng=) *)
Definition disc_run_nons (P : dparams) : M (btree * list lab) :=
  if py_is_none (dp_ntax P) && py_is_none (dp_maxt P) then raise PyPrims.ValueErr
  else disc_main P [] (if negb (py_is_none (dp_ntax P)) then Some (py_unwrap_n (dp_ntax P)) else None).

Definition disc_run (P : dparams) (ons : option (list lab)) : M (btree * list lab) :=
  match ons with Some ns => disc_run_ns P ns | None => disc_run_nons P end.

Definition disc_sim (P : dparams) (ons : option (list lab)) (script : list draw) := disc_run P ons (script, []).

(* ------------------------------------------------------------------------------------------ *)
(* correspondence check                                                                         *)
(* ------------------------------------------------------------------------------------------ *)
Record dcase : Type := mkDCase {
  dc_P : dparams;
  dc_ns : option (list lab);
  dc_script : list draw;
  dc_calls : list call;        (* rng.uniform(0, 1) is logged as CUnit (the harness checks its arguments) *)
  dc_out : outcome
}.

Definition dcase_run (c : dcase) : sres (otree * list lab) :=
  match disc_sim (dc_P c) (dc_ns c) (dc_script c) with
  | Done (t, ns') r => Done (obs_b t, ns') r | Exhausted => Exhausted | BadScript => BadScript
  | PyErr e => PyErr e | NoFuel => NoFuel end.

Definition dcase_ok (c : dcase) : bool :=
  match dcase_run c, dc_out c with
  | Done (t, ns') (rest, calls), OTree t' ns'' =>
      otree_eqb t t' && lab_list_eqb ns' ns'' && (length rest =? 0)
      && PyPrims.list_eqb call_eqb (rev calls) (dc_calls c)
  | Exhausted, OExhausted => true
  | PyErr e, OErr e' => PyPrims.err_eqb e e'
  | _, _ => false
  end.
