(* C03: specification-level (rose tree) versions of the structure-changing operations.  These are
   the right-hand sides of the refinement theorems  abs (op h) = spec_op (abs h).
   Definitions only. *)
From Coq Require Import ZArith List Bool.
From DV Require Import Model.PyPrims Model.Tree.
Import ListNotations.
Open Scope Z_scope.

(* child.length += b (when b is not None; None + b = b) *)
Definition bump_len (b e : option Z) : option Z :=
  match b with
  | None => e
  | Some lb => Some (match e with None => lb | Some le => le + lb end)
  end.

Definition bump (b : option Z) (t : tree) : tree :=
  match t with T i x l e ks => T i x l (bump_len b e) ks end.

(* "try: a.length += b.length except: pass" *)
Definition try_add_len (a b : option Z) : option Z :=
  match a, b with Some la, Some lb => Some (la + lb) | _, _ => a end.

(* suppress_unifurcations: every node with exactly one child is replaced by that child, whose
   edge takes up the removed edge's length (bottom-up) *)
Fixpoint spec_su (t : tree) : tree :=
  match t with
  | T i x l e ks =>
    match map spec_su ks with
    | [k] => bump e k
    | ks' => T i x l e ks'
    end
  end.

(* Edge.collapse of the edge above node c: its children take its place *)
Fixpoint spec_collapse (c : Z) (adjust : bool) (t : tree) : tree :=
  match t with
  | T i x l e ks =>
    T i x l e
      (flat_map (fun k =>
                   match k with
                   | T j _ _ ej ((_ :: _) as kk) =>
                     if Z.eqb j c then map (bump (if adjust then ej else None)) kk
                     else [spec_collapse c adjust k]
                   | _ => [spec_collapse c adjust k]
                   end) ks)
  end.

(* removing the subtree hanging at node c (c is not the root) *)
Fixpoint spec_prune (c : Z) (t : tree) : tree :=
  match t with
  | T i x l e ks =>
    T i x l e (flat_map (fun k => if Z.eqb (t_id k) c then [] else [spec_prune c k]) ks)
  end.

(* re-rooting at node n (reseed_at without the clean-up passes): the path from the old root to
   n is reversed; every node on the path takes the length of its child on the path, n takes the
   old root's length; an inverted parent is appended as the LAST child.
   upk len = what hangs above the current subtree once its root has taken length len. *)
Fixpoint rr (n : Z) (t : tree) (upk : option Z -> list tree) (rootlen : option Z) : option tree :=
  match t with
  | T i x l e ks =>
    if Z.eqb i n then Some (T i x l rootlen (ks ++ upk e))
    else
      (fix go (lft : list tree) (rgt : list tree) : option tree :=
         match rgt with
         | [] => None
         | k :: r =>
           match rr n k (fun lk => [T i x l lk (rev lft ++ r ++ upk e)]) rootlen with
           | Some t' => Some t'
           | None => go (k :: lft) r
           end
         end) [] ks
  end.

Definition spec_reseed (n : Z) (t : tree) : option tree := rr n t (fun _ => []) (t_len t).

(* collapse_basal_bifurcation *)
Definition spec_collapse_basal (t : tree) : tree :=
  match t with
  | T i x l e [T i0 x0 l0 e0 k0; T i1 x1 l1 e1 k1] =>
    if (2 <=? Z.of_nat (length k1))%Z then
      T i x l e (T i0 x0 l0 (bump_len e1 e0) k0 :: k1)
    else if (2 <=? Z.of_nat (length k0))%Z then
      T i x l e (k0 ++ [T i1 x1 l1 (bump_len e0 e1) k1])
    else t
  | _ => t
  end.

(* structural effect of encode_bipartitions(suppress_unifurcations=su,
   collapse_unrooted_basal_bifurcation=cb) on a tree whose rooting flag is not True (unrooted) *)
Definition spec_encode (su cb unrooted : bool) (t : tree) : tree :=
  let t1 := if cb && unrooted && (Z.of_nat (length (t_kids t)) =? 2)
            then spec_collapse_basal t else t in
  if su then spec_su t1 else t1.
