(* C12, wave 7: the classes of the data model an object of which can occur in a copied structure, and the copier
   `copy.deepcopy` dispatches to for each (hand-written; Props/C12Gen.v proves the table the translator reads off the
   class statements of the current source - method resolution order and the body of the __deepcopy__ found - equal
   to it).  Bipartition has NO __deepcopy__: it is reconstructed attribute by attribute like any plain object, frozen
   or not; Annotation has none of its own: it is an Annotable, so the (owner, attribute name) pair of an
   attribute-bound annotation is deep-copied - owner included - like any other attribute.  The only classes whose
   instances a copy may hold as the very objects of the source are the three value classes of kind KAtomic. *)
From Coq Require Import String List Bool ZArith.
From DV Require Import Model.PyPrims Model.C12Model.
Import ListNotations.

Definition class_kinds : list (String.string * kind) :=
  [("Annotation"%string, KAnnotable);
   ("AnnotationSet"%string, KAnnSet);
   ("Bipartition"%string, KPlain);
   ("CharacterSubset"%string, KAnnotable);
   ("CharacterType"%string, KAnnotable);
   ("CharacterDataSequence"%string, KAnnotable);
   ("ContinuousCharacterDataSequence"%string, KAnnotable);
   ("DnaCharacterDataSequence"%string, KAnnotable);
   ("StandardCharacterDataSequence"%string, KAnnotable);
   ("CharacterMatrix"%string, KAnnotable);
   ("ContinuousCharacterMatrix"%string, KAnnotable);
   ("DnaCharacterMatrix"%string, KAnnotable);
   ("StandardCharacterMatrix"%string, KAnnotable);
   ("StateAlphabet"%string, KAtomic);
   ("DnaStateAlphabet"%string, KAtomic);
   ("StateIdentity"%string, KAtomic);
   ("Edge"%string, KAnnotable);
   ("Node"%string, KAnnotable);
   ("OrderedCaselessDict"%string, KCDict);
   ("Taxon"%string, KTaxon);
   ("TaxonNamespace"%string, KNamespace);
   ("Tree"%string, KAnnotable);
   ("TreeList"%string, KAnnotable)].

(* every class of the scanned source files that defines a __deepcopy__ (the last three are containers that never
   occur in a copied structure on their own: OrderedSet only as the base of AnnotationSet, which overrides it) *)
Definition deepcopy_definers : list String.string :=
  ["Annotable"%string; "AnnotationSet"%string; "CharacterMatrix"%string; "CharacterSubset"%string;
   "CharacterType"%string; "Edge"%string; "FrozenOrderedDict"%string; "Node"%string;
   "NormalizedBitmaskDict"%string; "OrderedCaselessDict"%string; "OrderedSet"%string; "StateAlphabet"%string;
   "StateIdentity"%string; "Taxon"%string; "TaxonNamespace"%string; "Tree"%string; "TreeList"%string].

Fixpoint class_kind (tbl : list (String.string * kind)) (c : String.string) : option kind :=
  match tbl with
  | [] => None
  | (c', k) :: r => if String.eqb c c' then Some k else class_kind r c
  end.

(* the value classes: __deepcopy__ returns self *)
Definition value_classes : list String.string :=
  ["StateAlphabet"%string; "DnaStateAlphabet"%string; "StateIdentity"%string].

(* an atomic object is opaque in a dumped heap: nothing behind it is followed (c12_graph.py) *)
Definition atomic_opaque (h : heap) : bool :=
  forallb (fun ob => match okind ob with
                     | KAtomic => match obody ob with [] => true | _ => false end
                     | _ => true
                     end) h.

(* the hypothesis of deep_copy_shares_only_atomic_objects beyond wf_heap, evaluated on every dumped case *)
Definition case_alias_hyp (c : case) : bool := atomic_opaque (c_heap c).
