(* C18 - run-time library of the GENERATED simulators (coq/Gen/Sim.v, produced by py/dv/gen_sim.py
   from the Python source).  Every primitive states the Python construct it stands for; this
   mapping is the trusted part of the translator tie.  Definitions only. *)
From Coq Require Import QArith ZArith List Bool Arith.
From DV Require Import Model.C18Model.
From DV Require Model.PyPrims.
Import ListNotations.
Open Scope nat_scope.

(* ------------------------------------------------------------------------------------------ *)
(* control flow                                                                                 *)
(* ------------------------------------------------------------------------------------------ *)

(* how a loop body ends: fell off its end / `continue` (CNext, with the carried variables),
   `break` (CBreak), `return r` (CReturn) *)
Inductive ctl (St R : Type) : Type := CNext (s : St) | CBreak (s : St) | CReturn (r : R).
Arguments CNext {St R} _.
Arguments CBreak {St R} _.
Arguments CReturn {St R} _.

(* `for a in l: body` without generator calls; result CNext s = the loop is over (end of the list
   or `break`) with carried variables s; CReturn r = the enclosing function returned r *)
Fixpoint py_for {St R A} (body : St -> A -> ctl St R) (l : list A) (s : St) : ctl St R :=
  match l with
  | [] => CNext s
  | a :: t => match body s a with
              | CNext s' => py_for body t s'
              | CBreak s' => CNext s'
              | CReturn r => CReturn r
              end
  end.

(* the same with a body that draws from the generator / can raise *)
Fixpoint py_forM {St R A} (body : St -> A -> M (ctl St R)) (l : list A) (s : St) : M (ctl St R) :=
  match l with
  | [] => ret (CNext s)
  | a :: t => bnd (body s a) (fun c => match c with
                                       | CNext s' => py_forM body t s'
                                       | CBreak s' => ret (CNext s')
                                       | CReturn r => ret (CReturn r)
                                       end)
  end.

(* `while cond: body` (the test is the first thing `body` does: CBreak when it fails).  Python has
   no loop bound; `fuel` is the model's: running out of it is the distinguished result NoFuel *)
Fixpoint py_while {St R} (fuel : nat) (body : St -> M (ctl St R)) (s : St) : M (ctl St R) :=
  match fuel with
  | 0 => fun _ => NoFuel
  | S f => bnd (body s) (fun c => match c with
                                  | CNext s' => py_while f body s'
                                  | CBreak s' => ret (CNext s')
                                  | CReturn r => ret (CReturn r)
                                  end)
  end.

(* a while loop whose every pass consumes at least one draw: fuel = draws left + 2 *)
Definition py_while_script {St R} (body : St -> M (ctl St R)) (s : St) : M (ctl St R) :=
  fun r => py_while (S (S (length (fst r)))) body s r.

(* ------------------------------------------------------------------------------------------ *)
(* numbers and lists                                                                            *)
(* ------------------------------------------------------------------------------------------ *)

(* sum(l) = ((0 + l[0]) + l[1]) + ... *)
Definition py_sum (l : list Q) : Q := qsum_left l.

(* `not x` for a number x *)
Definition py_not_q (q : Q) : bool := Qeq_bool q 0%Q.

Definition py_is_none {A} (o : option A) : bool := match o with None => true | Some _ => false end.

(* the value of an expression that the translator has established not to be None at this point
   (after `if x is None: x = c`, or in the right operand of `x is None or ...`) *)
Definition py_unwrap (o : option Q) : Q := lenq o.

(* combinatorics.choose(n, k) for a call with k = 2: n (n - 1) / 2 *)
Definition py_choose2 (n : nat) : Q := choose2 n.

(* enumerate(l) *)
Definition py_enumerate {A} (l : list A) : list (nat * A) := combine (seq 0 (length l)) l.

(* range(hi, -1, -1) : hi, hi - 1, ..., 0 (empty for hi < 0) *)
Definition py_range_down (hi : Z) : list nat := rev (seq 0 (Z.to_nat (hi + 1))).

(* l[i] for an index i produced by range(len(l)..) / enumerate(l): never out of range *)
Definition py_getitem_q (l : list Q) (i : nat) : Q := nth i l 0%Q.

(* seq[i] where i is an int or None: TypeError for None, IndexError out of range *)
Definition py_index {A} (l : list A) (oi : option nat) : M A :=
  match oi with
  | None => raise PyPrims.TypeErr
  | Some i => match nth_error l i with
              | Some a => ret a
              | None => raise PyPrims.IndexErr
              end
  end.

(* l[0] *)
Definition py_first {A} (l : list A) : M A :=
  match l with [] => raise PyPrims.IndexErr | a :: _ => ret a end.

(* ------------------------------------------------------------------------------------------ *)
(* gene-tree nodes as values (model/coalescent.py)                                              *)
(* A node that has been attached as a child is removed from every list that is mutated          *)
(* afterwards, so value semantics agrees with Python's reference semantics there.               *)
(* ------------------------------------------------------------------------------------------ *)

Definition g_new (tax : option nat) : gtree := G tax None [].                 (* Node(taxon=t) / Node() *)
Definition g_len (g : gtree) : option Q := match g with G _ l _ => l end.    (* g.edge.length *)
Definition g_set_len (g : gtree) (l : option Q) : gtree := match g with G x _ ks => G x l ks end.
Definition g_set_tax (g : gtree) (t : option nat) : gtree := match g with G _ l ks => G t l ks end.
Definition g_add_child (g c : gtree) : gtree := match g with G x l ks => G x l (ks ++ [c]) end.

(* to_coalesce = rng.sample(l, 2): the two sampled objects are named by their positions in l *)
Definition py_sample2 {A} (l : list A) : M (nat * nat) := d_sample2 (length l).
Definition py_ref (l : list gtree) (i : nat) : gtree := nth i l (G None None []).
(* l.remove(to_coalesce[0]) : the object at position i *)
Definition py_remove_ref1 {A} (i : nat) (l : list A) : list A := remove_nth i l.
(* l.remove(to_coalesce[1]) after to_coalesce[0] was removed: the object that was at position j *)
Definition py_remove_ref2 {A} (i j : nat) (l : list A) : list A := remove_nth (if i <? j then j - 1 else j) l.

(* ------------------------------------------------------------------------------------------ *)
(* the generator                                                                                *)
(* ------------------------------------------------------------------------------------------ *)

(* rng.expovariate(rate): ZeroDivisionError for rate 0, otherwise the next Exp entry *)
Definition py_expovariate (rate : Q) : M Q := expovariate rate.

(* ------------------------------------------------------------------------------------------ *)
(* nodes of the birth-death family: identities into the tree (model/birthdeath.py)              *)
(* A node reference is the creation index of the node; the tree holds every node once.          *)
(* ------------------------------------------------------------------------------------------ *)

(* dendropy.Tree(): one seed node, identity 0; its edge length (None in Python until the next
   statement sets it) is written 0 *)
Definition py_tree_new : btree := bleaf 0 0%Q.

(* nd.edge.length *)
Definition b_len (t : btree) (x : nat) : Q := match len_of x t with Some q => q | None => 0%Q end.
(* nd.edge.length = v *)
Definition b_set_len (t : btree) (x : nat) (v : Q) : btree := set_len x (fun _ => v) t.

(* nd.edge.length <op>= e *)
Definition b_upd_len (t : btree) (x : nat) (f : Q -> Q) : btree := set_len x f t.

(* hasattr(nd, 'birth_rate') / nd.birth_rate / nd.birth_rate = v on the attribute store (latest
   entry first); reading an attribute that was never set (AttributeError) is not modelled: every
   node gets both attributes when it is created or in the event loop *)
Definition b_has (rates : list (nat * Q)) (x : nat) : bool :=
  match assoc x rates with Some _ => true | None => false end.
Definition b_rate (rates : list (nat * Q)) (x : nat) : Q :=
  match assoc x rates with Some q => q | None => 0%Q end.
Definition b_set_rate (rates : list (nat * Q)) (x : nat) (v : Q) : list (nat * Q) := (x, v) :: rates.

(* c = nd.new_child(): a new last child with the next fresh identity (edge length None, written 0) *)
Fixpoint add_kid (x : nat) (c : btree) (t : btree) : btree :=
  match t with B i l tx ks => if i =? x then B i l tx (ks ++ [c]) else B i l tx (map (add_kid x c) ks) end.
Definition py_new_child (t : btree) (next : nat) (x : nat) : btree * nat * nat :=
  (add_kid x (bleaf next 0%Q) t, S next, next).

(* nd.taxon = x *)
Definition b_set_tax (t : btree) (x : nat) (tx : nat) : btree := set_tax [(x, tx)] t.

(* nd.clear_child_nodes() *)
Definition b_clear_children (t : btree) (x : nat) : btree := set_kids x [] t.

(* l.remove(nd): the first occurrence; ValueError when absent *)
Definition py_list_remove (x : nat) (l : list nat) : M (list nat) :=
  if memb x l then ret (remove_first x l) else raise PyPrims.ValueErr.

(* ------------------------------------------------------------------------------------------ *)
(* taxon namespace = the list of its labels; a taxon = its accession index                      *)
(* ------------------------------------------------------------------------------------------ *)

(* t.label *)
Definition py_label (ns : list lab) (t : nat) : lab := nth t ns (LO 0).
(* l.pop() on a list the translator knows to be non-empty (guarded by `if l:`) *)
Definition py_pop (l : list nat) : list nat * nat := (removelast l, last l 0).
(* ns.new_taxon(label=a): a new taxon is appended, whatever labels exist *)
Definition py_new_taxon (ns : list lab) (a : lab) : list lab * nat := (ns ++ [a], length ns).

(* ------------------------------------------------------------------------------------------ *)
(* parent pointers of the birth-death tree (the extinct-tip pruning loop)                       *)
(* ------------------------------------------------------------------------------------------ *)

(* nd.parent_node : the identity of the node that lists nd among its children (None for the seed) *)
Fixpoint parent_of (x : nat) (t : btree) : option nat :=
  match t with B i _ _ ks =>
    if existsb (fun k => b_id k =? x) ks then Some i
    else fold_right (fun k acc => match parent_of x k with Some p => Some p | None => acc end) None ks
  end.
(* len(nd._child_nodes) *)
Fixpoint nkids_of (x : nat) (t : btree) : option nat :=
  match t with B i _ _ ks =>
    if i =? x then Some (length ks)
    else fold_right (fun k acc => match nkids_of x k with Some n => Some n | None => acc end) None ks
  end.
Definition b_parent (t : btree) (x : nat) : option nat := parent_of x t.
Definition b_nkids (t : btree) (x : nat) : nat := match nkids_of x t with Some n => n | None => 0 end.
(* the node denoted by an expression the translator has established not to be None *)
Definition py_unwrap_n (o : option nat) : nat := match o with Some n => n | None => 0 end.
(* a label set bound to a name that was initialised to None and is filled in later (`x = None` ..
   `if x is None: x = set(...)`), at a use the translator has established to come after the fill *)
Definition py_unwrap_labs (o : option (list lab)) : list lab := match o with Some l => l | None => [] end.

(* node._parent_node.remove_child(node) *)
Fixpoint remove_child (x : nat) (t : btree) : btree :=
  match t with B i l tx ks =>
    B i l tx (flat_map (fun k => if b_id k =? x then [] else [remove_child x k]) ks) end.
(* tree.prune_subtree(nd, suppress_unifurcations=False): TypeError for a node without parent *)
Definition b_prune_subtree (t : btree) (x : nat) : M btree :=
  match parent_of x t with
  | None => raise PyPrims.TypeErr
  | Some _ => ret (remove_child x t)
  end.

(* ------------------------------------------------------------------------------------------ *)
(* the containing tree of contained_coalescent_tree: a value of type stree (C18Model.v)        *)
(* ------------------------------------------------------------------------------------------ *)

(* the identity of a node of the containing tree (used as dictionary key) *)
Definition s_id (s : stree) : nat := match s with SN i _ _ _ _ => i end.
(* `nd.taxon and nd.taxon in gene_to_containing_taxon_map.reverse` *)
Definition s_has_genes (s : stree) : bool := match s with SN _ (Some _) _ _ _ => true | _ => false end.
(* containing_tree.postorder_node_iter() *)
Fixpoint s_post (s : stree) : list stree :=
  match s with SN _ _ _ _ ks => flat_map s_post ks ++ [s] end.
(* containing_tree.postorder_edge_iter(): an edge = (its head node, the identity of its tail node =
   head_node.parent_node, None for the edge of the seed node) *)
Fixpoint s_post_edges (parent : option nat) (s : stree) : list (stree * option nat) :=
  match s with SN i _ _ _ ks => flat_map (s_post_edges (Some i)) ks ++ [(s, parent)] end.

(* a dict keyed by nodes: association list keyed by node identity; a later binding shadows an earlier
   one (the iteration order of the dict is never observed by the translated code) *)
Fixpoint d_get {V} (d : list (nat * V)) (k : nat) : option V :=
  match d with [] => None | (k', v) :: r => if k' =? k then Some v else d_get r k end.
(* key in d *)
Definition d_has {V} (d : list (nat * V)) (k : nat) : bool :=
  match d_get d k with Some _ => true | None => false end.
(* d[key] = v *)
Definition d_set {V} (d : list (nat * V)) (k : nat) (v : V) : list (nat * V) := (k, v) :: d.
(* d[key]: KeyError when absent *)
Definition py_dict_get {V} (d : list (nat * V)) (k : nat) : M V :=
  match d_get d k with Some v => ret v | None => raise PyPrims.KeyErr end.

(* L[i] = v : IndexError when i is out of range *)
Definition py_list_set {A} (l : list A) (i : nat) (v : A) : M (list A) :=
  if i <? length l then ret (set_nth i v l) else raise PyPrims.IndexErr.
(* del L[i] : IndexError when i is out of range *)
Definition py_list_del {A} (l : list A) (i : nat) : M (list A) :=
  if i <? length l then ret (remove_nth i l) else raise PyPrims.IndexErr.
