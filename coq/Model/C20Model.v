(* C20: readers terminate on every input and report bad data as a parse error.

   Part 1  the progress rule over the GENERATED reader-loop table (Gen/ReaderLoops.v)
   Part 2  PHYLIP reader  (dataio/phylipreader.py)  complete at character / line level
   Part 3  FASTA reader   (dataio/fastareader.py)   complete at character / line level
   (the NEXUS control skeleton is in Model/C20Nexus.v, on top of C02's Tokenizer.v / Newick.v)

   Executable definitions only; proofs are in Proofs/C20*.v.

   Strings are lists of Unicode code points.  Python runtime functions that the readers call are
   parameters of the model (Section variables), no property of them is assumed:
     isspace  str.isspace of one character (also `\s` of `re`, str.strip/rstrip/split)
     dval     value of a Unicode decimal digit (`\d` of `re`, int())
     lower    str.lower (TaxonNamespace label matching when the namespace is case-insensitive)
     sym      the matrix's state alphabet: symbol -> canonical symbol of the state it denotes
              (None = KeyError)
   The correspondence check instantiates them with the ASCII/Unicode tables at the end of this
   file and only generates characters on which those tables are exact. *)
From Coq Require Import String ZArith List Bool.
From DV Require Import Model.PyPrims Gen.ReaderLoops.
Import ListNotations.
Close Scope string_scope.
Open Scope list_scope.
Open Scope Z_scope.

(* ========================================================================================== *)
(* Part 1: the progress rule                                                                   *)
(* ========================================================================================== *)

(* A reader loop terminates on every input when
     (P) every iteration that returns to the loop head consumes at least one token / character
         unless the stream is exhausted, and
     (E) once the stream is exhausted the loop is left after a bounded number of iterations.
   The fetch primitives are the trusted base of the rule (their contract is `tokenizer_progress`
   in Props/C20.v, proved about Model/Tokenizer.v): a fetch strictly shortens the stream or the
   stream is exhausted; at end of stream `require_*` raises UnexpectedEndOfStreamError,
   `next_token*` returns None, `_get_next_char` sets `_cur_char = ""`, and the exhausted state
   is permanent.

   R0  no path through the body returns to the loop head (the loop runs at most once)
   R1  (P) every back-edge path fetches, and (E) the guard leaves the loop at end of stream:
       it tests `is_eof()`, or the current character, or tests the token variable against None
       and that variable holds a fetch result on every back-edge path
   R2  every back-edge path executes a `require_*` fetch: (P) and (E) at once, since at end of
       stream the fetch raises
   R3  (the only rule available to `while True` / `for .. in itertools.count()`, sound for every
       loop): (P) every back-edge path fetches and (E) every back-edge path either executes a
       `require_*` fetch or passes the continuing branch of a test that leaves the loop
       (break / return / raise) when the stream is exhausted or the token just fetched is None.
       Because exhaustion is permanent the loop is left at the latest one iteration after the
       first fetch that hit the end. *)

Definition R0 (l : loop) : bool := has_unconditional_exit l.

Definition R1 (l : loop) : bool :=
  every_path_fetches l
  && (guard_tests_eof l || guard_tests_cur_char l
      || (guard_tests_none l && guard_none_var_refetched l)).

Definition R2 (l : loop) : bool := every_path_requires l && every_path_fetches l.

Definition R3 (l : loop) : bool := every_path_fetches l && every_path_eof_checked l.

Definition loop_ok (l : loop) : bool := R0 l || R1 l || R2 l || R3 l.

(* the rule of DESIGN.md 4.1 / 6.20 in its original, purely syntactic form, for comparison:
   every fetch that occurs in the body is a require_* primitive *)
Definition is_require (f : fetch_kind) : bool :=
  match f with
  | FRequireNextToken | FRequireNextTokenUcase => true
  | FCallee _ _ raising => raising
  | _ => false
  end.
Definition is_fetch (f : fetch_kind) : bool :=
  match f with FNone => false | FCallee _ consuming _ => consuming | _ => true end.
Definition R2_syntactic (l : loop) : bool :=
  existsb is_fetch (fetches l) && forallb (fun f => negb (is_fetch f) || is_require f) (fetches l).

(* identification of a loop that does not depend on line numbers: file, function, ordinal of the
   loop inside the function, digest of the loop's AST.  An entry stops matching as soon as the
   loop is edited (fail closed). *)
Definition loop_id : Type := (string * string * Z * string)%type.

Definition loop_matches (l : loop) (i : loop_id) : bool :=
  let '(f, fn, ix, dg) := i in
  String.eqb (l_file l) f && String.eqb (l_func l) fn && (l_index l =? ix) && String.eqb (l_digest l) dg.

Definition loop_in (ids : list loop_id) (l : loop) : bool := existsb (loop_matches l) ids.

(* ========================================================================================== *)
(* shared string functions                                                                     *)
(* ========================================================================================== *)

Definition str := list Z.

Definition str_eqb (a b : str) : bool := list_eqb Z.eqb a b.

Definition zlen {A} (l : list A) : Z := Z.of_nat (length l).

Section Py.
Variable isspace : Z -> bool.
Variable dval : Z -> option Z.
Variable lower : str -> str.
Variable sym : Z -> option Z.

Fixpoint lstrip (s : str) : str :=
  match s with c :: r => if isspace c then lstrip r else s | [] => [] end.
Definition rstrip (s : str) : str := rev (lstrip (rev s)).
Definition strip (s : str) : str := rstrip (lstrip s).

(* maximal prefix satisfying p *)
Fixpoint span (p : Z -> bool) (s : str) : str * str :=
  match s with
  | c :: r => if p c then let '(a, b) := span p r in (c :: a, b) else ([], s)
  | [] => ([], [])
  end.

Definition is_digit (c : Z) : bool := match dval c with Some _ => true | None => false end.

(* int(s) for s matching \d+ *)
Definition int_of (s : str) : Z :=
  fold_left (fun acc c => acc * 10 + match dval c with Some v => v | None => 0 end) s 0.

(* ========================================================================================== *)
(* Part 2: PhylipReader                                                                        *)
(* ========================================================================================== *)

(* filesys.get_lines:  re.split(r'\r\n|\n|\r', s) *)
Fixpoint split_lines (s : str) (cur : str) : list str :=
  match s with
  | [] => [rev cur]
  | c :: r =>
    if c =? 10 then rev cur :: split_lines r []
    else if c =? 13 then
      match r with
      | d :: r' => if d =? 10 then rev cur :: split_lines r' [] else rev cur :: split_lines r []
      | [] => rev cur :: split_lines r []
      end
    else split_lines r (c :: cur)
  end.

(* re.match(r'\s*(\d+)\s+(\d+)\s*$', line): the character classes are disjoint, so the match is
   the deterministic scan.  ($ also matches before a final "\n"; lines never contain one.) *)
Definition match_desc (line : str) : option (Z * Z) :=
  let s0 := lstrip line in
  let '(d1, s1) := span is_digit s0 in
  match d1 with
  | [] => None
  | _ =>
    let '(w, s2) := span isspace s1 in
    match w with
    | [] => None
    | _ =>
      let '(d2, s3) := span is_digit s2 in
      match d2 with
      | [] => None
      | _ => match lstrip s3 with [] => Some (int_of d1, int_of d2) | _ => None end
      end
    end
  end.

Definition is_blank (c : Z) : bool := (c =? 32) || (c =? 9).     (* [ \t] *)

(* re.split('[ \t]{n,}', line, maxsplit=1), n = 1 or 2: (parts[0], parts[1] or None) *)
Fixpoint split_blank (n2 : bool) (s : str) (acc : str) : str * option str :=
  match s with
  | [] => (rev acc, None)
  | c :: r =>
    if is_blank c then
      let '(run, rest) := span is_blank r in
      if n2 && match run with [] => true | _ => false end
      then split_blank n2 r (c :: acc)              (* a single blank does not split *)
      else (rev acc, Some rest)
    else split_blank n2 r (c :: acc)
  end.

Record popts : Type := mkPopts {
  po_strict : bool;               (* strict *)
  po_interleaved : bool;          (* interleaved *)
  po_multispace : bool;           (* multispace_delimiter *)
  po_underscores : bool;          (* underscores_to_spaces *)
  po_ignore_invalid : bool;       (* ignore_invalid_chars *)
  po_case_sensitive : bool;       (* the TaxonNamespace handed to the reader is case sensitive *)
  (* which form of the two recorded defect sites the working tree has (DESIGN 5.2) *)
  po_fix_fmt : bool;              (* `%d` given len(sequence) instead of the sequence (F14) *)
  po_fix_dims : bool              (* every row is checked against the declared NCHAR (F14) *)
}.

(* a matrix: rows in creation order; label of the row's Taxon and the canonical state symbols.
   In the reader the three collections taxon_namespace / char_matrix / taxa_processed always have
   the same members (every taxon is created by require_taxon in _parse_taxon_from_line, given a
   sequence and added to taxa_processed in the same call), so one list stands for all three. *)
Definition row : Type := (str * list Z)%type.

Definition label_matches (cs : bool) (a b : str) : bool :=
  if cs then str_eqb a b else str_eqb (lower a) (lower b).

(* TaxonNamespace.require_taxon(label): index of the first member whose label matches *)
Fixpoint find_row (cs : bool) (label : str) (rows : list row) (i : nat) : option nat :=
  match rows with
  | [] => None
  | (l, _) :: r => if label_matches cs l label then Some i else find_row cs label r (S i)
  end.

Fixpoint append_at (rows : list row) (i : nat) (add : list Z) : list row :=
  match rows, i with
  | [], _ => []
  | (l, s) :: r, O => (l, s ++ add) :: r
  | x :: r, S j => x :: append_at r j add
  end.

Definition row_len (rows : list row) (i : nat) : Z :=
  match nth_error rows i with Some (_, s) => zlen s | None => 0 end.

(* _parse_taxon_from_line: (index of current_taxon, rest of the line, rows) *)
Definition parse_taxon_from_line (o : popts) (ntax nchar : Z) (rows : list row) (line : str)
  : res (nat * str * list row) :=
  let '(lab0, rest) :=
      if po_strict o then (strip (firstn 10 line), skipn 10 line)
      else match split_blank (po_multispace o) line [] with
           | (a, Some b) => (a, b)
           | (a, None) => (a, [])
           end in
  let lab1 := strip lab0 in
  match lab1 with
  | [] => Err ParseErr                                    (* "Expecting taxon label" *)
  | _ =>
    let lab := if po_underscores o then map (fun c => if c =? 95 then 32 else c) lab1 else lab1 in
    match find_row (po_case_sensitive o) lab rows O with
    | None =>
      let rows' := rows ++ [(lab, [])] in
      if zlen rows' >? ntax then Err ParseErr             (* _taxon_error *)
      else Ok (length rows, rest, rows')
    | Some i =>
      if row_len rows i >=? nchar
      then Err (if po_fix_fmt o then ParseErr else TypeErr)   (* "... (%d)" % (label, sequence) *)
      else if zlen rows >? ntax then Err ParseErr
      else Ok (i, rest, rows)
    end
  end.

(* _parse_sequence_from_line, discrete data *)
Fixpoint parse_symbols (ignore_invalid : bool) (line : str) : res (list Z) :=
  match line with
  | [] => Ok []
  | c :: r =>
    if is_blank c then parse_symbols ignore_invalid r
    else match sym c with
         | Some x => do l <- parse_symbols ignore_invalid r ;; Ok (x :: l)
         | None => if ignore_invalid then parse_symbols ignore_invalid r else Err ParseErr
         end
  end.

(* _parse_sequential *)
Fixpoint parse_sequential (o : popts) (ntax nchar : Z) (lines : list str) (cur : option nat)
         (rows : list row) : res (list row) :=
  match lines with
  | [] => Ok rows
  | line0 :: rest =>
    let line := rstrip line0 in
    match line with
    | [] => parse_sequential o ntax nchar rest cur rows
    | _ =>
      do t <- (match cur with
               | Some i => Ok (i, line, rows)
               | None => parse_taxon_from_line o ntax nchar rows line
               end) ;;
      let '(i, body, rows1) := t in
      do syms <- parse_symbols (po_ignore_invalid o) body ;;
      let rows2 := append_at rows1 i syms in
      parse_sequential o ntax nchar rest
                       (if row_len rows2 i >=? nchar then None else Some i) rows2
    end
  end.

(* _parse_interleaved; paged_row is an int that starts at -1 *)
Fixpoint parse_interleaved (o : popts) (ntax nchar : Z) (lines : list str) (paged : bool)
         (paged_row : Z) (rows : list row) : res (list row) :=
  match lines with
  | [] => Ok rows
  | line0 :: rest =>
    let line := rstrip line0 in
    match line with
    | [] => parse_interleaved o ntax nchar rest paged paged_row rows
    | _ =>
      let pr1 := paged_row + 1 in
      let pr := if pr1 >=? ntax then 0 else pr1 in
      if paged then
        (* current_taxon = self.char_matrix.taxon_namespace[paged_row] *)
        if (0 <=? pr) && (pr <? zlen rows) then
          do syms <- parse_symbols (po_ignore_invalid o) line ;;
          parse_interleaved o ntax nchar rest true pr (append_at rows (Z.to_nat pr) syms)
        else Err IndexErr
      else
        do t <- parse_taxon_from_line o ntax nchar rows line ;;
        let '(i, body, rows1) := t in
        let '(paged', pr') := if zlen rows1 =? ntax then (true, -1) else (false, pr) in
        do syms <- parse_symbols (po_ignore_invalid o) body ;;
        parse_interleaved o ntax nchar rest paged' pr' (append_at rows1 i syms)
    end
  end.

(* PhylipReader._read (discrete data types) *)
Definition phylip_read (o : popts) (text : str) : res (list row) :=
  let lines := split_lines text [] in
  match lines with
  | [] | [_] | [_; _] => Err ParseErr           (* "Expecting at least 2 lines ..." *)
  | desc :: rest =>
    match match_desc desc with
    | None => Err ParseErr                      (* "Invalid data description line" *)
    | Some (ntax, nchar) =>
      if (ntax =? 0) || (nchar =? 0) then Err ParseErr      (* "No data in source" *)
      else
        do rows <- (if po_interleaved o
                    then parse_interleaved o ntax nchar rest false (-1) []
                    else parse_sequential o ntax nchar rest None []) ;;
        if negb (zlen rows =? ntax) then Err ParseErr        (* _taxon_error *)
        else if po_fix_dims o && negb (forallb (fun r => zlen (snd r) =? nchar) rows)
        then Err ParseErr
        else Ok rows
    end
  end.

(* what the document declares *)
Definition phylip_declared (text : str) : option (Z * Z) :=
  match split_lines text [] with
  | desc :: _ => match_desc desc
  | [] => None
  end.

(* ========================================================================================== *)
(* Part 3: FastaReader                                                                         *)
(* ========================================================================================== *)

(* `for line in stream` over io.StringIO(text): lines end at "\n" (kept; stripped anyway) *)
Fixpoint split_nl (s : str) (cur : str) : list str :=
  match s with
  | [] => match cur with [] => [] | _ => [rev cur] end
  | c :: r => if c =? 10 then rev (c :: cur) :: split_nl r [] else split_nl r (c :: cur)
  end.

(* the inner loop over the characters of a sequence line *)
Fixpoint fasta_symbols (s : str) : res (list Z) :=
  match s with
  | [] => Ok []
  | c :: r =>
    if isspace c then fasta_symbols r                      (* c.strip() is empty *)
    else match sym c with
         | Some x => do l <- fasta_symbols r ;; Ok (x :: l)
         | None => Err ParseErr
         end
  end.

(* curr_vec is the row index; `len(curr_vec) == 0` looks at the row as it is now *)
Fixpoint fasta_lines (cs : bool) (lines : list str) (cur : option nat) (rows : list row)
  : res (list row) :=
  match lines with
  | [] => Ok rows
  | line :: rest =>
    let s := strip line in
    match s with
    | [] => fasta_lines cs rest cur rows
    | c :: r =>
      if c =? 62 then                                      (* '>' *)
        let name := strip r in
        match find_row cs name rows O with
        | Some _ => Err ParseErr                           (* repeated sequence name *)
        | None =>
          (* the Taxon is created by require_taxon before the checks; it does not matter for the
             outcome, the reader raises *)
          if match cur with Some i => row_len rows i =? 0 | None => false end
          then Err ParseErr                                (* expected sequence *)
          else fasta_lines cs rest (Some (length rows)) (rows ++ [(name, [])])
        end
      else
        match cur with
        | None => Err ParseErr                             (* sequence before any '>' line *)
        | Some i =>
          do syms <- fasta_symbols s ;;
          fasta_lines cs rest cur (append_at rows i syms)
        end
    end
  end.

Definition fasta_read (cs : bool) (text : str) : res (list row) :=
  fasta_lines cs (split_nl text []) None [].

End Py.

(* ========================================================================================== *)
(* instances used by the correspondence check                                                  *)
(* ========================================================================================== *)

(* str.isspace for one character *)
Definition py_isspace (c : Z) : bool :=
  ((9 <=? c) && (c <=? 13)) || ((28 <=? c) && (c <=? 32)) || (c =? 133) || (c =? 160)
  || (c =? 5760) || ((8192 <=? c) && (c <=? 8202)) || (c =? 8232) || (c =? 8233)
  || (c =? 8239) || (c =? 8287) || (c =? 12288).

Definition ascii_dval (c : Z) : option Z :=
  if (48 <=? c) && (c <=? 57) then Some (c - 48) else None.

Definition ascii_lower (s : str) : str :=
  map (fun c => if (65 <=? c) && (c <=? 90) then c + 32 else c) s.

Fixpoint zassoc (k : Z) (l : list (Z * Z)) : option Z :=
  match l with
  | [] => None
  | (a, b) :: r => if k =? a then Some b else zassoc k r
  end.

(* one PHYLIP / FASTA observation *)
Inductive mat_obs : Type :=
| MOk (rows : list row)
| MErr (e : err).

Definition mat_obs_eqb (a : res (list row)) (b : mat_obs) : bool :=
  match a, b with
  | Ok r, MOk r' => list_eqb (fun x y => str_eqb (fst x) (fst y) && str_eqb (snd x) (snd y)) r r'
  | Err e, MErr e' => err_eqb e e'
  | _, _ => false
  end.

(* ========================================================================================== *)
(* the allow-list of the progress rule                                                         *)
(* ========================================================================================== *)
Open Scope string_scope.

(* Loops that the mechanical rule cannot discharge.  Each entry is pinned to the loop's AST digest:
   editing the loop voids the entry (then `loop_progress` fails and the harness searches for a
   hanging input).  Why each of them terminates: *)
Definition allow_list : list loop_id :=
  [ (* tokenizer.py:209  Tokenizer.__next__, the unquoted-token scan `while self._cur_char != "":`.
       (E) holds by R1 (the guard tests the current character).  (P): the only back-edge path
       without a direct `_get_next_char()` is the comment branch, `self._handle_comment()` followed
       by `if self._cur_char == "": break`.  `_handle_comment` is entered with `_cur_char` in
       `comment_begin`, hence not "", so its own loop (tokenizer.py:259, discharged mechanically:
       every path through its body calls `_get_next_char()`) runs at least once: the comment
       branch consumes >= 1 character as well.  The classifier cannot see this because it treats a
       callee whose only fetches sit inside a `while` as possibly not fetching.
       Proved about the model: Tokenizer.v `handle_comment` / `unquoted_loop`, theorem
       `tokenizer_progress`. *)
    ("tokenizer.py", "Tokenizer.__next__", 2, "18ffb29fcbad");
    (* newickreader.py:296  NewickReader.tree_iter
         while True: tree = self._parse_tree_statement(..); yield tree; if tree is None: return
       (E) `_parse_tree_statement` first runs `while (tok == ";" or tok is None) and not is_eof():
       require_next_token()` (newickreader.py:358, R2) and then returns None when `is_eof()`;
       `tree is None` leaves the loop.  (P) when it returns a tree it has consumed a token: either
       that leading loop fetched, or `_parse_tree_node_description` did: on "(" it calls
       require_next_token, on ":" or a label its label loop calls require_next_token, and on ")" or
       "," it returns at once with `_tree_statement_complete == False`, upon which
       `_parse_tree_statement` raises NewickReaderIncompleteTreeStatementError instead of returning.
       The classifier does not accept a None test on the result of a callee.
       Proved about the model: theorem `newick_reader_total` (Newick.v `tree_iter`). *)
    ("newickreader.py", "NewickReader.tree_iter", 1, "2c0069802178");
    (* newickreader.py:504  NewickReader._parse_tree_node_description, `for count in it.count():`
       over the children of a node.  Back-edge paths: the "," branch executes require_next_token
       (R2); the ")" branch leaves; the else branch recurses on a child with the current token not
       in {",", ")"}: the callee calls require_next_token when that token is "(" or ":" or a
       label, and when it is ";" it calls next_token() and then raises "Unbalanced parentheses"
       because the nesting level is >= 1 inside a child list.  So every back-edge path consumes a
       token or raises at end of stream.  The classifier cannot use the path condition
       (token not in {",", ")"}) that makes the callee consuming.
       Proved about the model: `newick_reader_total` (Newick.v `children_loop`). *)
    ("newickreader.py", "NewickReader._parse_tree_node_description", 1, "34b0cd6b1a42");
    (* the same loop before the fix commit "NewickReader keeps a trailing blank leaf after a named
       sibling" (one `if` condition inside the "," branch differs; the fetches are identical) *)
    ("newickreader.py", "NewickReader._parse_tree_node_description", 1, "5d3a1018fea0");
    (* nexusyielder.py:79  NexusTreeDataYielder._yield_items_from_stream (assume_newick_if_not_nexus)
         while True: tree = self._build_tree_from_newick_tree_string(..); if tree is None: break; yield
       the same loop as newickreader.py:296, through NewickReader._parse_tree_statement. *)
    ("nexusyielder.py", "NexusTreeDataYielder._yield_items_from_stream", 1, "7d8becceb423");
    (* newickyielder.py:67  NewickTreeDataYielder._yield_items_from_stream: the same loop once more
         while True: tree = self.newick_reader._parse_tree_statement(..); if tree is None: break; yield tree *)
    ("newickyielder.py", "NewickTreeDataYielder._yield_items_from_stream", 1, "57d1aa25ff1a");
    (* tokenizer.py after the proposed fix 15 (notes/C20_fix_15.patch: the self re-entry of __next__ becomes a
       loop): the unquoted-token scan of the first entry, now in `_scan_token` (same digest) ... *)
    ("tokenizer.py", "Tokenizer._scan_token", 2, "18ffb29fcbad");
    (* ... and the new rescan loop `while True: token = self._scan_token(); if token is not None: return token`.
       `_scan_token` returns None only from the unquoted branch with an empty token and `_cur_char != ""`,
       i.e. after a scan that consumed at least one character (an uncaptured delimiter or a comment; the
       branch is entered on a significant character that is neither a captured delimiter nor a quote);
       at end of stream it raises StopIteration.  Hence (P) and (E).  About the model this is
       `tokenizer_progress` (Tokenizer.v `next_tok` re-enters on exactly that condition). *)
    ("tokenizer.py", "Tokenizer.__next__", 1, "650182e8753b") ].

(* Direct recursion in the reader modules (not loops, listed by the generator).  Depth is bounded by
   the input: `_parse_tree_node_description` recurses once per "(" / child token after consuming
   it (depth = parenthesis nesting; CPython's recursion limit turns deep nesting into
   RecursionError, reported by the harness as a finding of its own); `Tokenizer.__next__`
   re-enters itself only after an unquoted scan that consumed >= 1 character (a delimiter or a
   comment) and produced an empty token. *)
Definition recursion_allow : list (string * string) :=
  [ ("newickreader.py", "NewickReader._parse_tree_node_description");
    ("tokenizer.py", "Tokenizer.__next__") ].

Definition recursion_known (r : string * string * Z) : bool :=
  let '(f, fn, _) := r in
  existsb (fun a => String.eqb (fst a) f && String.eqb (snd a) fn) recursion_allow.

Definition loop_accepted (l : loop) : bool := loop_ok l || loop_in allow_list l.
Close Scope string_scope.
