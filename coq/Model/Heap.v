(* Shared MUTABLE-TREE CORE (used by C03, C07, C08): executable model of the doubly linked
   Node/Edge structure of dendropy.datamodel.treemodel and of the Node- and Edge-level mutators.
   Definitions only (no proofs).  Style: Coq stdlib lists / association lists.

   A Node object is an id (Z).  Its Edge object is identified with the node (the library never
   re-seats Node._edge in any modelled operation; Edge.tail_node is the derived property
   head_node._parent_node, Edge.length is the field `c_elen` of the head node's cell).

   heap  = finite map  id -> cell {parent; kids; elen; taxon; label}
           + seed id (Tree._seed_node) + rooted (Tree._is_rooted : None/True/False)
           + next (the id the next Node() constructor call receives; the harness numbers
             library-created nodes in creation order).
   A cell that is absent reads as `dcell` (a Node as its constructor leaves it).

   Python exceptions: `hres` carries the heap AT THE MOMENT OF THE RAISE, because the property
   talks about the state an exception leaves behind.

   Transcribed from  src/dendropy/datamodel/treemodel/_node.py  (add_child, insert_child,
   new_child, insert_new_child, remove_child, clear_child_nodes, set_child_nodes, parent_node
   setter, collapse_clade, _convert_node_to_root_polytomy) and _edge.py (tail_node setter,
   Edge.collapse, Edge.invert).  Garbage is modelled faithfully: a node that drops out of the
   tree keeps whatever stale _parent_node/_child_nodes the code leaves in it. *)
From Coq Require Import ZArith List Bool Lia.
From DV Require Import Model.PyPrims Model.Tree.
Import ListNotations.
Open Scope Z_scope.

(* ---------- cells and heaps ---------- *)

Record cell := mkCell {
  c_parent : option Z;       (* Node._parent_node *)
  c_kids : list Z;           (* Node._child_nodes *)
  c_elen : option Z;         (* Node._edge.length, in units of 2^-10 (see Tree.v) *)
  c_taxon : option Z;        (* Node.taxon *)
  c_label : option Z         (* Node.label *)
}.

Definition dcell : cell := mkCell None [] None None None.

Record heap := mkHeap {
  cells : list (Z * cell);
  seed : Z;                  (* Tree._seed_node *)
  rooted : option bool;      (* Tree._is_rooted *)
  next : Z                   (* id of the next constructed Node *)
}.

Fixpoint alookup (k : Z) (m : list (Z * cell)) : option cell :=
  match m with
  | [] => None
  | (k', v) :: r => if Z.eqb k k' then Some v else alookup k r
  end.

(* replace in place, or append: the map keeps one binding per key *)
Fixpoint aupd (k : Z) (v : cell) (m : list (Z * cell)) : list (Z * cell) :=
  match m with
  | [] => [(k, v)]
  | (k', v') :: r => if Z.eqb k k' then (k, v) :: r else (k', v') :: aupd k v r
  end.

Definition has (h : heap) (i : Z) : bool :=
  match alookup i (cells h) with Some _ => true | None => false end.

Definition get (h : heap) (i : Z) : cell :=
  match alookup i (cells h) with Some c => c | None => dcell end.

Definition parent (h : heap) (i : Z) : option Z := c_parent (get h i).
Definition kids (h : heap) (i : Z) : list Z := c_kids (get h i).
Definition elen (h : heap) (i : Z) : option Z := c_elen (get h i).
Definition taxon (h : heap) (i : Z) : option Z := c_taxon (get h i).
Definition label (h : heap) (i : Z) : option Z := c_label (get h i).

Definition upd_cell (i : Z) (f : cell -> cell) (h : heap) : heap :=
  mkHeap (aupd i (f (get h i)) (cells h)) (seed h) (rooted h) (next h).

Definition set_parent (i : Z) (v : option Z) : heap -> heap :=
  upd_cell i (fun c => mkCell v (c_kids c) (c_elen c) (c_taxon c) (c_label c)).
Definition set_kids (i : Z) (v : list Z) : heap -> heap :=
  upd_cell i (fun c => mkCell (c_parent c) v (c_elen c) (c_taxon c) (c_label c)).
Definition set_elen (i : Z) (v : option Z) : heap -> heap :=
  upd_cell i (fun c => mkCell (c_parent c) (c_kids c) v (c_taxon c) (c_label c)).
Definition set_taxon (i : Z) (v : option Z) : heap -> heap :=
  upd_cell i (fun c => mkCell (c_parent c) (c_kids c) (c_elen c) v (c_label c)).
Definition set_label (i : Z) (v : option Z) : heap -> heap :=
  upd_cell i (fun c => mkCell (c_parent c) (c_kids c) (c_elen c) (c_taxon c) v).

Definition set_seed (i : Z) (h : heap) : heap := mkHeap (cells h) i (rooted h) (next h).
Definition set_rooted (r : option bool) (h : heap) : heap := mkHeap (cells h) (seed h) r (next h).

(* Node(taxon=x, label=l, edge_length=e): the new node's id is `next h` *)
Definition alloc (x l e : option Z) (h : heap) : heap :=
  mkHeap (aupd (next h) (mkCell None [] e x l) (cells h)) (seed h) (rooted h) (next h + 1).

(* ---------- Python list operations on id lists ---------- *)

Definition memz (x : Z) (l : list Z) : bool := existsb (Z.eqb x) l.

(* list.index(x): position of the first occurrence *)
Fixpoint index_of (x : Z) (l : list Z) : option nat :=
  match l with
  | [] => None
  | y :: r => if Z.eqb x y then Some O
              else match index_of x r with Some n => Some (S n) | None => None end
  end.

(* list.remove(x): deletes the first occurrence *)
Fixpoint remove_first (x : Z) (l : list Z) : list Z :=
  match l with
  | [] => []
  | y :: r => if Z.eqb x y then r else y :: remove_first x r
  end.

(* l[idx] = y for the first idx with l[idx] is x *)
Fixpoint replace_first (x y : Z) (l : list Z) : list Z :=
  match l with
  | [] => []
  | z :: r => if Z.eqb x z then y :: r else z :: replace_first x y r
  end.

(* list.insert(n, x) for n >= 0 (positions beyond the end append) *)
Definition insert_at (n : nat) (x : Z) (l : list Z) : list Z := firstn n l ++ x :: skipn n l.

(* "try: a.edge.length += b.edge.length  except: pass"  (None on either side raises TypeError,
   which the bare except swallows) *)
Definition add_len_try (a b : Z) (h : heap) : heap :=
  match elen h a, elen h b with
  | Some la, Some lb => set_elen a (Some (la + lb)) h
  | _, _ => h
  end.

(* "if b.length is not None: a.length = b.length if a.length is None else a.length + b.length" *)
Definition add_len_none (a : Z) (lb : option Z) (h : heap) : heap :=
  match lb with
  | None => h
  | Some l => set_elen a (Some (match elen h a with None => l | Some la => la + l end)) h
  end.

(* ---------- results ---------- *)

Inductive hres : Type :=
| HOk (h : heap)
| HErr (e : err) (h : heap)     (* exception e raised; h is the state left behind *)
| HFuel.                        (* a fuelled loop of the MODEL ran out of fuel (excluded by proof) *)

Definition hbind (r : hres) (k : heap -> hres) : hres :=
  match r with HOk h => k h | HErr e h => HErr e h | HFuel => HFuel end.

Notation "'hdo' x <- r ;; k" := (hbind r (fun x => k))
  (at level 200, x name, r at level 100, k at level 200).

(* for x in l: body(x) *)
Fixpoint hfold (f : Z -> heap -> hres) (l : list Z) (h : heap) : hres :=
  match l with
  | [] => HOk h
  | x :: r => hbind (f x h) (hfold f r)
  end.

Definition hres_heap (r : hres) (dflt : heap) : heap :=
  match r with HOk h => h | HErr _ h => h | HFuel => dflt end.

(* ---------- abstraction to rose trees ---------- *)

(* the subtree hanging at node i, read through the child lists; fuel bounds the depth *)
Fixpoint sub (fuel : nat) (h : heap) (i : Z) : option tree :=
  match fuel with
  | O => None
  | S n =>
    match (fix go (l : list Z) : option (list tree) :=
             match l with
             | [] => Some []
             | k :: r => match sub n h k, go r with
                         | Some t, Some ts => Some (t :: ts)
                         | _, _ => None
                         end
             end) (kids h i) with
    | Some ks => Some (T i (taxon h i) (label h i) (elen h i) ks)
    | None => None
    end
  end.

Definition fuel_of (h : heap) : nat := S (length (cells h)).

Definition abs_at (h : heap) (i : Z) : option tree := sub (fuel_of h) h i.
Definition abs (h : heap) : option tree := abs_at h (seed h).

(* run k on the abstract subtree at i; an unreadable (cyclic) structure exhausts the fuel *)
Definition with_sub (h : heap) (i : Z) (k : tree -> hres) : hres :=
  match abs_at h i with Some t => k t | None => HFuel end.

Definition post_ids (t : tree) : list Z := map t_id (postorder t).
Definition pre_ids (t : tree) : list Z := map t_id (preorder t).
Definition leaf_ids (t : tree) : list Z := map t_id (leaves t).

(* ---------- Node methods ---------- *)

(* Node.add_child(node):
     assert node is not self
     assert self._parent_node is not node
     node._parent_node = self
     if node not in self._child_nodes: self._child_nodes.append(node) *)
Definition add_child (p c : Z) (h : heap) : hres :=
  if Z.eqb c p then HErr AssertErr h else
  if oz_eqb (parent h p) (Some c) then HErr AssertErr h else
  let h1 := set_parent c (Some p) h in
  HOk (if memz c (kids h1 p) then h1 else set_kids p (kids h1 p ++ [c]) h1).

(* Node.insert_child(index, node)  (index >= 0; no guards in the code):
     node._parent_node = self
     try: cur_index = self._child_nodes.index(node)
     except ValueError: pass
     else:
         if cur_index == index: return
         self._child_nodes.remove(node)
     self._child_nodes.insert(index, node) *)
Definition insert_child (p : Z) (idx : nat) (c : Z) (h : heap) : heap :=
  let h1 := set_parent c (Some p) h in
  match index_of c (kids h1 p) with
  | Some cur =>
    if Nat.eqb cur idx then h1
    else set_kids p (insert_at idx c (remove_first c (kids h1 p))) h1
  | None => set_kids p (insert_at idx c (kids h1 p)) h1
  end.

(* Node.new_child(kwargs) = self.add_child(Node(kwargs)); the new id is `next h` *)
Definition new_child (p : Z) (x l e : option Z) (h : heap) : hres :=
  add_child p (next h) (alloc x l e h).

Definition insert_new_child (p : Z) (idx : nat) (x l e : option Z) (h : heap) : heap :=
  insert_child p idx (next h) (alloc x l e h).

(* remove_child(node, suppress_unifurcations=False):
     if node in children: node._parent_node = None; node.edge.tail_node = None (a no-op through
     the managed setter, the parent is None already); children.remove(node)
     else: raise ValueError *)
Definition remove_child_plain (p c : Z) (h : heap) : hres :=
  if memz c (kids h p) then
    let h1 := set_parent c None h in
    HOk (set_kids p (remove_first c (kids h1 p)) h1)
  else HErr ValueErr h.

Definition is_internal (h : heap) (i : Z) : bool :=
  match kids h i with [] => false | _ => true end.

(* for c in l: self.insert_child(pos, c) *)
Fixpoint insert_each (p : Z) (pos : nat) (l : list Z) (h : heap) : heap :=
  match l with
  | [] => h
  | c :: r => insert_each p pos r (insert_child p pos c h)
  end.

(* Node.remove_child(node, suppress_unifurcations) with the suppress_unifurcations branch *)
Definition remove_child (p c : Z) (su : bool) (h : heap) : hres :=
  hdo h2 <- remove_child_plain p c h ;;
  if negb su then HOk h2 else
  match parent h2 p with
  | Some q =>
    match kids h2 p with
    | [child] =>
      match index_of p (kids h2 q) with
      | None => HErr ValueErr h2                       (* list.index raises *)
      | Some pos =>
        let h3 := insert_child q pos child h2 in
        hdo h4 <- remove_child_plain q p h3 ;;
        let h5 := add_len_try child p h4 in
        HOk (set_kids p [] h5)
      end
    | _ => HOk h2
    end
  | None =>
    match kids h2 p with
    | [k0; k1] =>
      let pick :=
        if is_internal h2 k0 then Some (k0, k1)
        else if is_internal h2 k1 then Some (k1, k0) else None in
      match pick with
      | None => HOk h2
      | Some (to_remove, other) =>
        let h3 := add_len_try other to_remove h2 in
        match index_of to_remove (kids h3 p) with
        | None => HErr ValueErr h3
        | Some pos =>
          hdo h4 <- remove_child_plain p to_remove h3 ;;
          let trc := rev (kids h4 to_remove) in       (* tr_children.reverse() *)
          let h5 := insert_each p pos trc h4 in
          HOk (set_kids to_remove [] h5)
        end
      end
    | _ => HOk h2
    end
  end.

(* Node.clear_child_nodes(): self._child_nodes.clear()   (children keep their parent pointer) *)
Definition clear_child_nodes (p : Z) (h : heap) : heap := set_kids p [] h.

(* Node.set_child_nodes(l): clear_child_nodes(); for nd in l: self.add_child(nd) *)
Definition set_child_nodes (p : Z) (l : list Z) (h : heap) : hres :=
  hfold (add_child p) l (clear_child_nodes p h).

(* parent_node setter (also Edge.tail_node setter):
     if self._parent_node is not None:
         try: self._parent_node._child_nodes.remove(self)  except ValueError: pass
     self._parent_node = parent
     if parent is not None and self not in parent._child_nodes: parent._child_nodes.append(self) *)
Definition set_parent_node (c : Z) (np : option Z) (h : heap) : heap :=
  let h1 := match parent h c with
            | Some q => set_kids q (remove_first c (kids h q)) h
            | None => h
            end in
  let h2 := set_parent c np h1 in
  match np with
  | Some q => if memz c (kids h2 q) then h2 else set_kids q (kids h2 q ++ [c]) h2
  | None => h2
  end.

(* Tree.seed_node setter: self._seed_node = node; node.parent_node = None (managed) *)
Definition set_seed_node (i : Z) (h : heap) : heap := set_parent_node i None (set_seed i h).

(* Edge.collapse(adjust_collapsed_head_children_edge_lengths) of the edge subtending c *)
Fixpoint collapse_loop (p : Z) (pos : nat) (adj : option Z) (l : list Z) (h : heap) : heap :=
  match l with
  | [] => h
  | ch :: r =>
    let h1 := insert_child p pos ch h in
    collapse_loop p (S pos) adj r (add_len_none ch adj h1)
  end.

Definition edge_collapse (c : Z) (adjust : bool) (h : heap) : hres :=
  match parent h c with
  | None => HOk h
  | Some p =>
    match kids h c with
    | [] => HErr ValueErr h                             (* "collapse_self called with a terminal." *)
    | children =>
      match index_of c (kids h p) with
      | None => HErr ValueErr h
      | Some pos =>
        hdo h1 <- remove_child_plain p c h ;;
        HOk (collapse_loop p pos (if adjust then elen h1 c else None) children h1)
      end
    end
  end.

(* Edge.invert() of the edge subtending c *)
Definition edge_invert (c : Z) (h : heap) : hres :=
  match parent h c with
  | None => HErr ValueErr h                             (* "Cannot invert edge with 'None' for tail node" *)
  | Some p =>
    let h1 := match parent h p with
              | Some g =>
                if memz p (kids h g) then set_kids g (replace_first p c (kids h g)) h
                else if memz c (kids h g) then h else set_kids g (kids h g ++ [c]) h
              | None => h
              end in
    if negb (memz c (kids h1 p)) then HErr AssertErr h1 else
    hdo h2 <- remove_child_plain p c h1 ;;
    if memz c (kids h2 p) then HErr AssertErr h2 else
    hdo h3 <- add_child c p h2 ;;
    let lc := elen h3 c in
    let lp := elen h3 p in
    HOk (set_elen c lp (set_elen p lc h3))
  end.

(* Node.collapse_clade(): if self.is_leaf(): return; self.set_child_nodes(list(self.leaf_iter())) *)
Definition collapse_clade (c : Z) (h : heap) : hres :=
  match kids h c with
  | [] => HOk h
  | _ => with_sub h c (fun t => set_child_nodes c (leaf_ids t) h)
  end.

(* Node._convert_node_to_root_polytomy() (recursive; fuel = number of cells + 1) *)
Fixpoint root_polytomy (fuel : nat) (s : Z) (h : heap) : hres :=
  match fuel with
  | O => HFuel
  | S n =>
    match kids h s with
    | [lft] =>
      (* right_child = None; dest_edge_head = self *)
      if is_internal h lft then
        let h1 := add_len_try s lft h in
        hdo h2 <- remove_child_plain s lft h1 ;;
        hdo h3 <- hfold (add_child s) (kids h2 lft) h2 ;;
        root_polytomy n s h3
      else HOk h
    | [lft; rgt] =>
      if is_internal h rgt then
        let h1 := add_len_try lft rgt h in
        hdo h2 <- remove_child_plain s rgt h1 ;;
        hdo h3 <- hfold (add_child s) (kids h2 rgt) h2 ;;
        root_polytomy n s h3
      else if is_internal h lft then
        let h1 := add_len_try rgt lft h in
        hdo h2 <- remove_child_plain s lft h1 ;;
        hdo h3 <- hfold (add_child s) (kids h2 lft) h2 ;;
        root_polytomy n s h3
      else HOk h
    | _ => HOk h
    end
  end.

(* ---------- building a heap from a rose tree (the harness's initial state) ---------- *)

Fixpoint load (par : option Z) (t : tree) (m : list (Z * cell)) : list (Z * cell) :=
  match t with
  | T i x l e ks =>
    (fix go (ks : list tree) (m : list (Z * cell)) : list (Z * cell) :=
       match ks with
       | [] => m
       | k :: r => go r (load (Some i) k m)
       end) ks (aupd i (mkCell par (map t_id ks) e x l) m)
  end.

Fixpoint max_id (t : tree) : Z :=
  match t with
  | T i _ _ _ ks => fold_right (fun k m => Z.max (max_id k) m) i ks
  end.

Definition of_tree (t : tree) (r : option bool) : heap :=
  mkHeap (load None t []) (t_id t) r (max_id t + 1).
