(* C02: tree-level comments, weight tokens and item comments of the Newick writer / reader.
   Executable model, definitions only; builds on Model/Newick.v (whose reader already delivers the
   raw comments per item).

   Writer : NewickWriter._write_tree (rooting token, "[&W ..] " under store_tree_weights, the
            annotation comment "[&k=v,...]" under suppress_annotations=False, the tree's comments
            under suppress_item_comments=False), _write_node_body (node / edge annotation comments,
            node / edge comments after tag and edge length), _compose_comment_string,
            nexusprocessing.format_item_annotations_as_comments / format_annotated_value for str,
            int, bool values and lists of them (nhx=False, no format specifiers, no hidden annotations)
   Reader : NewickReader._process_tree_comments in full (rooting comments, "&W " / "&w " weight
            expressions x | x/y under store_tree_weights, default_tree_weight, metadata extraction),
            nexusprocessing.process_comments_for_item on every node, _parse_tree_statement,
            tree_iter, _read with these.
   float() is `parse_len` (as for edge lengths), float division is `wdiv` (None = ZeroDivisionError);
   parse_comment_metadata_to_annotations is the parameter `parse_md` of this section (its model is
   Model/C02MetaAnn.v, instantiated in Model/C02MetaModel.v), delivering the annotations as a list.

   NOT modelled: annotations_as_nhx, real_value_format_specifier / Annotation format specifiers,
   hidden annotations, float / dict annotation values, `item.comments` given as a bare str,
   tree-list level annotations and comments (written at the end of the document). *)
From Coq Require Import ZArith List Bool.
From DV Require Import Model.PyPrims Gen.CharClasses Model.Tokenizer Model.Newick.
Import ListNotations.
Open Scope Z_scope.

Definition LBRACK : Z := 91.   Definition RBRACK : Z := 93.   Definition AMP : Z := 38.
Definition SLASH : Z := 47.    Definition EQUALS : Z := 61.   Definition LBRACE : Z := 123.
Definition RBRACE : Z := 125.  Definition DQUOTE : Z := 34.   Definition MINUS : Z := 45.

(* "[{}]".format(comment) *)
Definition bracket (c : str) : str := LBRACK :: c ++ [RBRACK].

(* str.startswith *)
Fixpoint starts_with (p s : str) : bool :=
  match p, s with
  | [], _ => true
  | a :: p', b :: s' => (a =? b) && starts_with p' s'
  | _ :: _, [] => false
  end.

(* str.split(sep) for a one-character separator *)
Fixpoint split_on (sep : Z) (s : str) : list str :=
  match s with
  | [] => [[]]
  | c :: r =>
    if c =? sep then [] :: split_on sep r
    else match split_on sep r with
         | p :: ps => (c :: p) :: ps
         | [] => [[c]]
         end
  end.

(* sep.join(parts) *)
Definition join_with (sep : Z) (parts : list str) : str :=
  match parts with
  | [] => []
  | p :: r => p ++ flat_map (fun q => sep :: q) r
  end.

(* ------------------------------------------------------------------------------------------ *)
(* annotations as the writer sees them: Annotation.name, Annotation.value                      *)
Inductive atom : Type := AStr (s : str) | AInt (z : Z) | ABool (b : bool).
Inductive aval : Type := VAtom (a : atom) | VList (l : list atom).
Definition annot : Type := (str * aval)%type.

Definition str_True : str := [84; 114; 117; 101].
Definition str_False : str := [70; 97; 108; 115; 101].

(* str(z) *)
Definition render_Z (z : Z) : str :=
  match z with
  | Z0 => [48]
  | Zpos p => uint_digits (N.to_uint (Npos p))
  | Zneg p => MINUS :: uint_digits (N.to_uint (Npos p))
  end.

(* format_annotated_value with fmtspec "": "{:}".format(value) = str(value) *)
Definition render_atom (a : atom) : str :=
  match a with
  | AStr s => s
  | AInt z => render_Z z
  | ABool b => if b then str_True else str_False
  end.

(* one element of `parts` in format_item_annotations_as_comments *)
Definition render_annot (a : annot) : str :=
  match snd a with
  | VAtom x => fst a ++ EQUALS :: render_atom x
  | VList l => fst a ++ EQUALS :: LBRACE :: join_with COMMA (map render_atom l) ++ [RBRACE]
  end.

(* the text between the brackets of format_item_annotations_as_comments(nhx=False); [] = the
   function returns "" (no annotations) *)
Definition annotation_texts (anns : list annot) : list str :=
  match anns with
  | [] => []
  | _ => [AMP :: join_with COMMA (map render_annot anns)]
  end.

Section Meta.
Variable L : Type.
Variable render_len : L -> str.
Variable parse_len : str -> option L.
Variable lower : str -> str.
Variable wdiv : L -> L -> option L.
Variable RA : Type.
Variable parse_md : str -> list RA.

Notation ntree := (ntree L).
Notation ptree := (ptree L).

(* ------------------------------------------------------------------------------------------ *)
(* trees with annotations and comments on nodes and edges                                      *)
Record nmeta : Type := mkNmeta {
  nm_nann : list annot;     (* node.annotations *)
  nm_eann : list annot;     (* node.edge.annotations *)
  nm_ncom : list str;       (* node.comments *)
  nm_ecom : list str        (* node.edge.comments *)
}.

Inductive ctree : Type :=
| CNd (taxon : option str) (label : option str) (len : option L) (meta : nmeta) (kids : list ctree).

Definition c_meta (t : ctree) := match t with CNd _ _ _ m _ => m end.
Definition c_kids (t : ctree) := match t with CNd _ _ _ _ k => k end.
Definition c_len (t : ctree) := match t with CNd _ _ e _ _ => e end.

(* the tree without its decorations (what Model/Newick.v writes) *)
Fixpoint strip (t : ctree) : ntree :=
  match t with CNd tx lb ln _ ks => Nd tx lb ln (map strip ks) end.

Record mwopts : Type := mkMwopts {
  mw_base : wopts;
  mw_store_tree_weights : bool;        (* default False *)
  mw_suppress_annotations : bool;      (* default True *)
  mw_suppress_item_comments : bool     (* default True *)
}.

(* _compose_comment_string(item), as the list of comment texts *)
Definition item_comment_texts (o : mwopts) (cs : list str) : list str :=
  if mw_suppress_item_comments o then [] else cs.

(* format_item_annotations_as_comments(item) under `if not self.suppress_annotations` *)
Definition item_annotation_texts (o : mwopts) (anns : list annot) : list str :=
  if mw_suppress_annotations o then [] else annotation_texts anns.

(* the comments _write_node_body writes after tag and edge length, in order *)
Definition node_comment_texts (o : mwopts) (t : ctree) : list str :=
  let m := c_meta t in
  item_annotation_texts o (nm_nann m) ++ item_annotation_texts o (nm_eann m)
  ++ item_comment_texts o (nm_ncom m) ++ item_comment_texts o (nm_ecom m).

(* _write_node_body *)
Definition cwrite_node_body (o : mwopts) (t : ctree) : str :=
  write_node_body L render_len (mw_base o) (strip t) ++ flat_map bracket (node_comment_texts o t).

Fixpoint cwrite_node (o : mwopts) (first : bool) (t : ctree) : str :=
  match t with
  | CNd _ _ _ _ [] => (if first then [] else [COMMA]) ++ cwrite_node_body o t
  | CNd _ _ _ _ (k :: ks) =>
    (if first then [LPAREN] else [COMMA; LPAREN])
      ++ cwrite_node o true k ++ flat_map (cwrite_node o false) ks
      ++ RPAREN :: cwrite_node_body o t
  end.

(* tree.weight: a float (or int), or a fractions.Fraction n/d *)
Inductive weight : Type := WNum (x : L) | WFrac (n d : L).

(* "{}".format(tree.weight) *)
Definition render_weight (w : weight) : str :=
  match w with
  | WNum x => render_len x
  | WFrac n d => render_len n ++ SLASH :: render_len d
  end.

Record mtree : Type := mkMtree {
  mt_rooted : option bool;        (* is_rooted; None = rooting_state_is_undefined *)
  mt_weight : option weight;      (* tree.weight *)
  mt_ann : list annot;            (* tree.annotations *)
  mt_comments : list str;         (* tree.comments *)
  mt_root : ctree
}.

Definition writer_weight_open : str := [91; 38; 87; 32].     (* "[&W " *)
Definition writer_weight_close : str := [93; 32].            (* "] "   *)

Definition weight_token (o : mwopts) (w : option weight) : str :=
  if mw_store_tree_weights o then
    match w with
    | Some x => writer_weight_open ++ render_weight x ++ writer_weight_close
    | None => []
    end
  else [].

(* the comments written without a separating blank in front of the tree statement *)
Definition tree_comment_texts (o : mwopts) (t : mtree) : list str :=
  item_annotation_texts o (mt_ann t) ++ item_comment_texts o (mt_comments t).

(* _write_tree *)
Definition cwrite_tree (o : mwopts) (t : mtree) : str :=
  rooting_token (mw_base o) (mt_rooted t) ++ weight_token o (mt_weight t)
  ++ flat_map bracket (tree_comment_texts o t)
  ++ cwrite_node o true (mt_root t) ++ [SEMI].

(* _write_tree_list *)
Definition cwrite_tree_list (o : mwopts) (ts : list mtree) : str :=
  flat_map (fun t => cwrite_tree o t ++ [NEWLINE]) ts.

(* ------------------------------------------------------------------------------------------ *)
(* reader                                                                                      *)
Record mropts : Type := mkMropts {
  mr_base : ropts;
  mr_store_tree_weights : bool;           (* default False *)
  mr_extract_comment_metadata : bool;     (* default True *)
  mr_default_tree_weight : L              (* default 1.0 *)
}.

(* nexusprocessing.process_comments_for_item: (annotations added to the item in order, comments
   appended to item.comments) *)
Fixpoint process_comments (ex : bool) (cs : list str) : list RA * list str :=
  match cs with
  | [] => ([], [])
  | c :: r =>
    let '(a, k) := process_comments ex r in
    if ex && starts_with [AMP] c then
      match parse_md c with
      | [] => (a, c :: k)
      | anns => (anns ++ a, k)
      end
    else (a, c :: k)
  end.

Definition reader_weight_prefixes : list str := [[38; 87; 32]; [38; 119; 32]].   (* "&W ", "&w " *)

(* the weight expression stripped_comment[2:] *)
Definition parse_weight (we : str) : res L :=
  match split_on SLASH we with
  | [a] => match parse_len a with Some x => Ok x | None => Err ParseErr end
  | [a; b] =>
    match parse_len a with
    | None => Err ParseErr
    | Some x =>
      match parse_len b with
      | None => Err ParseErr
      | Some y => match wdiv x y with Some q => Ok q | None => Err OtherErr end
      end
    end
  | _ => Err ParseErr
  end.

(* what _process_tree_comments has set so far *)
Record tacc : Type := mkTacc {
  ta_rooting : option (option bool);   (* Some = rooting_token_found *)
  ta_weight : option L;                (* Some = weighting_token_found *)
  ta_anns : list RA;
  ta_comments : list str
}.

Fixpoint ptc_loop (o : mropts) (cs : list str) (a : tacc) : res tacc :=
  match cs with
  | [] => Ok a
  | c :: r =>
    let s := py_strip c in
    if mem_str s reader_rooting_comments then
      ptc_loop o r (mkTacc (Some (parse_tree_rooting_state (mr_base o) s)) (ta_weight a) (ta_anns a) (ta_comments a))
    else if mr_store_tree_weights o && existsb (fun p => starts_with p s) reader_weight_prefixes then
      do w <- parse_weight (skipn 2 s) ;;
      ptc_loop o r (mkTacc (ta_rooting a) (Some w) (ta_anns a) (ta_comments a))
    else
      let '(an, k) := process_comments (mr_extract_comment_metadata o) [c] in
      ptc_loop o r (mkTacc (ta_rooting a) (ta_weight a) (ta_anns a ++ an) (ta_comments a ++ k))
  end.

(* trees as delivered: annotations extracted on every node *)
Inductive mptree : Type :=
| MPN (taxon : option nat) (label : option str) (len : option L) (anns : list RA) (comments : list str)
      (kids : list mptree).

Fixpoint process_ptree (ex : bool) (p : ptree) : mptree :=
  match p with
  | PN tx lb ln cs ks =>
    let '(a, k) := process_comments ex cs in MPN tx lb ln a k (map (process_ptree ex) ks)
  end.

Record mresult : Type := mkMR {
  mr_is_rooted : option bool;
  mr_weight : option L;            (* None: tree.weight not touched (store_tree_weights=False) *)
  mr_anns : list RA;               (* tree.annotations *)
  mr_comments : list str;          (* tree.comments *)
  mr_tree : mptree
}.

(* _process_tree_comments: (is_rooted, weight, annotations, comments) *)
Definition process_tree_comments_m (o : mropts) (cs : list str)
  : res (option bool * option L * list RA * list str) :=
  do a <- ptc_loop o cs (mkTacc None None [] []) ;;
  Ok (match ta_rooting a with Some r => r | None => parse_tree_rooting_state (mr_base o) [] end,
      (if mr_store_tree_weights o
       then Some (match ta_weight a with Some w => w | None => mr_default_tree_weight o end)
       else None),
      ta_anns a, ta_comments a).

(* _parse_tree_statement (Newick.parse_tree_statement with the full _process_tree_comments) *)
Definition parse_tree_statement_m (o : mropts) (fuel : nat) (st : pstate) : res (option mresult * pstate) :=
  let ro := mr_base o in
  let '(tc, st) := pull_comments st in
  do r <- skip_semicolons fuel st tc ;;
  let '(tree_comments, st1) := r in
  if ps_eof st1 then Ok (None, st1)
  else
    let st2 := set_nesting st1 (if cur_is st1 LPAREN then 1 else 0) in
    do tcm <- process_tree_comments_m o tree_comments ;;
    let '(rooted, w, anns, kept) := tcm in
    let st3 := set_seen_map (set_complete st2 false) [] (ps_map st2) in
    do r <- parse_node L parse_len lower ro fuel st3 None [] ;;
    let '(t, st4) := r in
    if negb (ps_complete st4) then Err ParseErr
    else
      do st5 <- skip_trailing fuel st4 ;;
      Ok (Some (mkMR rooted w anns kept (process_ptree (mr_extract_comment_metadata o) t)), st5).

Fixpoint tree_iter_m (o : mropts) (fuel : nat) (n : nat) (st : pstate) (acc : list mresult)
  : res (list mresult * pstate) :=
  match n with
  | O => OutOfFuel
  | S n' =>
    do r <- parse_tree_statement_m o fuel st ;;
    match r with
    | (None, st1) => Ok (acc, st1)
    | (Some t, st1) => tree_iter_m o fuel n' st1 (acc ++ [t])
    end
  end.

(* NewickReader._read *)
Definition read_newick_m (o : mropts) (ns : list str) (text : str) : res (list mresult * list str) :=
  let ro := mr_base o in
  let toks := tokenize (nexus_cfg (ro_preserve_underscores ro)) text in
  let m := new_mapper lower ns false (ro_case_sensitive_taxon_labels ro) in
  let fuel := reader_fuel (fst toks) in
  do r <- tree_iter_m o fuel fuel (init_pstate toks m) [] ;;
  Ok (fst r, m_ns (ps_map (snd r))).

End Meta.

Arguments CNd {L} _ _ _ _ _.
Arguments MPN {L RA} _ _ _ _ _ _.
Arguments mkMR {L RA} _ _ _ _ _.
Arguments mr_is_rooted {L RA} _.
Arguments mr_weight {L RA} _.
Arguments mr_anns {L RA} _.
Arguments mr_comments {L RA} _.
Arguments mr_tree {L RA} _.
Arguments WNum {L} _.
Arguments WFrac {L} _ _.
Arguments mkMtree {L} _ _ _ _ _.
