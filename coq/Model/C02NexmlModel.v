(* C02 correspondence cases for the NeXML element-level model (Model/C02Nexml.v). L := str. *)
From Coq Require Import ZArith List Bool.
From DV Require Import Model.PyPrims Gen.CharClasses Model.Tokenizer Model.Newick Model.C02Model Model.C02Nexml.
Import ListNotations.

Definition xnode_eqb (a b : xnode) : bool :=
  Nat.eqb (xn_id a) (xn_id b) && option_eqb str_eqb (xn_label a) (xn_label b)
  && option_eqb Nat.eqb (xn_otu a) (xn_otu b) && Bool.eqb (xn_root a) (xn_root b).

Definition xedge_eqb (a b : xedge str) : bool :=
  Nat.eqb (xe_id _ a) (xe_id _ b) && option_eqb Nat.eqb (xe_source _ a) (xe_source _ b)
  && option_eqb Nat.eqb (xe_target _ a) (xe_target _ b) && option_eqb str_eqb (xe_length _ a) (xe_length _ b).

Definition xtree_eqb (a b : xtree str) : bool :=
  Nat.eqb (xt_id _ a) (xt_id _ b) && list_eqb xnode_eqb (xt_nodes _ a) (xt_nodes _ b)
  && option_eqb xedge_eqb (xt_rootedge _ a) (xt_rootedge _ b) && list_eqb xedge_eqb (xt_edges _ a) (xt_edges _ b).

Definition xdoc_eqb (a b : xdoc str) : bool :=
  Nat.eqb (xd_otus_id _ a) (xd_otus_id _ b)
  && list_eqb (fun p q => Nat.eqb (fst p) (fst q) && option_eqb str_eqb (snd p) (snd q)) (xd_otus _ a) (xd_otus _ b)
  && Nat.eqb (xd_trees_id _ a) (xd_trees_id _ b) && Nat.eqb (xd_trees_otus _ a) (xd_trees_otus _ b)
  && list_eqb xtree_eqb (xd_trees _ a) (xd_trees _ b).

(* float(text) -> repr, applied to the lengths the model reader delivers (the element text) *)
Fixpoint map_len (tbl : list (str * option str)) (t : ptree str) : ptree str :=
  match t with
  | PN tx lb ln cm ks =>
    PN tx lb (match ln with Some s => parse_len_with tbl s | None => None end) cm (map (map_len tbl) ks)
  end.

Definition xread := xres (list (option str) * list (ptree_result str)).

Definition xread_eqb (a b : xread) : bool :=
  match a, b with
  | XOk x, XOk y => list_eqb (option_eqb str_eqb) (fst x) (fst y) && list_eqb pr_eqb (snd x) (snd y)
  | XErr e, XErr f => err_eqb e f
  | XFuel, XFuel => true
  | XUnmodelled, XUnmodelled => true
  | _, _ => false
  end.

Record xcase : Type := mkXCase {
  xc_floats : list (str * option str);
  xc_ns : list str;
  xc_trees : list (option bool * ntree str);
  xc_written : option (xdoc str);     (* the elements of the text the implementation wrote *)
  xc_doc : xdoc str;                  (* the elements given to the reader *)
  xc_read : xread
}.

Definition xcase_write (c : xcase) : option (xdoc str) := write_nexml str (xc_ns c) (xc_trees c).

Definition xcase_read (c : xcase) : xread :=
  match read_nexml str (xc_doc c) with
  | XOk (ls, ts) => XOk (ls, map (fun pr => mkPR (pr_is_rooted pr) (pr_comments pr) (map_len (xc_floats c) (pr_tree pr))) ts)
  | XErr e => XErr e
  | XFuel => XFuel
  | XUnmodelled => XUnmodelled
  end.

Definition xcase_ok (c : xcase) : bool :=
  (match xc_written c, xcase_write c with
   | Some a, Some b => xdoc_eqb a b
   | None, _ => true
   | Some _, None => false
   end)
  && xread_eqb (xcase_read c) (xc_read c).

Definition xcase_show (c : xcase) := (xcase_write c, xcase_read c).
