(* C09: run-time library of the translator py/dv/gen_chario.py (output: coq/Gen/CharIO.v).
   Each definition states the Python semantics ASSUMED for one construct the translated methods
   of fastawriter / fastareader / phylipwriter / phylipreader / nexuswriter use.  This file and
   the translator's mapping of constructs to these names are the trusted part of the tie; what
   the generated code does with them is proved equal to the hand-written model (Proofs/C09Gen*.v).

   Objects:
   * str = text (code points); a character of a str is a one-element text
   * a stream opened for writing = the text written so far; `stream.write(x)` appends
   * TaxonNamespace of a reader = the labels of its taxa in order (`tns`); a Taxon object = its
     position (`taxon`); require_taxon is the case-insensitive default (str.lower = `lower`)
   * CharacterMatrix._taxon_sequence_map = insertion-ordered association list taxon -> sequence
     (`cmat`); `m[t]` creates an empty sequence when t has none (CharacterMatrix.__getitem__)
   * a matrix that is only iterated and indexed by the taxa it yields (the writers) = the list of
     its (label, sequence) rows; the taxon it yields is the row
   * a set of taxa = duplicate-free list *)
From Coq Require Import ZArith List Bool.
From DV Require Import Model.PyPrims Model.C09AlphaTypes Model.C09Model.
Import ListNotations.
Open Scope Z_scope.

(* ---- control ---- *)

(* for x in xs: carried := body x carried *)
Definition for_each {A S} (xs : list A) (body : A -> S -> S) (init : S) : S :=
  fold_left (fun acc x => body x acc) xs init.

(* the same when the body can raise: the first exception ends the loop *)
Fixpoint for_each_res {A S} (xs : list A) (body : A -> S -> res S) (init : S) : res S :=
  match xs with
  | [] => Ok init
  | x :: r => do s <- body x init ;; for_each_res r body s
  end.

(* while cond: body   over the carried variables; `fuel` bounds the number of iterations
   (a Python while has no bound: running out of fuel is reported, not hidden) *)
Fixpoint while_res {S} (fuel : nat) (cond : S -> bool) (body : S -> res S) (s : S) : res S :=
  match fuel with
  | O => OutOfFuel
  | S f => if cond s then do s' <- body s ;; while_res f cond body s' else Ok s
  end.

(* ---- str ---- *)

Definition py_strip (s : text) : text := strip s.            (* s.strip() *)
Definition py_rstrip (s : text) : text := rstrip s.          (* s.rstrip() *)
Definition py_is_empty (s : text) : bool := match s with [] => true | _ => false end.   (* not s *)
Definition py_str_eq (a b : text) : bool := text_eqb a b.    (* a == b on str *)
Definition py_startswith (s p : text) : bool :=              (* s.startswith(p) *)
  text_eqb (firstn (length p) s) p.
Definition py_slice_from (s : text) (i : Z) : text := skipn (Z.to_nat i) s.   (* s[i:], i >= 0 *)
Definition py_slice_to (s : text) (i : Z) : text := firstn (Z.to_nat i) s.    (* s[:i], i >= 0 *)
Definition py_chars (s : text) : list text := map (fun c => [c]) s.           (* for c in s *)
Definition py_replace1 (s a b : text) : text :=              (* s.replace(a, b) for one-character a, b *)
  match a, b with [x], [y] => replace_char x y s | _, _ => s end.
Definition py_ljust (s : text) (n : Z) : text := ljust n s.  (* s.ljust(n) *)
Definition py_len_str (s : text) : Z := len s.               (* len(s) *)
Definition py_join (sep : text) (l : list text) : text := join_with sep l.    (* sep.join(l) *)
Definition py_int_str (n : Z) : text := render_nat n.        (* "%d" % n / str(n), n >= 0 *)
Definition py_in_strs (c : text) (l : list text) : bool := text_mem c l.      (* c in [..] *)

(* re.split('[ \t]{k,}', line, maxsplit=1): the list of parts (one or two) *)
Definition py_re_split_blanks (k : Z) (line : text) : list text :=
  let (a, b) := if k =? 1 then split_blank1 line else split_blank2 line in
  if text_eqb a line then [a] else [a; b].
(* l[i] for i = 0, 1 on such a list, len(l) *)
Definition py_list_from (l : list text) (i : Z) : list text := skipn (Z.to_nat i) l.   (* l[i:], i >= 0 *)
(* re.match(r'\s*(\d+)\s+(\d+)\s*$', s): the two integers, None when there is no match *)
Definition py_match_desc (s : text) : option (Z * Z) := parse_desc s.
Definition py_list_get (l : list text) (i : Z) : res text :=
  match nth_error l (Z.to_nat i) with Some x => Ok x | None => Err IndexErr end.

(* ---- state alphabets ---- *)

Definition py_str_state (a : alphabet) (c : Z) : text := state_str a c.        (* str(state) *)
(* symbol_state_map[c] / state_alphabet[c] for a str c: KeyError when absent *)
Definition py_symbol_lookup (a : alphabet) (c : text) : res Z :=
  match tlookup c (a_fullmap a) with Some i => Ok i | None => Err KeyErr end.
Definition py_symbols_as_string (a : alphabet) (s : list Z) : text := symbols_as_string a s.

(* ---- a matrix that is written: its taxa in namespace order, each with its label and sequence ---- *)

(* a Taxon object of a matrix being written: its position (identity), label and sequence *)
Definition wtaxon := (nat * (text * list Z))%type.
Definition wm_of (m : matrix) : list wtaxon := combine (seq 0 (length m)) m.     (* the object for rows m *)
Definition wt_key (t : wtaxon) : nat := fst t.
Definition wt_label (t : wtaxon) : text := fst (snd t).                        (* taxon.label *)
Definition wm_getitem (m : list wtaxon) (t : wtaxon) : list Z := snd (snd t).  (* m[t], t yielded by m *)
Definition wm_contains (m : list wtaxon) (t : wtaxon) : bool := true.          (* t in m, t yielded by m's namespace *)
Definition wm_len (m : list wtaxon) : Z := len m.                              (* len(m) *)
Definition wm_max_sequence_size (m : list wtaxon) : Z :=                       (* m.max_sequence_size *)
  match zmax_list (map (fun r => len (snd (snd r))) m) with Some n => n | None => 0 end.

(* dict Taxon -> str (taxon_label_map), keyed by the taxon's identity, in insertion order *)
Definition wdict := list (nat * text).
Fixpoint wdict_set (d : wdict) (k : nat) (v : text) : wdict :=                 (* d[k] = v *)
  match d with
  | [] => [(k, v)]
  | (j, w) :: r => if Nat.eqb k j then (j, v) :: r else (j, w) :: wdict_set r k v
  end.
Fixpoint wdict_get (d : wdict) (k : nat) : res text :=                         (* d[k] *)
  match d with
  | [] => Err KeyErr
  | (j, w) :: r => if Nat.eqb k j then Ok w else wdict_get r k
  end.
Definition wdict_contains (d : wdict) (k : nat) : bool := existsb (fun e => Nat.eqb k (fst e)) d.   (* k in d *)
(* a dict from strings to objects (object = its identity): NexusWriter._title_block_map *)
Definition tdict := list (text * nat).
Definition tdict_contains (d : tdict) (k : text) : bool := text_mem k (map fst d).                 (* k in d *)
Fixpoint tdict_set (d : tdict) (k : text) (v : nat) : tdict :=                                     (* d[k] = v *)
  match d with
  | [] => [(k, v)]
  | (j, w) :: r => if text_eqb k j then (j, v) :: r else (j, w) :: tdict_set r k v
  end.
Definition wdict_values (d : wdict) : list text := map snd d.                  (* d.values() *)
Definition wdict_keys (d : wdict) : list nat := map fst d.                     (* for k in d *)
(* textprocessing.unique_taxon_label_map(taxa, d, max_label_len): NOT translated; its effect on the
   labels is the model's uniq_labels (tied by the correspondence run), keys and order unchanged *)
Definition py_unique_taxon_label_map (d : wdict) (max_len : Z) : res wdict :=
  do u <- uniq_labels max_len (map snd d) [] ;; Ok (combine (map fst d) u).

(* max([...]) : ValueError on an empty list *)
Definition py_max (l : list Z) : res Z :=
  match zmax_list l with Some n => Ok n | None => Err ValueErr end.

(* ---- reader world: namespace, matrix, set of taxa ---- *)

Definition tns := list text.
Definition taxon := nat.
Definition cmat (C : Type) := list (taxon * list C).

Section World.
Variable lower : text -> text.

Fixpoint tns_find (label : text) (ns : tns) (i : nat) : option taxon :=
  match ns with
  | [] => None
  | l :: r => if text_eqb (lower label) (lower l) then Some i else tns_find label r (S i)
  end.

(* ns.require_taxon(label=label): the first taxon whose label matches, else a new one at the end *)
Definition tns_require_taxon (ns : tns) (label : text) : tns * taxon :=
  match tns_find label ns O with
  | Some t => (ns, t)
  | None => (ns ++ [label], length ns)
  end.
End World.

Definition tns_len (ns : tns) : Z := len ns.
(* ns[i] *)
Definition tns_getitem (ns : tns) (i : Z) : res taxon :=
  if (0 <=? i) && (i <? len ns) then Ok (Z.to_nat i)
  else if (- len ns <=? i) && (i <? 0) then Ok (Z.to_nat (len ns + i))
  else Err IndexErr.
Definition tns_label (ns : tns) (t : taxon) : text := nth t ns [].

Section Cmat.
Variable C : Type.

Fixpoint cm_get (m : cmat C) (t : taxon) : option (list C) :=
  match m with
  | [] => None
  | (k, v) :: r => if Nat.eqb t k then Some v else cm_get r t
  end.

Definition cm_contains (m : cmat C) (t : taxon) : bool :=                      (* t in m *)
  match cm_get m t with Some _ => true | None => false end.

Fixpoint cm_set (m : cmat C) (t : taxon) (v : list C) : cmat C :=              (* m[t] = v *)
  match m with
  | [] => [(t, v)]
  | (k, w) :: r => if Nat.eqb t k then (k, v) :: r else (k, w) :: cm_set r t v
  end.

(* m[t]: the sequence, created empty when missing *)
Definition cm_getitem (m : cmat C) (t : taxon) : cmat C * list C :=
  match cm_get m t with
  | Some v => (m, v)
  | None => (cm_set m t [], [])
  end.

(* m[t].append(x) / m[t].extend(xs) / a reference v = m[t] later extended: the row of t grows *)
Definition cm_extend (m : cmat C) (t : taxon) (xs : list C) : cmat C :=
  let (m', v) := cm_getitem m t in cm_set m' t (v ++ xs).

Definition cm_len_of (m : cmat C) (t : taxon) : Z :=                           (* len(v) for v = m[t] held as a reference *)
  match cm_get m t with Some v => len v | None => 0 end.
End Cmat.
Arguments cm_get {C}. Arguments cm_contains {C}. Arguments cm_set {C}.
Arguments cm_getitem {C}. Arguments cm_extend {C}. Arguments cm_len_of {C}.

(* the matrix a reader returns, as the model's rows: (label of the taxon, sequence) in insertion order *)
Definition to_matrix (w : tns * cmat Z) : matrix := map (fun p => (tns_label (fst w) (fst p), snd p)) (snd w).

Fixpoint nat_mem (t : nat) (l : list nat) : bool :=
  match l with [] => false | x :: r => Nat.eqb t x || nat_mem t r end.
Definition set_add (s : list taxon) (t : taxon) : list taxon := if nat_mem t s then s else s ++ [t].
Definition set_len (s : list taxon) : Z := len s.
