(* C14, CSV: line-level model of PhylogeneticDistanceMatrix.write_csv and .from_csv (default options:
   first row = column names, first column = row names) for text without quote characters.
   Strings are lists of code points; a text is the list of its lines (csv.writer terminates every
   row with "\r\n", csv.reader splits on it).  How a float is formatted is not modelled: the writer
   is given the cell strings; the reader parses decimal numerals exactly (float("0.1") is the double
   nearest to that rational: the correspondence check compares within 1e-12). *)
From Coq Require Import ZArith QArith List Bool.
From DV Require Import Model.PyPrims Model.C14Model.
Import ListNotations.
Open Scope Z_scope.

Definition str := list Z.
Definition str_eqb (a b : str) : bool := list_eqb Z.eqb a b.

(* "<d>".join(cells) *)
Definition join_on (d : Z) (cells : list str) : str :=
  match cells with
  | [] => []
  | c :: r => c ++ flat_map (fun x => d :: x) r
  end.

(* line.split(d) -- what csv.reader yields for a non-empty line without quotes *)
Fixpoint split_on (d : Z) (s : str) (cur : str) : list str :=
  match s with
  | [] => [rev cur]
  | c :: r => if Z.eqb c d then rev cur :: split_on d r [] else split_on d r (c :: cur)
  end.

(* cell.strip(" ") *)
Fixpoint lstrip (s : str) : str := match s with 32 :: r => lstrip r | _ => s end.
Definition strip_sp (s : str) : str := rev (lstrip (rev (lstrip s))).

(* ---- write_csv ---- *)
(* rows handed to csv.writer.writerow, in the iteration order of _mapped_taxa *)
Definition csv_rows (label : Z -> str) (cell : Z -> Z -> str) (order : list Z) : list (list str) :=
  ([] :: map label order) :: map (fun a => label a :: map (cell a) order) order.

Definition write_csv (d : Z) (label : Z -> str) (cell : Z -> Z -> str) (order : list Z) : list str :=
  map (join_on d) (csv_rows label cell order).

(* ---- float(cell) for decimal numerals: [-+] digits [. digits] [e [-+] digits] ---- *)
Definition is_digit (c : Z) : bool := (48 <=? c) && (c <=? 57).

Fixpoint take_digits (s : str) (acc : Z) (n : Z) : Z * Z * str :=   (* value, number of digits, rest *)
  match s with
  | c :: r => if is_digit c then take_digits r (acc * 10 + (c - 48)) (n + 1) else (acc, n, s)
  | [] => (acc, n, s)
  end.

Definition take_sign (s : str) : bool * str :=
  match s with
  | 45 :: r => (true, r)
  | 43 :: r => (false, r)
  | _ => (false, s)
  end.

Definition pow10 (e : Z) : Q := if e <? 0 then Qmake 1 (Z.to_pos (10 ^ (- e))) else inject_Z (10 ^ e).

Definition parse_float (s : str) : option Q :=
  let (neg, s1) := take_sign s in
  let '(ip, ni, s2) := take_digits s1 0 0 in
  if ni =? 0 then None
  else
    let '(fp, nf, s3) := match s2 with 46 :: r => take_digits r 0 0 | _ => (0, 0, s2) end in
    let mant := (inject_Z (ip * 10 ^ nf + fp) * pow10 (- nf))%Q in
    let finish (e : Z) := Some (Qred ((if neg then - mant else mant) * pow10 e))%Q in
    match s3 with
    | [] => finish 0
    | c :: r =>
      if (c =? 101) || (c =? 69) then
        let (eneg, r1) := take_sign r in
        let '(ev, ne, r2) := take_digits r1 0 0 in
        if ne =? 0 then None else match r2 with [] => finish (if eneg then - ev else ev) | _ => None end
      else None
    end.

(* ---- from_csv ---- *)
Definition has_quote (s : str) : bool := existsb (fun c => (c =? 34) || (c =? 13) || (c =? 10)) s.

Definition smem (x : str) (l : list str) : bool := existsb (str_eqb x) l.

Fixpoint nodup_strs (l : list str) : bool :=
  match l with [] => true | x :: r => negb (smem x r) && nodup_strs r end.

(* the rows after the header, one at a time as DataTable._from_csv_file does:
   blank row -> skipped; assert ncols == len(row); add_row asserts a new row name; float(cell) *)
Fixpoint read_body (ncols : nat) (rows : list (list str)) (names : list str) (data : list (list Q))
  : res (list str * list (list Q)) :=
  match rows with
  | [] => Ok (names, data)
  | row :: rest =>
    match row with
    | [c] => if match c with [] => true | _ => false end then read_body ncols rest names data
             else if Nat.eqb ncols 1 then
                    (if smem c names then Err AssertErr else read_body ncols rest (names ++ [c]) (data ++ [[]]))
                  else Err AssertErr
    | _ =>
      if negb (Nat.eqb ncols (length row)) then Err AssertErr
      else
        match row with
        | [] => Err AssertErr
        | name :: cells =>
          if smem name names then Err AssertErr
          else
            do vals <- res_map (fun c => match parse_float c with Some q => Ok q | None => Err ValueErr end) cells ;;
            read_body ncols rest (names ++ [name]) (data ++ [vals])
        end
    end
  end.

Fixpoint nthq (l : list Q) (n : nat) : res Q :=
  match l, n with
  | x :: _, O => Ok x
  | _ :: r, S m => nthq r m
  | [], _ => Err IndexErr
  end.

(* distances[t1][t2] = data_table[i1, i2] for the rows i2 after i1; compile_from_dict adds the
   zero diagonal; taxa are identified by their row position *)
Definition upper_row (i : nat) (n : nat) (vals : list Q) : res (dict Q) :=
  do r <- res_map (fun j => do v <- nthq vals j ;; Ok (Z.of_nat j, v)) (seq (S i) (n - S i)) ;;
  Ok ((Z.of_nat i, 0%Q) :: r).

Fixpoint upper_rows (i : nat) (n : nat) (data : list (list Q)) : res (tbl Q) :=
  match data with
  | [] => Ok []
  | vals :: rest => do r <- upper_row i n vals ;; do t <- upper_rows (S i) n rest ;; Ok ((Z.of_nat i, r) :: t)
  end.

(* lower : str.lower on the labels (the new TaxonNamespace is case-insensitive: two row names that
   differ only in case would be the same taxon: assert t1 not in seen_taxa) *)
Definition from_csv (lower : str -> str) (d : Z) (lines : list str) : res (list str * tbl Q) :=
  if existsb has_quote lines then Err OtherErr     (* quoted fields / embedded newlines: not modelled *)
  else
    let rows := map (fun l => match l with [] => [] | _ => map strip_sp (split_on d l []) end) lines in
    match rows with
    | [] => Ok ([], [])
    | header :: body =>
      (* add_column for every header cell but the first: assert column_name not in the set *)
      if negb (nodup_strs (tl header)) then Err AssertErr
      else
        do nd <- read_body (length header) body [] [] ;;
        let (names, data) := nd in
        if negb (nodup_strs (map lower names)) then Err AssertErr
        else
          do up <- upper_rows 0 (length names) data ;;
          do t <- mirror_tbl up ;;
          Ok (names, t)
    end.

(* ---- correspondence cases ---- *)
Definition qclose12 (m o : Q) : bool := qclose (1 # 1000000000000) m o.

Record csv_case := mkCsvCase {
  cc_delim : Z;
  cc_lower : list (str * str);     (* str.lower on the labels that occur *)
  cc_labels : list str;            (* label of taxon k = k-th entry *)
  cc_order : list Z;               (* iteration order of _mapped_taxa *)
  cc_cells : list (list str);      (* "{}".format(d) for taxon a (row) and b (column), by taxon index *)
  cc_written : list str;           (* what write_csv produced, split at "\r\n" *)
  cc_text : list str;              (* the text handed to from_csv (the same, or a damaged copy) *)
  cc_read : res (list str * list (list (option Q)))   (* labels in order, and the dictionary by position *)
}.

Definition nth_str (l : list str) (k : Z) : str := nth (Z.to_nat k) l [].

Definition tbl_close (t : tbl Q) (n : nat) (exp : list (list (option Q))) : bool :=
  list_eqb (list_eqb (fun (m o : option Q) =>
                        match m, o with
                        | Some a, Some b => qclose12 a b
                        | None, None => true
                        | _, _ => false
                        end))
           (map (fun i => map (fun j => tget2 (Z.of_nat i) (Z.of_nat j) t) (seq 0 n)) (seq 0 n)) exp.

Definition csv_case_ok (c : csv_case) : bool :=
  let lower s := match find (fun p => str_eqb (fst p) s) (cc_lower c) with Some p => snd p | None => s end in
  let label k := nth_str (cc_labels c) k in
  let cell a b := nth (Z.to_nat b) (nth (Z.to_nat a) (cc_cells c) []) [] in
  list_eqb str_eqb (write_csv (cc_delim c) label cell (cc_order c)) (cc_written c)
  && match from_csv lower (cc_delim c) (cc_text c), cc_read c with
     | Ok (names, t), Ok (enames, et) => list_eqb str_eqb names enames && tbl_close t (length names) et
     | Err e, Err f => err_eqb e f
     | _, _ => false
     end.
