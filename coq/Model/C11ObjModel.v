(* C11, wave 7: OBJECT-LEVEL model of the character matrices.
   In Model/C11Model.v a matrix IS its (namespace, row keys).  In the library a CharacterMatrix object holds a
   reference to a dict object (_taxon_sequence_map) and every matrix operation mutates THAT dict in place; two
   matrix objects that hold one dict are changed together.  Here: a store of dict objects, matrices =
   (namespace attribute, identity of the dict they hold), and the operations transcribed as to WHICH object is
   allocated / copied / mutated in place:
     ONewMat n      CharacterMatrix(taxon_namespace=n): the constructor allocates a fresh empty dict
     OCopy m        CharacterMatrix.__copy__ as it is in the library:
                      other = self.__class__(taxon_namespace=self.taxon_namespace)      (fresh dict)
                      for taxon in self._taxon_sequence_map:
                          other._taxon_sequence_map[taxon] = self._taxon_sequence_map[taxon]   (entries copied)
     OCopyAlias m   the variant `other._taxon_sequence_map = self._taxon_sequence_map` (the attribute is re-bound
                      to the source's dict object): NOT the library; kept to show that the theorems below are
                      about which object is stored - with it they are false (Proofs/C11W7Obj.v, *_refuted)
     OOn o          new_sequence / __setitem__ / migrate_ / reconstruct_ / update_ / purge_taxon_namespace on
                      matrix m: the namespace attribute of m is re-bound, the dict object m holds is mutated in
                      place (what is written into it is computed by the value-level model)
     OEnv o         NewNs / NewTaxon
   Definitions only. *)
From Coq Require Import List Bool Arith ZArith.
From DV Require Import Model.PyPrims Model.C11Model Model.C11W7Model.
Import ListNotations.
Open Scope nat_scope.

Record omat := mkOM { om_ns : oid; om_dict : oid }.
Definition domat := mkOM 0 0.

Record ostate := mkO {
  o_st : state;                 (* everything except the matrices (s_mats of it is not read) *)
  o_mats : list omat;
  o_dicts : list (list oid)      (* dict objects: their keys in dict order *)
}.

Definition set_mats (st : state) (ms : list matrix) : state :=
  mkSt (s_lab st) (s_mem st) (s_cs st) (s_nns st) (s_trees st) (s_lists st) ms (s_dss st).

(* what a matrix object shows: its namespace attribute and the keys of the dict it holds *)
Definition read_mat (ds : list (list oid)) (om : omat) : matrix := mkMat (om_ns om) (nth (om_dict om) ds []).

(* the value-level state an object-level state denotes *)
Definition read (os : ostate) : state := set_mats (o_st os) (map (read_mat (o_dicts os)) (o_mats os)).

Definition o_init : ostate := mkO st_init [] [].

(* the matrix a (base) operation is applied to *)
Definition mat_target_b (o : op) : option oid :=
  match o with
  | NewSeq m _ | SetRow m _ | MigrateMat m _ _ | ReconstructMat m _ | UpdateMat m | PurgeMat m => Some m
  | _ => None
  end.

Inductive oop :=
| ONewMat (n : oid)
| OCopy (m : oid)
| OCopyAlias (m : oid)
| OOn (o : op)
| OEnv (o : op).

Section WithLower.
Variable lower : lbl -> lbl.

(* matrix m: attribute _taxon_namespace re-bound to what the value level computed; the dict object m HOLDS
   is overwritten in place with the keys the value level computed for m.  Nothing else is touched. *)
Definition o_mutate (os : ostate) (m : oid) (st' : state) : ostate :=
  let d := om_dict (nth m (o_mats os) domat) in
  mkO (set_mats st' [])
      (upd (o_mats os) m (mkOM (m_ns (getmat st' m)) d))
      (upd (o_dicts os) d (m_rows (getmat st' m))).

Definition o_step (os : ostate) (oo : oop) : ostate :=
  match oo with
  | ONewMat n =>
    if valid_ns (o_st os) n
    then mkO (o_st os) (o_mats os ++ [mkOM n (length (o_dicts os))]) (o_dicts os ++ [[]])
    else os
  | OCopy m =>
    if Nat.ltb m (length (o_mats os)) then
      let om := nth m (o_mats os) domat in
      mkO (o_st os) (o_mats os ++ [mkOM (om_ns om) (length (o_dicts os))])
          (o_dicts os ++ [nth (om_dict om) (o_dicts os) []])
    else os
  | OCopyAlias m =>
    if Nat.ltb m (length (o_mats os)) then
      let om := nth m (o_mats os) domat in
      mkO (o_st os) (o_mats os ++ [mkOM (om_ns om) (om_dict om)]) (o_dicts os ++ [[]])
    else os
  | OOn o =>
    match mat_target_b o with
    | Some m => if Nat.ltb m (length (o_mats os)) then o_mutate os m (fst (step lower (read os) o)) else os
    | None => os
    end
  | OEnv o =>
    match o with
    | NewNs _ | NewTaxon _ _ => mkO (set_mats (fst (step lower (o_st os) o)) []) (o_mats os) (o_dicts os)
    | _ => os
    end
  end.

Definition o_run (os : ostate) (ops : list oop) : ostate := fold_left o_step ops os.

(* the same history at the value level *)
Definition embed (oo : oop) : op7 :=
  match oo with
  | ONewMat n => Base (NewMat n)
  | OCopy m | OCopyAlias m => CopyMat m
  | OOn o => match mat_target_b o with Some _ => Base o | None => Base (NewNs false) end
  | OEnv o => match o with NewNs _ | NewTaxon _ _ => Base o | _ => Base (NewNs false) end
  end.

Definition oop_ok (oo : oop) : bool :=
  match oo with
  | OCopyAlias _ => false
  | OOn o => match mat_target_b o with Some _ => true | None => false end
  | OEnv o => match o with NewNs _ | NewTaxon _ _ => true | _ => false end
  | _ => true
  end.

End WithLower.

(* no dict object is held by two matrix objects, and every matrix holds an existing dict *)
Definition no_dict_shared (os : ostate) : Prop :=
  NoDup (map om_dict (o_mats os)) /\ forall om, In om (o_mats os) -> om_dict om < length (o_dicts os).

Fixpoint nodupb (l : list nat) : bool :=
  match l with [] => true | x :: r => negb (memb x r) && nodupb r end.
Definition no_dict_sharedb (os : ostate) : bool :=
  nodupb (map om_dict (o_mats os)) && forallb (fun om => Nat.ltb (om_dict om) (length (o_dicts os))) (o_mats os).
