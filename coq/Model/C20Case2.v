(* C20: the case record of the correspondence check and `case_ok` (second version: the NEXUS
   skeleton of Model/C20Nexus2.v, with the symbol tables of the four fixed alphabets).
   One case = one text and the observation of the real reader on each listed prefix of it. *)
From Coq Require Import String ZArith List Bool.
From DV Require Import Model.PyPrims Model.Tokenizer Model.Newick Model.C20Model Model.C20Nexus2.
Import ListNotations.
Close Scope string_scope.
Open Scope list_scope.
Open Scope Z_scope.

Inductive rd : Type :=
| RPhylip (o : popts)
| RFasta
| RNewick
| RNexus (fx : nfix).

(* what the harness saw *)
Inductive xobs : Type :=
| XRows (rows : list row)     (* PHYLIP / FASTA: labels and canonical state symbols *)
| XTrees (n : Z)              (* Newick: number of trees *)
| XOk                         (* NEXUS: read completed *)
| XErr (e : err).             (* error class (Hang = alarm) *)

Record case : Type := mkCase {
  c_rd : rd;
  c_text : str;
  c_syms : list (Z * Z);          (* DNA alphabet: symbol -> canonical symbol, dumped from the library *)
  c_alpha : list (Z * list Z);    (* data type code (C20Nexus2.dtype_code) -> symbols of that alphabet *)
  c_floats : list str;            (* tokens of the text that float() accepts *)
  c_slack : bool;                 (* NEXUS only: payload errors (not modelled) may surface as ParseErr *)
  c_exp : list (Z * xobs)         (* (length of the prefix read, observation) *)
}.

Fixpoint alpha_mem (tabs : list (Z * list Z)) (code c : Z) : bool :=
  match tabs with
  | [] => false
  | (k, l) :: r => if k =? code then zmem c l else alpha_mem r code c
  end.

Definition model_obs (c : case) (k : Z) : xobs :=
  let text := firstn (Z.to_nat k) (c_text c) in
  let sym := fun ch => zassoc ch (c_syms c) in
  match c_rd c with
  | RPhylip o =>
    match phylip_read py_isspace ascii_dval ascii_lower sym o text with
    | Ok rows => XRows rows | Err e => XErr e | OutOfFuel => XErr Hang end
  | RFasta =>
    match fasta_read py_isspace ascii_lower sym false text with
    | Ok rows => XRows rows | Err e => XErr e | OutOfFuel => XErr Hang end
  | RNewick =>
    let parse_len := fun s => if existsb (Tokenizer.str_eqb s) (c_floats c) then Some tt else None in
    match read_newick unit parse_len ascii_lower default_ropts [] text with
    | Ok (trees, _) => XTrees (Z.of_nat (length trees)) | Err e => XErr e | OutOfFuel => XErr Hang end
  | RNexus fx =>
    let is_float := fun s => existsb (Tokenizer.str_eqb s) (c_floats c) in
    match nexus_read fx ascii_upper ascii_lower ascii_dval (alpha_mem (c_alpha c)) is_float text with
    | ROk _ => XOk
    | RErr e => XErr e
    | RFuel => XErr Hang
    end
  end.

Definition rows_eqb (a b : list row) : bool :=
  list_eqb (fun x y => C20Model.str_eqb (fst x) (fst y) && C20Model.str_eqb (snd x) (snd y)) a b.

Definition xobs_eqb (a b : xobs) : bool :=
  match a, b with
  | XRows r, XRows r' => rows_eqb r r'
  | XTrees n, XTrees m => n =? m
  | XOk, XOk => true
  | XErr e, XErr e' => err_eqb e e'
  | _, _ => false
  end.

Definition is_nexus (r : rd) : bool := match r with RNexus _ => true | _ => false end.

Definition check_one (c : case) (ke : Z * xobs) : bool :=
  let '(k, e) := ke in
  xobs_eqb (model_obs c k) e
  || (is_nexus (c_rd c) && c_slack c && match e with XErr ParseErr => true | _ => false end).

Definition case_ok (c : case) : bool := forallb (check_one c) (c_exp c).

(* diagnostics for replays: the model's answers on the disagreeing prefixes *)
Definition case_show (c : case) : list (Z * xobs) :=
  map (fun ke => (fst ke, model_obs c (fst ke))) (filter (fun ke => negb (check_one c ke)) (c_exp c)).
