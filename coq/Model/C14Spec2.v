(* C14, second wave: specification-level definitions for the uniqueness of dendrograms, the tree
   metric / Q-criterion development and the CSV round trip *)
From Coq Require Import ZArith QArith List Bool.
From DV Require Import Model.PyPrims Model.Tree Model.C14Model Model.C14Spec.
Import ListNotations.
Open Scope Z_scope.

(* leaf taxa of a tree with Q lengths, left to right *)
Fixpoint qtaxa (t : qtree) : list Z :=
  match t with
  | QT _ x _ ks =>
    match ks with
    | [] => match x with Some a => [a] | None => [] end
    | _ => flat_map qtaxa ks
    end
  end.

Definition q_kids (t : qtree) : list qtree := match t with QT _ _ _ ks => ks end.
Definition q_taxon (t : qtree) : option Z := match t with QT _ x _ _ => x end.
Definition q_len (t : qtree) : option Q := match t with QT _ _ l _ => l end.

(* a rooted binary tree all of whose leaves (each carrying a taxon) are at distance h below the root,
   with non-negative edge lengths; strict: the edge above every internal child is positive.
   The length stored on the root of t itself plays no role. *)
Fixpoint dendro (strict : bool) (h : Q) (t : qtree) : Prop :=
  match t with
  | QT _ x _ ks =>
    match ks with
    | [] => x <> None /\ (h == 0)%Q
    | [a; b] =>
      exists ha hb,
        dendro strict ha a /\ dendro strict hb b /\
        (h == ha + qlen0 a)%Q /\ (h == hb + qlen0 b)%Q /\ (0 <= qlen0 a)%Q /\ (0 <= qlen0 b)%Q /\
        (strict = true -> (q_kids a <> [] -> (0 < qlen0 a)%Q) /\ (q_kids b <> [] -> (0 < qlen0 b)%Q))
    | _ => False
    end
  end.

(* two optional lengths are the same rational, a missing length counting as zero *)
Definition olen_eq (l l' : option Q) : Prop :=
  (match l with Some a => a | None => 0 end == match l' with Some b => b | None => 0 end)%Q.

(* the same tree up to node ids, the order of the two children, and the representation of the
   rational edge lengths; leaves must carry the same taxon (a taxon object attached to an internal
   node is not compared: the trees of this property carry their taxa on the leaves) *)
Inductive qsame : qtree -> qtree -> Prop :=
| qs_leaf : forall i j x l l', olen_eq l l' -> qsame (QT i x l []) (QT j x l' [])
| qs_node : forall i j x x' l l' a b a' b',
    olen_eq l l' -> qsame a a' -> qsame b b' -> qsame (QT i x l [a; b]) (QT j x' l' [a'; b'])
| qs_swap : forall i j x x' l l' a b a' b',
    olen_eq l l' -> qsame a b' -> qsame b a' -> qsame (QT i x l [a; b]) (QT j x' l' [a'; b']).

(* ... ignoring the length stored on the root (the edge above the root is not part of the tree) *)
Definition q_unroot (t : qtree) : qtree := match t with QT i x _ ks => QT i x None ks end.
Definition qsame_rooted (t1 t2 : qtree) : Prop := qsame (q_unroot t1) (q_unroot t2).

(* a rose tree of Model/Tree.v as a tree with lengths in real units *)
Fixpoint tq (t : tree) : qtree :=
  match t with T i x _ e ks => QT i x (option_map uq e) (map tq ks) end.

(* binary rose tree: every node has no or exactly two children *)
Fixpoint rbin (t : tree) : Prop :=
  match t with
  | T _ _ _ _ ks => match ks with [] => True | [a; b] => rbin a /\ rbin b | _ => False end
  end.

(* the edge above every internal node other than the root is positive *)
Definition positive_internal (t : tree) : Prop :=
  forall c n, In c (t_kids t) -> In n (preorder c) -> t_kids n <> [] -> 0 < len0 n.

(* no negative entry *)
Definition mnonneg (M : tbl Q) (order : list Z) : Prop :=
  forall a b, In a order -> In b order -> a <> b -> (0 <= mval M a b)%Q.

(* ---- the four-point condition, strictly resolved ---- *)
(* of the three sums of a quartet exactly one is strictly smallest and the other two are equal:
   the quartet is resolved, with a positive internal edge *)
Definition fp3 (a b c : Q) : Prop :=
  ((a < b) /\ (b == c))%Q \/ ((b < a) /\ (a == c))%Q \/ ((c < a) /\ (a == b))%Q.

Definition four_point_strict (pool : list jnode) : Prop :=
  forall i j k l, In i pool -> In j pool -> In k pool -> In l pool ->
    j_id i <> j_id j -> j_id i <> j_id k -> j_id i <> j_id l ->
    j_id j <> j_id k -> j_id j <> j_id l -> j_id k <> j_id l ->
    fp3 (jd i j + jd k l) (jd i k + jd j l) (jd i l + jd j k).

Definition mfour_point_strict (M : tbl Q) (order : list Z) : Prop :=
  forall a b c d, In a order -> In b order -> In c order -> In d order ->
    a <> b -> a <> c -> a <> d -> b <> c -> b <> d -> c <> d ->
    fp3 (mval M a b + mval M c d) (mval M a c + mval M b d) (mval M a d + mval M b c).
