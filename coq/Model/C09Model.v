(* C09: executable model of the character-matrix writers and readers of DendroPy
     dataio/fastawriter.py  fastareader.py  phylipwriter.py  phylipreader.py
   transcribed statement by statement at the level of characters and lines.  (The NEXUS
   CHARACTERS block is in C09Nexus.v, at the level of tokens.)

   Strings are lists of code points (`text`).  A matrix is the list of (taxon label, sequence)
   in the order the writer iterates; a discrete cell is the `_index` of a StateIdentity of the
   matrix's state alphabet (table type in C09AlphaTypes.v, dumps in C09Alphabets.v).
   `lower` is Python's str.lower on labels (TaxonNamespace is case-insensitive by default):
   an uninterpreted parameter.

   Assumptions of the transcription (also listed in manifest/C09.json):
   * the reader is given a fresh TaxonNamespace (what `XCharacterMatrix.get` does by default),
   * the matrix's namespace lists exactly the taxa of the matrix in the matrix's own order (true
     for from_dict, for every reader, for concatenate and export_character_indices),
   * `for line in stream` is modelled as text.split("\n") (a last unterminated empty line is
     skipped by the reader anyway); PHYLIP uses re.split("\r\n|\n|\r"),
   * the regular expressions of the PHYLIP reader are implemented as the deterministic scans
     they denote on the character classes involved ([ \t], \s, ASCII \d). *)
From Coq Require Import ZArith List Bool NArith DecimalN.
From DV Require Import Model.PyPrims Model.C09AlphaTypes.
Import ListNotations.
Open Scope Z_scope.

(* ------------------------------------------------------------------------- *)
(* str primitives                                                            *)
(* ------------------------------------------------------------------------- *)

Fixpoint lstrip (l : text) : text :=
  match l with
  | [] => []
  | c :: r => if is_space c then lstrip r else l
  end.

(* s.rstrip(): structurally, from the right *)
Fixpoint rstrip (l : text) : text :=
  match l with
  | [] => []
  | c :: r => match rstrip r with
              | [] => if is_space c then [] else [c]
              | r' => c :: r'
              end
  end.

Definition strip (l : text) : text := rstrip (lstrip l).

(* s.split("\n") *)
Fixpoint split_nl_aux (cur : text) (t : text) : list text :=
  match t with
  | [] => [rev cur]
  | c :: r => if c =? 10 then rev cur :: split_nl_aux [] r else split_nl_aux (c :: cur) r
  end.
Definition split_nl (t : text) : list text := split_nl_aux [] t.

(* re.split(r'\r\n|\n|\r', s) *)
Fixpoint split3_aux (cur : text) (t : text) : list text :=
  match t with
  | [] => [rev cur]
  | c :: r =>
    if c =? 10 then rev cur :: split3_aux [] r
    else if c =? 13 then
      match r with
      | d :: r' => if d =? 10 then rev cur :: split3_aux [] r' else rev cur :: split3_aux [] r
      | [] => rev cur :: split3_aux [] r
      end
    else split3_aux (c :: cur) r
  end.
Definition split_lines3 (t : text) : list text := split3_aux [] t.

Definition is_blank (c : Z) : bool := (c =? 32) || (c =? 9).       (* [ \t] *)

Definition replace_char (a b : Z) (l : text) : text := map (fun c => if c =? a then b else c) l.

Definition ljust (n : Z) (l : text) : text :=
  l ++ repeat 32 (Z.to_nat (n - Z.of_nat (length l))).

Definition len (A : Type) (l : list A) : Z := Z.of_nat (length l).
Arguments len {A} l.

(* "%d" % n for n >= 0, and int(s) on ASCII digits *)
Fixpoint uint_digits (u : Decimal.uint) : text :=
  match u with
  | Decimal.Nil => []
  | Decimal.D0 r => 48 :: uint_digits r | Decimal.D1 r => 49 :: uint_digits r
  | Decimal.D2 r => 50 :: uint_digits r | Decimal.D3 r => 51 :: uint_digits r
  | Decimal.D4 r => 52 :: uint_digits r | Decimal.D5 r => 53 :: uint_digits r
  | Decimal.D6 r => 54 :: uint_digits r | Decimal.D7 r => 55 :: uint_digits r
  | Decimal.D8 r => 56 :: uint_digits r | Decimal.D9 r => 57 :: uint_digits r
  end.

Fixpoint digits_uint (l : text) : option Decimal.uint :=
  match l with
  | [] => Some Decimal.Nil
  | c :: r =>
    match digits_uint r with
    | None => None
    | Some u =>
      if c =? 48 then Some (Decimal.D0 u) else if c =? 49 then Some (Decimal.D1 u)
      else if c =? 50 then Some (Decimal.D2 u) else if c =? 51 then Some (Decimal.D3 u)
      else if c =? 52 then Some (Decimal.D4 u) else if c =? 53 then Some (Decimal.D5 u)
      else if c =? 54 then Some (Decimal.D6 u) else if c =? 55 then Some (Decimal.D7 u)
      else if c =? 56 then Some (Decimal.D8 u) else if c =? 57 then Some (Decimal.D9 u)
      else None
    end
  end.

Definition render_nat (n : Z) : text := uint_digits (N.to_uint (Z.to_N n)).

Definition parse_nat (l : text) : option Z :=
  match l with
  | [] => None
  | _ => match digits_uint l with Some u => Some (Z.of_N (N.of_uint u)) | None => None end
  end.

Definition is_digit (c : Z) : bool := (48 <=? c) && (c <=? 57).

Fixpoint span (p : Z -> bool) (l : text) : text * text :=
  match l with
  | [] => ([], [])
  | c :: r => if p c then let (a, b) := span p r in (c :: a, b) else ([], l)
  end.

Fixpoint zmax_list (l : list Z) : option Z :=
  match l with
  | [] => None
  | x :: r => match zmax_list r with None => Some x | Some m => Some (Z.max x m) end
  end.

Definition matrix := list (text * list Z).

(* ------------------------------------------------------------------------- *)
(* str(state): StateIdentity.__str__                                         *)
(* ------------------------------------------------------------------------- *)

Fixpoint join_with (sep : text) (l : list text) : text :=
  match l with
  | [] => []
  | [x] => x
  | x :: r => x ++ sep ++ join_with sep r
  end.

Definition state_str (a : alphabet) (i : Z) : text :=
  match find_state i (a_states a) with
  | None => []
  | Some s =>
    match s_symbol s with
    | _ :: _ => s_symbol s
    | [] =>
      let ms := join_with [44] (map (fun m => match find_state m (a_states a) with
                                              | Some f => s_symbol f | None => [] end) (s_members s)) in
      match s_kind s with
      | Fundamental => []
      | Ambiguous => 123 :: ms ++ [125]
      | Polymorphic => 40 :: ms ++ [41]
      end
    end
  end.

(* CharacterDataSequence.symbols_as_string() of a discrete sequence *)
Definition symbols_as_string (a : alphabet) (s : list Z) : text := concat (map (state_str a) s).

(* ------------------------------------------------------------------------- *)
(* FASTA                                                                     *)
(* ------------------------------------------------------------------------- *)

(* FastaWriter._write_char_matrix, wrap branch: col_count counts cells *)
Fixpoint fasta_wrap (width col : Z) (cells : list text) : text :=
  match cells with
  | [] => []
  | s :: r => if col =? width then 10 :: s ++ fasta_wrap width 1 r
              else s ++ fasta_wrap width (col + 1) r
  end.

Definition fasta_row (wrap : bool) (width : Z) (label : text) (cells : list text) : text :=
  62 :: label ++ 10 ::
  (if wrap then fasta_wrap width 0 cells else concat cells ++ [10]) ++ [10; 10].

Definition write_fasta (a : alphabet) (wrap : bool) (width : Z) (m : matrix) : text :=
  concat (map (fun r => fasta_row wrap width (fst r) (map (state_str a) (snd r))) m).

Section Readers.
Variable lower : text -> text.

Definition same_taxon (x y : text) : bool := text_eqb (lower x) (lower y).

(* for c in s: c = c.strip(); if not c: continue; symbol_state_map[c] (KeyError -> DataParseError) *)
Fixpoint fasta_states (a : alphabet) (s : text) : res (list Z) :=
  match s with
  | [] => Ok []
  | c :: r =>
    if is_space c then fasta_states a r
    else match state_of_symbol a c with
         | None => Err ParseErr
         | Some i => do rest <- fasta_states a r ;; Ok (i :: rest)
         end
  end.

(* one iteration of `for line_index, line in enumerate(stream)`; the state is the matrix read
   so far, most recent row first (curr_vec is the sequence of the head row; None iff empty) *)
Definition fasta_step (a : alphabet) (st : matrix) (line : text) : res matrix :=
  match strip line with
  | [] => Ok st
  | c :: r =>
    if c =? 62 then
      let name := strip r in
      if existsb (fun row => same_taxon name (fst row)) st then Err ParseErr
      else match st with
           | (_, []) :: _ => Err ParseErr
           | _ => Ok ((name, []) :: st)
           end
    else
      match st with
      | [] => Err ParseErr
      | (l, v) :: rest => do states <- fasta_states a (c :: r) ;; Ok ((l, v ++ states) :: rest)
      end
  end.

Fixpoint fasta_lines (a : alphabet) (st : matrix) (lines : list text) : res matrix :=
  match lines with
  | [] => Ok st
  | l :: r => do st' <- fasta_step a st l ;; fasta_lines a st' r
  end.

Definition read_fasta (a : alphabet) (t : text) : res matrix :=
  do st <- fasta_lines a [] (split_nl t) ;; Ok (rev st).

End Readers.

(* ------------------------------------------------------------------------- *)
(* PHYLIP writer                                                             *)
(* ------------------------------------------------------------------------- *)

(* textprocessing.unique_taxon_label_map(taxa, taxon_label_map, max_label_len) *)
Fixpoint uniq_loop (fuel : nat) (max_len : Z) (label : text) (labels : list text) (idx : Z)
  : res text :=
  match fuel with
  | O => OutOfFuel
  | S f =>
    let idx := idx + 1 in
    let cand :=
      if 0 <? max_len then
        let k := max_len - len (render_nat idx) in
        if k <? 1 then Err ValueErr else Ok (firstn (Z.to_nat k) label ++ render_nat idx)
      else Ok (label ++ render_nat idx) in
    match cand with
    | Ok c => if text_mem c labels then uniq_loop f max_len label labels idx else Ok c
    | Err e => Err e
    | OutOfFuel => OutOfFuel
    end
  end.

Fixpoint uniq_labels (max_len : Z) (todo : list text) (labels : list text) : res (list text) :=
  match todo with
  | [] => Ok labels
  | l :: r =>
    do l' <- (if text_mem l labels then uniq_loop (S (S (length labels))) max_len l labels 1 else Ok l) ;;
    uniq_labels max_len r (labels ++ [l'])
  end.

Record phy_wopts := mkPW { w_strict : bool; w_s2u : bool }.

Definition conv_label (o : phy_wopts) (l : text) : text :=
  if w_s2u o then replace_char 32 95 l else l.

(* PhylipWriter.get_taxon_label_map (strict) / the relaxed branch of _write_char_matrix *)
Definition phylip_label_map (o : phy_wopts) (labels : list text) : res (list text) :=
  if w_strict o then
    do u <- uniq_labels 10 (map (fun l => firstn 10 (conv_label o l)) labels) [] ;;
    Ok (map (fun l => if len l <? 10 then ljust 10 l else l) u)
  else Ok (map (conv_label o) labels).

(* PhylipWriter._write_char_matrix; `enc` is CharacterDataSequence.symbols_as_string *)
Definition write_phylip {C} (enc : list C -> text) (o : phy_wopts) (m : list (text * list C))
  : res text :=
  do labs <- phylip_label_map o (map fst m) ;;
  match zmax_list (map len labs) with
  | None => Err ValueErr                          (* max() of an empty sequence *)
  | Some maxlen =>
    let spacer := if w_strict o then [] else [32; 32] in
    let n_sites := match zmax_list (map (fun r => len (snd r)) m) with Some n => n | None => 0 end in
    Ok (render_nat (len m) ++ 32 :: render_nat n_sites ++ 10 ::
        concat (map (fun lr => ljust maxlen (fst lr) ++ spacer ++ enc (snd (snd lr)) ++ [10])
                    (combine labs m)))
  end.

(* ------------------------------------------------------------------------- *)
(* PHYLIP reader                                                             *)
(* ------------------------------------------------------------------------- *)

Record phy_ropts := mkPR { r_strict : bool; r_interleaved : bool; r_multispace : bool; r_u2s : bool }.

(* re.match(r'\s*(\d+)\s+(\d+)\s*$', desc_line) *)
Definition parse_desc (l : text) : option (Z * Z) :=
  let (_, l1) := span is_space l in
  let (d1, l2) := span is_digit l1 in
  let (s1, l3) := span is_space l2 in
  let (d2, l4) := span is_digit l3 in
  let (_, l5) := span is_space l4 in
  match d1, s1, d2, l5 with
  | _ :: _, _ :: _, _ :: _, [] =>
    match parse_nat d1, parse_nat d2 with
    | Some a, Some b => Some (a, b)
    | _, _ => None
    end
  | _, _, _, _ => None
  end.

(* re.split('[ \t]{1,}', line, maxsplit=1) -> (parts[0], parts[1] or '') *)
Fixpoint split_blank1 (l : text) : text * text :=
  match l with
  | [] => ([], [])
  | c :: r => if is_blank c then ([], snd (span is_blank r))
              else let (a, b) := split_blank1 r in (c :: a, b)
  end.

(* re.split('[ \t]{2,}', line, maxsplit=1) *)
Fixpoint split_blank2 (l : text) : text * text :=
  match l with
  | [] => ([], [])
  | c :: r =>
    if is_blank c then
      match r with
      | d :: _ => if is_blank d then ([], snd (span is_blank r))
                  else let (a, b) := split_blank2 r in (c :: a, b)
      | [] => ([c], [])
      end
    else let (a, b) := split_blank2 r in (c :: a, b)
  end.

Section PhylipReader.
Variable lower : text -> text.
Variable C : Type.
Variable dec : text -> res (list C).       (* _parse_sequence_from_line: the states of one line *)

Fixpoint find_row (name : text) (rows : list (text * list C)) (i : nat) : option (nat * list C) :=
  match rows with
  | [] => None
  | (l, v) :: r => if same_taxon lower name l then Some (i, v) else find_row name r (S i)
  end.

Fixpoint append_at (i : nat) (x : list C) (rows : list (text * list C)) : list (text * list C) :=
  match rows, i with
  | [], _ => []
  | (l, v) :: r, O => (l, v ++ x) :: r
  | row :: r, S j => row :: append_at j x r
  end.

(* _parse_taxon_from_line: returns the rows (a new empty row appended when the label is new),
   the index of the current taxon and the rest of the line *)
Definition parse_taxon (o : phy_ropts) (ntax nchar : Z) (rows : list (text * list C)) (line : text)
  : res (list (text * list C) * nat * text) :=
  let (lab0, rest) :=
    if r_strict o then (strip (firstn 10 line), skipn 10 line)
    else if r_multispace o then split_blank2 line else split_blank1 line in
  let lab1 := strip lab0 in
  match lab1 with
  | [] => Err ParseErr
  | _ =>
    let lab := if r_u2s o then replace_char 95 32 lab1 else lab1 in
    match find_row lab rows O with
    | Some (i, v) =>
      if nchar <=? len v then Err ParseErr       (* already has the declared number of characters *)
      else Ok (rows, i, rest)
    | None =>
      let rows' := rows ++ [(lab, [])] in
      if ntax <? len rows' then Err ParseErr else Ok (rows', length rows, rest)
    end
  end.

(* _parse_sequential *)
Fixpoint phylip_sequential (o : phy_ropts) (ntax nchar : Z) (rows : list (text * list C))
         (cur : option nat) (lines : list text) : res (list (text * list C)) :=
  match lines with
  | [] => Ok rows
  | line0 :: more =>
    match rstrip line0 with
    | [] => phylip_sequential o ntax nchar rows cur more
    | line =>
      do x <- (match cur with
               | Some i => Ok (rows, i, line)
               | None => parse_taxon o ntax nchar rows line
               end) ;;
      let '(rows1, i, rest) := x in
      do states <- dec rest ;;
      let rows2 := append_at i states rows1 in
      let cur' := match nth_error rows2 i with
                  | Some (_, v) => if nchar <=? len v then None else Some i
                  | None => None
                  end in
      phylip_sequential o ntax nchar rows2 cur' more
    end
  end.

(* _parse_interleaved *)
Fixpoint phylip_interleaved (o : phy_ropts) (ntax nchar : Z) (rows : list (text * list C))
         (paged : bool) (paged_row : Z) (lines : list text) : res (list (text * list C)) :=
  match lines with
  | [] => Ok rows
  | line0 :: more =>
    match rstrip line0 with
    | [] => phylip_interleaved o ntax nchar rows paged paged_row more
    | line =>
      let pr := if ntax <=? paged_row + 1 then 0 else paged_row + 1 in
      if paged then
        match nth_error rows (Z.to_nat pr) with
        | None => Err IndexErr
        | Some _ =>
          do states <- dec line ;;
          phylip_interleaved o ntax nchar (append_at (Z.to_nat pr) states rows) true pr more
        end
      else
        do x <- parse_taxon o ntax nchar rows line ;;
        let '(rows1, i, rest) := x in
        let full := len rows1 =? ntax in
        do states <- dec rest ;;
        phylip_interleaved o ntax nchar (append_at i states rows1)
                           full (if full then -1 else pr) more
    end
  end.

(* PhylipReader._read *)
Definition read_phylip (o : phy_ropts) (t : text) : res (list (text * list C)) :=
  let lines := split_lines3 t in
  if len lines <=? 2 then Err ParseErr
  else match lines with
       | [] => Err ParseErr
       | desc :: body =>
         match parse_desc desc with
         | None => Err ParseErr
         | Some (ntax, nchar) =>
           if (ntax =? 0) || (nchar =? 0) then Err ParseErr
           else
             do rows <- (if r_interleaved o then phylip_interleaved o ntax nchar [] false (-1) body
                         else phylip_sequential o ntax nchar [] None body) ;;
             if len rows =? ntax then
               (* every sequence must have exactly the declared number of characters *)
               if forallb (fun r => len (snd r) =? nchar) rows then Ok rows else Err ParseErr
             else Err ParseErr
         end
       end.

End PhylipReader.

(* _parse_sequence_from_line for the discrete types:
   for c in line: if c in [' ', '\t']: continue; state_alphabet[c] (KeyError -> parse error) *)
Fixpoint phylip_states (a : alphabet) (s : text) : res (list Z) :=
  match s with
  | [] => Ok []
  | c :: r =>
    if is_blank c then phylip_states a r
    else match state_of_symbol a c with
         | None => Err ParseErr
         | Some i => do rest <- phylip_states a r ;; Ok (i :: rest)
         end
  end.

(* ---- continuous characters: the numeral text is abstract -------------------------------- *)

(* s.split(): maximal runs of non-whitespace *)
Fixpoint split_ws_aux (cur : text) (l : text) : list text :=
  match l with
  | [] => match cur with [] => [] | _ => [rev cur] end
  | c :: r => if is_space c then match cur with [] => split_ws_aux [] r | _ => rev cur :: split_ws_aux [] r end
              else split_ws_aux (c :: cur) r
  end.
Definition split_ws (l : text) : list text := split_ws_aux [] l.

Section Continuous.
Variable V : Type.
Variable render : V -> text.             (* str(float) *)
Variable parse : text -> option V.       (* float(s); None = ValueError *)

(* ContinuousCharacterDataSequence.symbols_as_string(sep=" ") *)
Definition cont_as_string (s : list V) : text := join_with [32] (map render s).

Fixpoint cont_values (ws : list text) : res (list V) :=
  match ws with
  | [] => Ok []
  | w :: r => match parse w with
              | None => Err ParseErr
              | Some v => do rest <- cont_values r ;; Ok (v :: rest)
              end
  end.

(* _parse_sequence_from_line, continuous branch *)
Definition phylip_cont (line : text) : res (list V) := cont_values (split_ws line).
End Continuous.

