(* C13 (wave 3): run-time library of the generated file Gen/Routes.v (py/dv/gen_routes.py).

   Gen/Routes.v is compiled from the CURRENT Python source statement by statement; the operations
   it cannot see into - methods of the tokenizer object, of TaxonNamespace / TreeList objects and the
   reader methods that are not translated - are the INTERFACE OPERATIONS defined here, with their
   Python meaning stated next to each.  This file is the trusted part of the translator tie.

   The reader object (NexusReader, and NexusTreeDataYielder which IS a NexusReader) is the record
   `rs T` of Model/C13Model.v: tokenizer, _file_specified_ntax, the member labels of every
   TaxonNamespace object, the namespace titles and self._taxon_namespaces, the TreeList objects and
   self._tree_lists.  Python values:
     str | None            option str          (tokens)
     TaxonNamespace | None option nat          (object identity = index in k_nss)
     NexusTaxonSymbolMapper gmap = (nat * mapper): the namespace it manages and its three maps
     TreeList | None       option nat          (object identity = index in r_tls)
     tree factory          option nat          (Some i: <TreeList i>.new_tree, None: self.tree_factory)
     Tree                  T                   (immutable value; attribute assignment = new value)
     captured comments     list str            (None and [] are not distinguished)
     Taxon | None          otaxon = option (nat * str)  (position in its namespace, label)
     set of strings        sset = list (option str)
     namespace / tree-list factory   tns_factory / option tl_factory   (values: which object the call returns)
     Product               gst                 (the object store with the list of tree lists it was given)
   Interface operations whose Python meaning is trusted (everything else in Gen/Routes.v is compiled and proved
   equal to Model/C13Model.v): the tokenizer methods tk_* over the token record model; ifc_build_tree
   (NewickReader._parse_tree_statement: abstract, property C02 compiles it); the atomic object operations
   (ifc_ns_factory, rd_register_ns, ifc_tree_list_factory, rd_register_tree_list, ifc_new_mapper, rd_ns_*,
   ifc_ns_new_taxon, ifc_ns_require_taxon, sset_*, tx_*, ifc_accession, ifc_comments_*,
   ifc_set_tree_label, ifc_product); ifc_new_mapper, ifc_mapper_add_token and ifc_mapper_lookup stand for methods of
   NexusTaxonSymbolMapper that are COMPILED separately (Gen/RoutesMapper.v) and proved equal to them
   (Proofs/C13GenMapper.v, Proofs/C13MapperTie.v); the definitions ifc_get_taxon_namespace, ifc_get_taxon_symbol_mapper,
   ifc_new_taxon_namespace, ifc_new_tree_list, ifc_parse_taxlabels, ifc_parse_translate, ifc_parse_taxa_block
   are NOT interface any more: they restate model functions and the compiled methods are proved equal to them. *)
From Coq Require Import ZArith List Bool.
From Coq Require String. Import String.StringSyntax.
From DV Require Import Model.PyPrims Model.C13Model.
Import ListNotations.

Section GenPrims.
Variable T : Type.
Variables lower upper : str -> str.
Variable parse_tree : mapper -> tz -> res (option T * mapper * tz).
Variable set_label : T -> option str -> T.
Variable add_comments : T -> list str -> T.
Variable c : nscfg.            (* reader.attached_taxon_namespace is (not) None; which namespace factory *)
Variable tlf : tl_factory.     (* which tree-list factory *)

Definition gst : Type := rs T.
Definition gmap : Type := (nat * mapper)%type.

Definition st_z (s : gst) : tz := k_z (r_k s).
Definition st_set_z (s : gst) (z : tz) : gst := mkRs (set_z (r_k s) z) (r_g s) (r_tls s) (r_tlreg s).
Definition st_set_k (s : gst) (k : core) : gst := mkRs k (r_g s) (r_tls s) (r_tlreg s).
Definition st_set_kg (s : gst) (k : core) (g : regs) : gst := mkRs k g (r_tls s) (r_tlreg s).

(* ---- the tokenizer object self._nexus_tokenizer ---- *)
(* t = tokenizer.next_token() etc.: the call returns the new current_token *)
Definition tk_lift (f : tz -> res tz) (s : gst) : res (option str * gst) :=
  do z <- f (st_z s) ;; Ok (z_cur z, st_set_z s z).
Definition tk_next_token : gst -> res (option str * gst) := tk_lift next_token.
Definition tk_require_next_token : gst -> res (option str * gst) := tk_lift require_next_token.
Definition tk_next_token_ucase : gst -> res (option str * gst) := tk_lift (next_token_ucase upper).
Definition tk_require_next_token_ucase : gst -> res (option str * gst) := tk_lift (require_next_token_ucase upper).
(* skip_to_semicolon(): returns nothing; `fuel` bounds its own loop *)
Definition tk_skip_to_semicolon (fuel : nat) (s : gst) : res (unit * gst) :=
  do z <- skip_to_semicolon fuel (st_z s) ;; Ok (tt, st_set_z s z).
(* cast_current_token_to_ucase(): upper-cases current_token in place and returns it *)
Definition tk_cast_ucase (s : gst) : res (option str * gst) :=
  let z := cast_ucase upper (st_z s) in Ok (z_cur z, st_set_z s z).
(* pull_captured_comments(): returns the captured comments and empties the buffer *)
Definition tk_pull_comments (s : gst) : res (list str * gst) :=
  let '(cs, z) := pull_comments (st_z s) in Ok (cs, st_set_z s z).
(* process_and_clear_comments_for_item(self._global_annotations_target, ..): the target is None for
   every tree route, so only the buffer is emptied *)
Definition tk_process_and_clear (s : gst) : res (unit * gst) :=
  Ok (tt, st_set_z s (clear_comments (st_z s))).
Definition tk_is_eof (s : gst) : bool := z_eof (st_z s).
Definition tk_current_token (s : gst) : option str := z_cur (st_z s).
Definition tk_is_token_quoted (s : gst) : bool := z_quoted (st_z s).

(* ---- Python expressions on tokens ---- *)
Definition o_eq (t : option str) (lit : str) : bool := otok_is t lit.            (* t == "lit" *)
Definition o_is_none (t : option str) : bool := match t with None => true | Some _ => false end.
Definition o_truthy (t : option str) : bool := negb (match t with None => true | Some x => is_nil x end).
Definition o_upper (t : option str) : option str :=                              (* t.upper(), t a str *)
  match t with Some x => Some (upper x) | None => None end.
Definition o_isdigit (t : option str) : bool := is_digit_str (match t with Some x => x | None => [] end).
Definition o_int (t : option str) : Z := int_of_str (match t with Some x => x | None => [] end).
Definition o_text (t : option str) : str := match t with Some x => x | None => [] end.
Definition on_is_none (o : option nat) : bool := match o with None => true | Some _ => false end.
Definition on_get (o : option nat) : nat := match o with Some i => i | None => O end.
Definition om_is_none (o : option gmap) : bool := match o with None => true | Some _ => false end.
Definition om_get (o : option gmap) : gmap := match o with Some m => m | None => (O, new_mapper lower [] true) end.
Definition ot_is_none (o : option T) : bool := match o with None => true | Some _ => false end.

(* links = {} ; links['taxa'] = v ; links['characters'] = v ; links.get(key) *)
Definition links : Type := (option (option str) * option (option str))%type.
Definition links_empty : links := (None, None).
Definition links_set_taxa (l : links) (v : option str) : links := (Some v, snd l).
Definition links_set_characters (l : links) (v : option str) : links := (fst l, Some v).
Definition links_get_taxa (l : links) : option str := match fst l with Some v => v | None => None end.
Definition links_get_characters (l : links) : option str := match snd l with Some v => v | None => None end.

(* ---- reader attributes ---- *)
Definition rd_ntax (s : gst) : option Z := k_ntax (r_k s).
Definition rd_set_ntax (s : gst) (n : Z) : gst := st_set_k s (set_ntax (r_k s) (Some n)).
(* self._file_specified_nchar is written but never read by the tree routes *)
Definition rd_set_nchar (s : gst) (n : Z) : gst := s.

(* ---- reader methods: _get_taxon_namespace and _get_taxon_symbol_mapper are COMPILED and proved equal to
   the two definitions below; _parse_translate_statement, _parse_taxlabels_statement are NOT translated
   (tied by the correspondence run only) ---- *)
(* self._get_taxon_namespace(title) *)
Definition ifc_get_taxon_namespace (s : gst) (title : option str) : res (option nat * gst) :=
  do r <- get_tns upper c (r_k s) (r_g s) title ;;
  let '(i, k, g) := r in Ok (Some i, st_set_kg s k g).
(* self._get_taxon_symbol_mapper(taxon_namespace=ns): a fresh mapper over the namespace's members *)
Definition ifc_get_taxon_symbol_mapper (s : gst) (ns : option nat) : res (option gmap * gst) :=
  Ok (Some (on_get ns, new_mapper lower (ns_taxa_at (r_k s) (on_get ns)) true), s).
(* self._parse_translate_statement(taxon_namespace) *)
Definition ifc_parse_translate (fuel : nat) (s : gst) (ns : option nat) : res (option gmap * gst) :=
  do r <- parse_translate lower fuel (r_k s) (on_get ns) ;;
  let '(m, k) := r in Ok (Some (on_get ns, m), st_set_k s k).
(* self._parse_taxa_block(): COMPILED as well (g_parse_taxa_block_eq); the definition restates the model's function *)
Definition ifc_parse_taxa_block (fuel : nat) (s : gst) : res (unit * gst) :=
  do r <- parse_taxa_block lower upper c fuel (r_k s) (r_g s) ;;
  let '(k, g) := r in Ok (tt, st_set_kg s k g).
(* a == b on two strings *)
Definition o_eqb (a b : option str) : bool :=
  match a, b with Some x, Some y => str_eqb x y | None, None => true | _, _ => false end.
(* ---- TaxonNamespace / Taxon objects, label sets (atomic operations used by the compiled
   _parse_taxlabels_statement and _parse_translate_statement) ---- *)
(* a Taxon | None: its position in its namespace and its label *)
Definition otaxon : Type := option (nat * str).
Definition tx_label (t : otaxon) : option str := match t with Some (_, l) => Some l | None => None end.
Definition tx_lower_label (t : otaxon) : option str := match t with Some (_, l) => Some (lower l) | None => None end.
Definition tx_index (t : otaxon) : nat := match t with Some (i, _) => i | None => O end.
Definition o_lower (t : option str) : option str := match t with Some x => Some (lower x) | None => None end.
(* set([]), s.add(x), x in s  (of strings) *)
Definition sset : Type := list (option str).
Definition sset_empty : sset := [].
Definition sset_add (l : sset) (x : option str) : sset := x :: l.
Definition sset_mem (x : option str) (l : sset) : bool := existsb (o_eqb x) l.
(* <namespace>._taxa, len(<namespace>), bool(<namespace>) (no members: falsy), get_taxon(label=..) (first
   member whose lower-cased label equals the lower-cased argument), new_taxon(label=..) *)
Definition rd_ns_members (s : gst) (ns : option nat) : list otaxon :=
  map (fun p => Some p) (enum_from O (ns_taxa_at (r_k s) (on_get ns))).
Definition rd_ns_len (s : gst) (ns : option nat) : Z := Z.of_nat (length (ns_taxa_at (r_k s) (on_get ns))).
Definition rd_ns_truthy (s : gst) (o : option nat) : bool :=
  match o with Some i => negb (is_nil (ns_taxa_at (r_k s) i)) | None => false end.
Definition rd_ns_get_taxon (s : gst) (ns : option nat) (label : option str) : otaxon :=
  let taxa := ns_taxa_at (r_k s) (on_get ns) in
  match label with
  | Some l => match ns_get_taxon lower taxa l with Some i => Some (i, nth i taxa []) | None => None end
  | None => None
  end.
Definition ifc_ns_new_taxon (s : gst) (ns : option nat) (label : option str) : res (otaxon * gst) :=
  let taxa := ns_taxa_at (r_k s) (on_get ns) in
  match label with
  | Some l => Ok (Some (length taxa, l), st_set_k s (set_ns_taxa (r_k s) (on_get ns) (taxa ++ [l])))
  | None => Err OtherErr                              (* label=None: not modelled *)
  end.
(* try: <namespace>.require_taxon(label=..) except ImmutableTaxonNamespaceError: the result None is the
   exception; `mutable` is <namespace>.is_mutable, which the compiled code follows as a local (a symbol
   mapper constructed over the namespace sets it False) *)
Definition ifc_ns_require_taxon (s : gst) (ns : option nat) (mutable : bool) (label : option str)
  : res (option otaxon * gst) :=
  let taxa := ns_taxa_at (r_k s) (on_get ns) in
  match label with
  | None => Err OtherErr                              (* require_taxon(label=None): not modelled *)
  | Some l =>
    match ns_get_taxon lower taxa l with
    | Some i => Ok (Some (Some (i, nth i taxa [])), s)
    | None => if mutable
              then Ok (Some (Some (length taxa, l)), st_set_k s (set_ns_taxa (r_k s) (on_get ns) (taxa ++ [l])))
              else Ok (None, s)
    end
  end.
(* <mapper>.add_translate_token(token, taxon): the mapper sees the namespace object it manages *)
Definition ifc_mapper_add_token (s : gst) (gm : option gmap) (tok : option str) (t : otaxon) : option gmap :=
  match gm with
  | Some (ns, m) =>
    Some (ns, add_translate_token lower (mapper_set_ns m (ns_taxa_at (r_k s) ns))
                (match tok with Some x => x | None => s2z "None" end) (tx_index t))
  | None => None
  end.
(* <mapper>.lookup_taxon_symbol(symbol, create_taxon_if_not_found=b): the three-stage look-up of the mapper, which sees
   the namespace object it manages; a taxon it creates is a new member of that namespace.  The method itself is COMPILED
   (Gen/RoutesMapper.v, gm_lookup_taxon_symbol) and proved equal to lookup_taxon_symbol (Proofs/C13GenMapper.v). *)
Definition otx_is_none (t : otaxon) : bool := match t with None => true | Some _ => false end.
Definition ifc_mapper_lookup (s : gst) (gm : option gmap) (sym : option str) (create : bool)
  : res (otaxon * option gmap * gst) :=
  match gm with
  | Some (ns, m) =>
    let r := lookup_taxon_symbol lower (mapper_set_ns m (ns_taxa_at (r_k s) ns)) (o_text sym) create in
    Ok (match fst r with Some i => Some (i, nth i (m_ns (snd r)) []) | None => None end,
        Some (ns, snd r), st_set_k s (set_ns_taxa (r_k s) ns (m_ns (snd r))))
  | None => Err AttrErr
  end.
(* for x in <finite list>: body  (the body may raise) *)
Fixpoint for_res {A B : Type} (f : A -> B -> res A) (l : list B) (a : A) : res A :=
  match l with
  | [] => Ok a
  | x :: r => do a' <- f a x ;; for_res f r a'
  end.

(* ---- the reader's registries and the factories it was given (atomic: object creation and list appends) ---- *)
(* self.attached_taxon_namespace (a reader): None unless the route attached its namespace (namespace 0) *)
Definition rd_reader_attached : option nat := if c_attached c then Some O else None.
(* len(self._taxon_namespaces), self._taxon_namespaces[i], iteration over it, <namespace>.label *)
Definition rd_ns_count (s : gst) : Z := Z.of_nat (length (g_reg (r_g s))).
Definition rd_ns_at (s : gst) (i : Z) : option nat := nth_error (g_reg (r_g s)) (Z.to_nat i).
Definition rd_registry (s : gst) : list nat := g_reg (r_g s).
Definition rd_ns_label (s : gst) (i : nat) : option str := nth i (g_labels (r_g s)) None.
(* self._taxon_namespace_factory(label=title): dataset.new_taxon_namespace creates a namespace object;
   the pseudo-factories of TreeList / Tree return namespace 0 and set its label when it has none *)
Definition ifc_ns_factory (s : gst) (title : option str) : res (option nat * gst) :=
  let k := r_k s in let g := r_g s in
  match c_fac c with
  | FacNew =>
    Ok (Some (length (k_nss k)),
        st_set_kg s (mkCore (k_z k) (k_ntax k) (k_nss k ++ [[]])) (mkRegs (g_labels g ++ [title]) (g_reg g)))
  | FacFixed sl =>
    let labels := match title, nth O (g_labels g) None with
                  | Some t, None => if sl then list_set (g_labels g) O (Some t) else g_labels g
                  | _, _ => g_labels g
                  end in
    Ok (Some O, st_set_kg s k (mkRegs labels (g_reg g)))
  end.
(* self._taxon_namespaces.append(ns) *)
Definition rd_register_ns (s : gst) (ns : option nat) : gst :=
  st_set_kg s (r_k s) (mkRegs (g_labels (r_g s)) (g_reg (r_g s) ++ [on_get ns])).
(* self._tree_list_factory(taxon_namespace=ns, label=title): TreeList(..) / dataset.new_tree_list create a list
   object; tree_list._tree_list_pseudofactory returns list 0 and sets its label when it has none *)
Definition ifc_tree_list_factory (s : gst) (ns : option nat) (title : option str) : res (option nat * gst) :=
  match tlf with
  | TLNew => Ok (Some (length (r_tls s)), mkRs (r_k s) (r_g s) (r_tls s ++ [mkTl title [] []]) (r_tlreg s))
  | TLFixed =>
    let t0 := nth O (r_tls s) (mkTl None [] []) in
    let tls1 := match title, tl_label t0 with
                | Some t, None => list_set (r_tls s) O (mkTl (Some t) (tl_trees t0) (tl_comments t0))
                | _, _ => r_tls s
                end in
    Ok (Some O, mkRs (r_k s) (r_g s) tls1 (r_tlreg s))
  end.
(* self._tree_lists.append(tl) *)
Definition rd_register_tree_list (s : gst) (tl : option nat) : gst :=
  mkRs (r_k s) (r_g s) (r_tls s) (r_tlreg s ++ [on_get tl]).

(* ---- reader methods: these four are COMPILED (Gen/Routes.v) and proved equal to the definitions below
   (Proofs/C13GenStmts.v), which restate the model's functions on the reader state ---- *)
(* self._new_taxon_namespace(title) *)
Definition ifc_new_taxon_namespace (s : gst) (title : option str) : res (option nat * gst) :=
  let '(i, k, g) := new_tns c (r_k s) (r_g s) title in Ok (Some i, st_set_kg s k g).
(* self._parse_taxlabels_statement(taxon_namespace) *)
Definition ifc_parse_taxlabels (fuel : nat) (s : gst) (ns : option nat) : res (unit * gst) :=
  do k <- parse_taxlabels lower c fuel (r_k s) (on_get ns) ;; Ok (tt, st_set_k s k).
(* self._nexus_tokenizer.allow_eof = b: the attribute is written here and read by no tokenizer method *)
Definition tk_set_allow_eof (s : gst) (b : bool) : gst := s.
(* self._new_tree_list(taxon_namespace=ns, title=t) *)
Definition ifc_new_tree_list (s : gst) (ns : option nat) (title : option str) : res (option nat * gst) :=
  let '(i, tls, reg) := new_tree_list T tlf (r_tls s) (r_tlreg s) title in
  Ok (Some i, mkRs (r_k s) (r_g s) tls reg).
(* nexusprocessing.process_comments_for_item(<TreeList>, comments, flag) *)
Definition ifc_comments_for_treelist (s : gst) (tl : option nat) (cs : list str) : gst :=
  match tl with
  | Some i => if is_nil cs then s else mkRs (r_k s) (r_g s) (tl_add_comments T (r_tls s) i cs) (r_tlreg s)
  | None => s
  end.
(* nexusprocessing.process_comments_for_item(<Tree>, comments, flag) *)
Definition ifc_comments_for_tree (t : T) (cs : list str) : T := add_comments_opt T add_comments t cs.
(* tree.label = name *)
Definition ifc_set_tree_label (t : T) (name : option str) : T := set_label t name.

(* self._build_tree_from_newick_tree_string(tree_factory, taxon_symbol_mapper):
   NewickReader._parse_tree_statement on the tokenizer, resolving symbols through the mapper; the
   mapper object and the namespace it manages are updated in place *)
Definition ifc_build_tree (s : gst) (factory : option nat) (gm : option gmap) : res (option T * option gmap * gst) :=
  let '(ns, m) := om_get gm in
  do r <- parse_tree m (st_z s) ;;
  let '(ot, m1, z1) := r in
  Ok (ot, Some (ns, m1), st_set_k s (after_tree (r_k s) ns m1 z1)).

(* A Tree created by `<TreeList>.new_tree` is accessioned into that list at creation; the list holds a
   reference, so its content is the object's FINAL value: realised by appending when the call that
   received the factory hands the finished tree back.  `self.tree_factory` (None) accessions nothing. *)
Definition ifc_accession (s : gst) (factory : option nat) (t : T) : gst :=
  match factory with
  | Some i => mkRs (r_k s) (r_g s) (tl_append T (r_tls s) i t) (r_tlreg s)
  | None => s
  end.

(* the same for a tree that may be absent (NewickReader.tree_iter hands on None after the last tree) *)
Definition ifc_accession_opt (s : gst) (factory : option nat) (t : option T) : gst :=
  match t with Some x => ifc_accession s factory x | None => s end.
(* nexusprocessing.NexusTaxonSymbolMapper(taxon_namespace=ns, enable_lookup_by_taxon_number=b, ..) *)
Definition ifc_new_mapper (s : gst) (ns : option nat) (by_number : bool) : res (option gmap * gst) :=
  Ok (Some (on_get ns, new_mapper lower (ns_taxa_at (r_k s) (on_get ns)) by_number), s).

(* the opening statements of _parse_nexus_stream / _yield_items_from_stream,
   `if self._nexus_tokenizer is None: self.create_tokenizer(stream, ..) else: ...set_stream(stream)`:
   the state already holds a fresh tokenizer over the document *)
Definition ifc_open_stream (s : gst) : res (unit * gst) := Ok (tt, s).

End GenPrims.

(* ---- reader-level methods (_read, read_tree_lists, read_dataset): factories as values, the Product tuple ---- *)
Definition opt_is_none {A : Type} (o : option A) : bool := match o with None => true | Some _ => false end.
(* the tree-list factory a reader was given (only consulted when trees are read) *)
Definition otlf_get (o : option tl_factory) : tl_factory := match o with Some f => f | None => TLNew end.

Section ReaderPrims.
Variable T : Type.
(* the type of <Reader>._read as the DataReader methods call it: the reader attributes it consults
   (attached_taxon_namespace, exclude_trees, exclude_chars), then its six parameters; result: the Product *)
Definition reader_read_t : Type :=
  nat -> gst T -> option nat -> bool -> bool -> unit -> tns_factory -> option tl_factory -> option unit -> option unit
  -> option unit -> res (gst T * gst T).
(* self.Product(taxon_namespaces=.., tree_lists=<list of TreeList objects>, char_matrices=..): the object store
   as it is now with the given list of tree lists; <product>.tree_lists are those lists (their trees) *)
Definition ifc_product (s : gst T) (tree_lists : list nat) : gst T := mkRs (r_k s) (r_g s) (r_tls s) tree_lists.
Definition rd_tree_lists (s : gst T) : list nat := r_tlreg s.          (* self._tree_lists *)
(* taxon_namespace_factory(label=..) / tree_list_factory(label=.., taxon_namespace=..) called directly *)
Definition ifc_ns_factory_of (fac : tns_factory) (s : gst T) (title : option str) : res (option nat * gst T) :=
  ifc_ns_factory T (mkNsCfg false fac) s title.
Definition ifc_tree_list_factory_of (o : option tl_factory) (s : gst T) (ns : option nat) (title : option str)
  : res (option nat * gst T) :=
  match o with
  | Some f => ifc_tree_list_factory T f s ns title
  | None => Err TypeErr                                  (* None(..) *)
  end.
(* `for x in <iterator>: pass`: the iterator is run to its end; what it handed out is dropped *)
Definition ydrain {X : Type} (a : yres (option T) X) : res X := snd a.
End ReaderPrims.

(* ---- the entry points with offsets (Tree / TreeList ._parse_and_create_from_stream) ---- *)
Section EntryPrims.
Variable T : Type.

(* The reader object `dataio.get_reader(schema, **kwargs)` returns.  `rd_attached` is
   `reader.attached_taxon_namespace is not None`; `rd_run attached tlf fuel stream tl` is
   `reader.read_tree_lists(stream=stream, taxon_namespace_factory=<a factory that returns the route's
   namespace>, tree_list_factory=<tlf>, global_annotations_target=None)`: the TreeLists of the product
   (their trees), and the trees of the target TreeList `tl` afterwards - the call holds bound methods of
   that object (tlf = TLFixed: its _tree_list_pseudofactory hands out the target itself). *)
Record reader_obj : Type := mkReader {
  rd_attached : bool;
  rd_run : bool -> tl_factory -> nat -> doc -> list T -> res (list (list T) * list T);
  (* rd_dataset attached fuel stream <dataset.attached_taxon_namespace> <taxon_namespace> exclude_trees exclude_chars:
     reader.read_dataset(stream=.., dataset=.., taxon_namespace=.., exclude_trees=.., exclude_chars=.., ..): the
     tree lists the DataSet's new_tree_list created (their trees) *)
  rd_dataset : bool -> nat -> doc -> option nat -> option nat -> bool -> bool -> res (list (list T))
}.
(* reader.attached_taxon_namespace = <the namespace of the route> *)
Definition rd_attach (r : reader_obj) : reader_obj := mkReader true (rd_run r) (rd_dataset r).
(* a DataSet as the entry point sees it: its attached_taxon_namespace and its tree lists *)
Definition dsval : Type := (option nat * list (list T))%type.
Definition ds_new : dsval := (None, []).                                          (* DataSet(label=..) *)
Definition ds_attach (d : dsval) (o : option nat) : dsval := (o, snd d).          (* d.attached_taxon_namespace = o *)
Definition ifc_read_dataset (r : reader_obj) (fuel : nat) (s : unit) (stream : doc) (d : dsval) (tns : option nat)
                            (et ec : bool) : res (unit * dsval * unit) :=
  do bl <- rd_dataset r (rd_attached r) fuel stream (fst d) tns et ec ;; Ok (tt, (fst d, snd d ++ bl), s).
(* the iterator Tree.yield_from_files([one file], ..) returns: the trees it hands out, how it ends *)
Definition yielder_t : Type := (list T * res unit)%type.
Definition yl_items (y : yielder_t) : list T := fst y.
Definition yl_end (y : yielder_t) : res unit := snd y.
Definition yl_file_index (y : yielder_t) : Z := 0%Z.          (* <iterator>.current_file_index: one file *)
Definition ifc_read_tree_lists (r : reader_obj) (tlf : tl_factory) (fuel : nat) (s : unit) (stream : doc) (tl : list T)
  : res (list (list T) * list T * unit) :=
  do x <- rd_run r (rd_attached r) tlf fuel stream tl ;; Ok (fst x, snd x, s).
(* for tree in <trees>: <TreeList>._trees.append(tree) *)
Definition ifc_extend (l x : list T) : list T := l ++ x.
End EntryPrims.

(* offsets: `x is None`; an offset used as an int (None there would be a TypeError in Python 3: the
   translated code only does so after an `is None` test or default) *)
(* self.attached_taxon_namespace of a tree iterator: the namespace of the route is namespace 0 *)
Definition rd_attached_namespace : option nat := Some O.
Definition oz_eqb (o : option Z) (x : Z) : bool := match o with Some y => Z.eqb y x | None => false end.   (* o == x *)
Definition oz_add (o : option Z) (d : Z) : option Z := match o with Some y => Some (y + d)%Z | None => None end. (* o += d; None: TypeError, not reached *)
Fixpoint enum_z_from {A : Type} (i : Z) (l : list A) : list (Z * A) :=
  match l with [] => [] | x :: r => (i, x) :: enum_z_from (i + 1)%Z r end.
Definition enum_z {A : Type} (l : list A) : list (Z * A) := enum_z_from 0%Z l.                 (* enumerate(l) *)
(* lambda label : <namespace object>: returns the namespace of the route (handle 0), sets no label *)
Definition fac_const (o : option nat) : tns_factory := FacFixed false.
(* a is b on two namespace objects *)
Definition on_same (a b : option nat) : bool :=
  match a, b with Some x, Some y => Nat.eqb x y | None, None => true | _, _ => false end.
Definition oz_is_none (o : option Z) : bool := match o with None => true | Some _ => false end.
Definition oz_get (o : option Z) : Z := match o with Some i => i | None => 0%Z end.
Definition len_z {A : Type} (l : list A) : Z := Z.of_nat (length l).

