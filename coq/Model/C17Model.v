(* C17: executable model of node ages, the ultrametricity check, root distances, lineage
   counting and the unary tree statistics of DendroPy.

   Hand transcription of
     src/dendropy/datamodel/treemodel/_tree.py   Tree.calc_node_ages, node_ages, internal_node_ages,
        calc_node_root_distances, resolve_node_depths, resolve_node_ages,
        set_edge_lengths_from_node_ages, num_lineages_at, length, max_distance_from_root,
        minmax_leaf_distance_from_root
     src/dendropy/calculate/treemeasure.py       B1, colless_tree_imbalance, sackin_index, N_bar,
        treeness, pybus_harvey_gamma
   tied to the source by the correspondence check py/dv/c17.py.

   Lengths, ages, depths, precisions are Z in units of 2^-10 (Model/Tree.v); a float precision p >= 0
   is represented by floor(p / unit), which decides `d > p` identically for every integer d.
   Post-order / pre-order loops over the node objects are structural recursion over the rose tree
   (children left to right, first exception wins).  Quantities with division are Q.  ln, x^(3/2)
   and sqrt values are inputs (record `tr`) - the model carries the rational parts exactly.

   No proofs in this file. *)
From Coq Require Import ZArith QArith Qabs List Bool Permutation.
From DV Require Import Model.PyPrims Model.Tree.
Import ListNotations.
Open Scope Z_scope.

(* ------------------------------------------------------------------------------------------ *)
(* results with the node at which an exception was raised                                      *)

Inductive cerr := Ultra | Py (e : err).          (* UltrametricityError | any other exception class *)

Definition cerr_eqb (a b : cerr) : bool :=
  match a, b with
  | Ultra, Ultra => true
  | Py e, Py f => err_eqb e f
  | _, _ => false
  end.

Inductive cres (X : Type) : Type :=
| COk (x : X)
| CErr (e : cerr) (node : Z).                    (* exception raised while processing node `node` *)
Arguments COk {X} _.
Arguments CErr {X} _ _.

Fixpoint csequence {X} (l : list (cres X)) : cres (list X) :=
  match l with
  | [] => COk []
  | COk x :: r => match csequence r with COk xs => COk (x :: xs) | CErr e n => CErr e n end
  | CErr e n :: _ => CErr e n
  end.

Fixpoint rsequence {X} (l : list (res X)) : res (list X) :=
  match l with
  | [] => Ok []
  | Ok x :: r => match rsequence r with Ok xs => Ok (x :: xs) | Err e => Err e | OutOfFuel => OutOfFuel end
  | Err e :: _ => Err e
  | OutOfFuel :: _ => OutOfFuel
  end.

(* ------------------------------------------------------------------------------------------ *)
(* trees with the `age` attribute                                                              *)

Inductive atree : Type :=
| A (id : Z) (taxon : option Z) (label : option Z) (age : Z) (len : option Z) (kids : list atree).

Definition a_id (a : atree) := match a with A i _ _ _ _ _ => i end.
Definition a_age (a : atree) := match a with A _ _ _ g _ _ => g end.
Definition a_len (a : atree) := match a with A _ _ _ _ e _ => e end.
Definition a_kids (a : atree) := match a with A _ _ _ _ _ k => k end.
Definition a_is_leaf (a : atree) : bool := match a_kids a with [] => true | _ => false end.

Fixpoint aforget (a : atree) : tree :=
  match a with A i x l _ e ks => T i x l e (map aforget ks) end.

Fixpoint apreorder (a : atree) : list atree :=
  match a with A _ _ _ _ _ ks => a :: flat_map apreorder ks end.

Fixpoint apostorder (a : atree) : list atree :=
  match a with A _ _ _ _ _ ks => flat_map apostorder ks ++ [a] end.

Definition len0 (o : option Z) : Z := match o with Some l => l | None => 0 end.

(* child.age + child.edge.length (length None read as 0: the code sets it to 0.0 first) *)
Definition a_path (a : atree) : Z := a_age a + len0 (a_len a).

Definition coerce_len (a : atree) : atree :=
  match a with
  | A i x l g None ks => A i x l g (Some 0) ks
  | _ => a
  end.

Definition len_defined (a : atree) : bool := match a_len a with Some _ => true | None => false end.

(* max / min of a non-empty Python list x :: r *)
Fixpoint maxl (x : Z) (r : list Z) : Z := match r with [] => x | y :: r' => Z.max x (maxl y r') end.
Fixpoint minl (x : Z) (r : list Z) : Z := match r with [] => x | y :: r' => Z.min x (minl y r') end.

(* ------------------------------------------------------------------------------------------ *)
(* calc_node_ages                                                                              *)

Inductive precv := PNone | PFalse | PNum (p : Z).      (* ultrametricity_precision *)

(* `ultrametricity_precision is None or ... is False or ... < 0`  =>  no check *)
Definition check_prec (p : precv) : option Z :=
  match p with
  | PNum z => if z <? 0 then None else Some z
  | _ => None
  end.

Record cfg := mkCfg { c_prec : precv; c_fmax : bool; c_fmin : bool }.

(* `for nnd in child_nodes[1:]` ... ; the error message is formatted with
   `(desc_nd.edge.length or 0.0) + desc_nd.age` (repo commit bf544174), which cannot raise: the
   exception is always UltrametricityError *)
Fixpoint check_rest (p : Z) (i : Z) (age : Z) (rest : list atree) : cres (list atree) :=
  match rest with
  | [] => COk []
  | c :: r =>
    if Z.abs (age - a_path c) >? p
    then CErr Ultra i
    else match check_rest p i age r with
         | COk r' => COk (coerce_len c :: r')
         | CErr e n => CErr e n
         end
  end.

Definition node_step (c : cfg) (i : Z) (x l : option Z) (e : option Z) (rs : list (cres atree)) : cres atree :=
  match csequence rs with
  | CErr er n => CErr er n
  | COk [] => COk (A i x l 0 e [])
  | COk (a0 :: rest) =>
    if c_fmax c then
      if forallb len_defined (a0 :: rest)
      then COk (A i x l (maxl (a_path a0) (map a_path rest)) e (a0 :: rest))
      else CErr (Py TypeErr) i
    else if c_fmin c then
      if forallb len_defined (a0 :: rest)
      then COk (A i x l (minl (a_path a0) (map a_path rest)) e (a0 :: rest))
      else CErr (Py TypeErr) i
    else
      let age := a_path a0 in
      match check_prec (c_prec c) with
      | None => COk (A i x l age e (coerce_len a0 :: rest))
      | Some p =>
        match check_rest p i age rest with
        | COk rest' => COk (A i x l age e (coerce_len a0 :: rest'))
        | CErr er n => CErr er n
        end
      end
  end.

Fixpoint calc (c : cfg) (t : tree) : cres atree :=
  match t with T i x l e ks => node_step c i x l e (map (calc c) ks) end.

Definition calc_node_ages (c : cfg) (t : tree) : cres atree :=
  if c_fmax c && c_fmin c then CErr (Py ValueErr) (-1) else calc c t.

(* ------------------------------------------------------------------------------------------ *)
(* Variant: the proposed repair of F16 (not what the library does today).  Per node the shortest
   and the longest path to a tip below it are kept; the test is `longest - shortest > precision`.
   The harness selects this variant only when the working tree rejects the
   F16 witness. *)
Fixpoint alo (a : atree) : Z :=
  match a with
  | A _ _ _ g _ [] => g
  | A _ _ _ g _ ks => minl g (map (fun k => alo k + len0 (a_len k)) ks)
  end.
Fixpoint ahi (a : atree) : Z :=
  match a with
  | A _ _ _ g _ [] => g
  | A _ _ _ g _ ks => maxl g (map (fun k => ahi k + len0 (a_len k)) ks)
  end.

Definition node_step_fix (c : cfg) (i : Z) (x l : option Z) (e : option Z) (rs : list (cres atree)) : cres atree :=
  match csequence rs with
  | CErr er n => CErr er n
  | COk [] => COk (A i x l 0 e [])
  | COk (a0 :: rest) =>
    if c_fmax c then
      if forallb len_defined (a0 :: rest)
      then COk (A i x l (maxl (a_path a0) (map a_path rest)) e (a0 :: rest))
      else CErr (Py TypeErr) i
    else if c_fmin c then
      if forallb len_defined (a0 :: rest)
      then COk (A i x l (minl (a_path a0) (map a_path rest)) e (a0 :: rest))
      else CErr (Py TypeErr) i
    else
      let age := a_path a0 in
      match check_prec (c_prec c) with
      | None => COk (A i x l age e (coerce_len a0 :: rest))
      | Some p =>
        let r := A i x l age e (map coerce_len (a0 :: rest)) in
        if ahi r - alo r >? p then CErr Ultra i else COk r
      end
  end.

Fixpoint calc_fix (c : cfg) (t : tree) : cres atree :=
  match t with T i x l e ks => node_step_fix c i x l e (map (calc_fix c) ks) end.

Definition calc_node_ages_fix (c : cfg) (t : tree) : cres atree :=
  if c_fmax c && c_fmin c then CErr (Py ValueErr) (-1) else calc_fix c t.

(* which of the two the working tree implements *)
Definition calc_node_ages_v (fixed : bool) := if fixed then calc_node_ages_fix else calc_node_ages.

(* the returned list `ages` *)
Definition ret_ages (internal_only : bool) (a : atree) : list Z :=
  map a_age (filter (fun v => negb (internal_only && a_is_leaf v)) (apostorder a)).

Fixpoint insert_sorted (x : Z) (l : list Z) : list Z :=
  match l with
  | [] => [x]
  | y :: r => if x <=? y then x :: l else y :: insert_sorted x r
  end.
Definition sort_asc (l : list Z) : list Z := fold_right insert_sorted [] l.

(* Tree.node_ages / Tree.internal_node_ages *)
Definition node_ages_v (fixed : bool) (c : cfg) (internal_only : bool) (t : tree) : cres (list Z) :=
  match calc_node_ages_v fixed c t with
  | COk a => COk (sort_asc (ret_ages internal_only a))
  | CErr e n => CErr e n
  end.

Definition node_ages (c : cfg) (internal_only : bool) (t : tree) : cres (list Z) :=
  match calc_node_ages c t with
  | COk a => COk (sort_asc (ret_ages internal_only a))
  | CErr e n => CErr e n
  end.

(* number of nodes whose age attribute has been assigned when the exception leaves the loop *)
Fixpoint index_of (i : Z) (l : list Z) (k : Z) : Z :=
  match l with [] => k | y :: r => if Z.eqb i y then k else index_of i r (k + 1) end.
Definition n_aged (c : cfg) (t : tree) (node : Z) : Z :=
  if c_fmax c && c_fmin c then 0
  else index_of node (map t_id (postorder t)) 0 + (if c_fmax c || c_fmin c then 0 else 1).

(* ------------------------------------------------------------------------------------------ *)
(* calc_node_root_distances, resolve_node_depths / resolve_node_ages                           *)

Record dentry := mkD { d_id : Z; d_parent : Z; d_depth : Z; d_leaf : bool }.

Fixpoint rd (pd : Z) (t : tree) : res (list dentry) :=
  match t with
  | T i _ _ e ks =>
    match e with
    | None => Err TypeErr                       (* None + float *)
    | Some l =>
      let d := l + pd in
      match rsequence (map (rd d) ks) with
      | Ok rest => Ok (mkD i pd d (is_leaf t) :: concat rest)
      | Err er => Err er
      | OutOfFuel => OutOfFuel
      end
    end
  end.

(* all nodes in pre-order; the root has root_distance 0.0 whatever its edge length *)
Definition root_dists (t : tree) : res (list dentry) :=
  match rsequence (map (rd 0) (t_kids t)) with
  | Ok rest => Ok (mkD (t_id t) 0 0 (is_leaf t) :: concat rest)
  | Err er => Err er
  | OutOfFuel => OutOfFuel
  end.

Definition calc_node_root_distances (leaf_only : bool) (t : tree) : res (list Z) :=
  match root_dists t with
  | Ok ds => Ok (map d_depth (filter (fun d => negb leaf_only || d_leaf d) ds))
  | Err e => Err e
  | OutOfFuel => OutOfFuel
  end.

Definition max_distance_from_root (t : tree) : res Z :=
  match calc_node_root_distances true t with
  | Ok (x :: r) => Ok (maxl x r)
  | Ok [] => Err ValueErr                       (* max([]) - unreachable: every tree has a leaf *)
  | Err e => Err e
  | OutOfFuel => OutOfFuel
  end.

Definition minmax_leaf_distance_from_root (t : tree) : res (Z * Z) :=
  match calc_node_root_distances true t with
  | Ok (x :: r) => Ok (minl x r, maxl x r)
  | Ok [] => Err ValueErr
  | Err e => Err e
  | OutOfFuel => OutOfFuel
  end.

(* resolve_node_depths: id -> depth in pre-order *)
Definition resolve_node_depths (t : tree) : res (list (Z * Z)) :=
  match root_dists t with
  | Ok ds => Ok (map (fun d => (d_id d, d_depth d)) ds)
  | Err e => Err e
  | OutOfFuel => OutOfFuel
  end.

(* resolve_node_ages: max over ALL nodes of the depth, minus the depth *)
Definition resolve_node_ages (t : tree) : res (list (Z * Z)) :=
  match root_dists t with
  | Ok (d0 :: r) =>
    let m := maxl (d_depth d0) (map d_depth r) in
    Ok (map (fun d => (d_id d, m - d_depth d)) (d0 :: r))
  | Ok [] => Err ValueErr
  | Err e => Err e
  | OutOfFuel => OutOfFuel
  end.

(* num_lineages_at *)
Definition lineage_here (x : Z) (d : dentry) : bool :=
  (d_depth d =? x) || ((d_depth d >=? x) && (d_parent d <? x)).

Definition num_lineages_at (x : Z) (t : tree) : res Z :=
  match root_dists t with
  | Ok ds => Ok (Z.of_nat (length (filter (lineage_here x) (tl ds))))
  | Err e => Err e
  | OutOfFuel => OutOfFuel
  end.

(* Tree.length: every edge, the root's included; None counts 0 *)
Fixpoint tree_length (t : tree) : Z :=
  match t with T _ _ _ e ks => fold_right Z.add 0 (map tree_length ks) + len0 e end.

(* ------------------------------------------------------------------------------------------ *)
(* set_edge_lengths_from_node_ages                                                             *)

Definition new_len (mn : option Z) (page age : Z) : Z :=
  let el := page - age in
  match mn with
  | Some m => if el <? m then m else el
  | None => el
  end.

Fixpoint set_lens_nr (mn : option Z) (eon : bool) (page : Z) (a : atree) : res tree :=
  match a with
  | A i x l g _ ks =>
    let el := new_len mn page g in
    if eon && (el <? 0) then Err ValueErr
    else match rsequence (map (set_lens_nr mn eon g) ks) with
         | Ok ks' => Ok (T i x l (Some el) ks')
         | Err er => Err er
         | OutOfFuel => OutOfFuel
         end
  end.

Definition set_edge_lengths_from_node_ages (mn : option Z) (eon : bool) (a : atree) : res tree :=
  match a with
  | A i x l g e ks =>
    match rsequence (map (set_lens_nr mn eon g) ks) with
    | Ok ks' => Ok (T i x l e ks')
    | Err er => Err er
    | OutOfFuel => OutOfFuel
    end
  end.

(* ------------------------------------------------------------------------------------------ *)
(* statistics                                                                                  *)
Open Scope Q_scope.

Definition sumQ (l : list Q) : Q := fold_right Qplus 0 l.
Definition sumZ (l : list Z) : Z := fold_right Z.add 0%Z l.

(* B1: nd_mi and the running sum, for the subtree below a non-root node *)
Fixpoint mi (t : tree) : Z :=
  match t with
  | T _ _ _ _ [] => 0%Z
  | T _ _ _ _ (k :: r) => (maxl (mi k) (map mi r) + 1)%Z
  end.

Fixpoint b1_sub (t : tree) : Q :=
  match t with
  | T _ _ _ _ [] => 0
  | T _ _ _ _ ks => sumQ (map b1_sub ks) + (1 # Z.to_pos (mi t))
  end.

Definition B1 (t : tree) : Q := sumQ (map b1_sub (t_kids t)).

(* normalisation argument *)
Inductive norm := NNone | NFalse | NTrue | NMax | NYule | NPda | NBad.

(* transcendental values supplied from outside: ln n, ln 2, Euler's constant, n^(3/2),
   sqrt(1/(12(n-2))) *)
Record tr := mkTr { ln_n : Q; ln_2 : Q; euler : Q; pow15 : Q; sqrt_f : Q }.

(* Colless: (running sum, subtree_leaves[nd]) *)
Fixpoint colless_sub (t : tree) : res (Z * Z) :=
  match t with
  | T _ _ _ _ [] => Ok (0%Z, 1%Z)
  | T _ _ _ _ ks =>
    match rsequence (map colless_sub ks) with
    | Ok [(cl, nl); (cr, nr)] => Ok ((cl + cr + Z.abs (nr - nl))%Z, (nl + nr)%Z)
    | Ok [_] => Err IndexErr                    (* nd._child_nodes[1] *)
    | Ok _ => Err TypeErr                       (* len(nd._child_nodes) > 2 *)
    | Err e => Err e
    | OutOfFuel => OutOfFuel
    end
  end.

Definition colless_tree_imbalance (w : tr) (nm : norm) (t : tree) : res Q :=
  match colless_sub t with
  | Ok (c, n) =>
    let cq := inject_Z c in
    let nq := inject_Z n in
    match nm with
    | NYule => Ok ((cq - nq * ln_n w - nq * (euler w - 1 - ln_2 w)) / nq)
    | NPda => Ok (cq / pow15 w)
    | NTrue | NMax =>
      let den := (n * (n - 3) + 2)%Z in
      if (den =? 0)%Z then Err OtherErr          (* ZeroDivisionError *)
      else Ok (cq * (2 / inject_Z den))
    | NNone | NFalse => Ok cq
    | NBad => Err TypeErr
    end
  | Err e => Err e
  | OutOfFuel => OutOfFuel
  end.

(* number of ancestors of every leaf, leaves left to right *)
Fixpoint leaf_depths (d : Z) (t : tree) : list Z :=
  match t with
  | T _ _ _ _ [] => [d]
  | T _ _ _ _ ks => flat_map (leaf_depths (d + 1)) ks
  end.

Fixpoint harmonic_from2 (n : nat) : Q :=       (* sum_{j=2}^{n} 1/j *)
  match n with
  | O => 0
  | S m => match m with O => 0 | _ => harmonic_from2 m + (1 # Pos.of_nat n) end
  end.

Definition N_bar (t : tree) : Q :=
  inject_Z (sumZ (leaf_depths 0 t)) / inject_Z (Z.of_nat (length (leaf_depths 0 t))).

Definition sackin_index (w : tr) (nm : norm) (t : tree) : res Q :=
  let num_anc := inject_Z (sumZ (leaf_depths 0 t)) in
  let nl := length (leaf_depths 0 t) in
  let lc := inject_Z (Z.of_nat nl) in
  match nm with
  | NYule => Ok ((num_anc - 2 * lc * harmonic_from2 nl) / lc)
  | NPda => Ok (num_anc / pow15 w)
  | NTrue => Ok (num_anc / lc)
  | NNone | NFalse => Ok num_anc
  | NMax | NBad => Err TypeErr
  end.

(* treeness: (internal, external) sums over the edges of the subtree of a non-root node *)
Fixpoint tre_sub (t : tree) : res (Z * Z) :=
  match t with
  | T _ _ _ e ks =>
    match rsequence (map tre_sub ks) with
    | Ok rs =>
      match e with
      | None => Err TypeErr
      | Some l =>
        let i := sumZ (map fst rs) in
        let x := sumZ (map snd rs) in
        match ks with
        | [] => Ok (i, (x + l)%Z)
        | _ => Ok ((i + l)%Z, x)
        end
      end
    | Err er => Err er
    | OutOfFuel => OutOfFuel
    end
  end.

Definition treeness (t : tree) : res Q :=
  match rsequence (map tre_sub (t_kids t)) with
  | Ok rs =>
    let i := sumZ (map fst rs) in
    let x := sumZ (map snd rs) in
    if ((x + i) =? 0)%Z then Err OtherErr        (* ZeroDivisionError *)
    else Ok (inject_Z i / inject_Z (x + i))
  | Err er => Err er
  | OutOfFuel => OutOfFuel
  end.

(* Pybus & Harvey gamma *)
Fixpoint insert_desc (x : Z) (l : list Z) : list Z :=
  match l with
  | [] => [x]
  | y :: r => if (y <=? x)%Z then x :: l else y :: insert_desc x r
  end.
Definition sort_desc (l : list Z) : list Z := fold_right insert_desc [] l.

(* g from the ages sorted youngest last: successive differences, then the youngest age itself *)
Fixpoint waiting_times (older : Z) (rest : list Z) : list Z :=
  match rest with
  | [] => [older]
  | age :: r => (older - age)%Z :: waiting_times age r
  end.

(* for i in range(2, n): T += i*g[i-2]; accum += T      (g' = the first n-2 entries of g) *)
Fixpoint gamma_loop (i : Z) (g' : list Z) (T accum : Z) : Z * Z :=
  match g' with
  | [] => (T, accum)
  | x :: r => let T' := (T + i * x)%Z in gamma_loop (i + 1) r T' (accum + T')%Z
  end.

Record gparts := mkGP { gp_n : Z; gp_T : Z; gp_accum : Z; gp_numerator : Q }.

Definition gamma_of_ages (a : atree) : res gparts :=
  let nodes := apostorder a in
  let spec := map a_age (filter (fun v => (length (a_kids v) =? 2)%nat) nodes) in
  let n := Z.of_nat (length (filter (fun v => negb (length (a_kids v) =? 2)%nat) nodes)) in
  match sort_desc spec with
  | [] => Err IndexErr                           (* speciation_ages[0] *)
  | older :: rest =>
    let g := waiting_times older rest in
    if negb (Z.of_nat (length g) =? n - 1)%Z then Err AssertErr
    else
      let '(T0, accum) := gamma_loop 2 (removelast g) 0%Z 0%Z in
      let T := (T0 + n * last g 0%Z)%Z in
      if (n - 2 =? 0)%Z then Err OtherErr         (* accum / 0.0 *)
      else
        let numerator := inject_Z accum / inject_Z (n - 2) - inject_Z T / 2 in
        if (T =? 0)%Z then Err OtherErr           (* numerator / 0.0 *)
        else Ok (mkGP n T accum numerator)
  end.

(* gamma * sqrt(1/(12(n-2))) = numerator / T ; the float result is numerator / (T * sqrt_f) *)
Definition gamma_value (w : tr) (p : gparts) : Q := gp_numerator p / (inject_Z (gp_T p) * sqrt_f w).

Inductive gres := GOk (p : gparts) | GAgeErr (e : cerr) | GErr (e : err).

Definition pybus_harvey_gamma_v (fixed : bool) (prec : precv) (t : tree) : gres :=
  match calc_node_ages_v fixed (mkCfg prec false false) t with
  | CErr e _ => GAgeErr e
  | COk a => match gamma_of_ages a with Ok p => GOk p | Err e => GErr e | OutOfFuel => GErr OtherErr end
  end.

Definition pybus_harvey_gamma (prec : precv) (t : tree) : gres := pybus_harvey_gamma_v false prec t.

(* ------------------------------------------------------------------------------------------ *)
(* specification-level functions on the rose tree (used by the theorems, not by the model)     *)
Open Scope Z_scope.

Definition elen (t : tree) : Z := len0 (t_len t).        (* edge length, None read as 0 *)

(* distance from the node to every tip below it, tips left to right *)
Fixpoint tipdists (t : tree) : list Z :=
  match t with
  | T _ _ _ _ [] => [0]
  | T _ _ _ _ ks => flat_map (fun k => map (Z.add (elen k)) (tipdists k)) ks
  end.

(* length of the path that always descends into the first child *)
Fixpoint fp (t : tree) : Z :=
  match t with
  | T _ _ _ _ [] => 0
  | T _ _ _ _ (k :: _) => fp k + elen k
  end.

(* distance to the furthest / nearest tip, computed recursively *)
Fixpoint hmax (t : tree) : Z :=
  match t with
  | T _ _ _ _ [] => 0
  | T _ _ _ _ (k :: r) => maxl (hmax k + elen k) (map (fun c => hmax c + elen c) r)
  end.
Fixpoint hmin (t : tree) : Z :=
  match t with
  | T _ _ _ _ [] => 0
  | T _ _ _ _ (k :: r) => minl (hmin k + elen k) (map (fun c => hmin c + elen c) r)
  end.

(* which missing lengths a successful call replaces by 0.0: those of all non-root nodes (check
   enabled), of first children only (check disabled), none (forcing options) *)
Inductive cmode := CoAll | CoFirst | CoNone.

(* the tree with age attribute f(subtree) at every node; `co`: this node's own length is coerced *)
Fixpoint annot (f : tree -> Z) (m : cmode) (co : bool) (t : tree) : atree :=
  match t with
  | T i x l e ks =>
    A i x l (f t) (if co then Some (len0 e) else e)
      match m with
      | CoAll => map (annot f m true) ks
      | CoFirst => match ks with [] => [] | k :: r => annot f m true k :: map (annot f m false) r end
      | CoNone => map (annot f m false) ks
      end
  end.

(* the input tree after those replacements: what the call leaves behind *)
Fixpoint coerce (m : cmode) (co : bool) (t : tree) : tree :=
  match t with
  | T i x l e ks =>
    T i x l (if co then Some (len0 e) else e)
      match m with
      | CoAll => map (coerce m true) ks
      | CoFirst => match ks with [] => [] | k :: r => coerce m true k :: map (coerce m false) r end
      | CoNone => map (coerce m false) ks
      end
  end.

Definition mode_of (c : cfg) : cmode :=
  if c_fmax c || c_fmin c then CoNone
  else match check_prec (c_prec c) with Some _ => CoAll | None => CoFirst end.

(* the per-node, per-child test the code performs, as a function of the input tree *)
Fixpoint local_okb (p : Z) (t : tree) : bool :=
  match t with
  | T _ _ _ _ ks =>
    forallb (fun c => Z.abs (fp t - (fp c + elen c)) <=? p) (tl ks) && forallb (local_okb p) ks
  end.

(* the test of the proposed repair, as a function of the input tree *)
Fixpoint global_okb (p : Z) (t : tree) : bool :=
  match t with
  | T _ _ _ _ ks => (hmax t - hmin t <=? p) && forallb (global_okb p) ks
  end.

(* k and every node below it, each with the edge lengths from k's own edge down to the node *)
Fixpoint epaths (k : tree) : list (tree * list Z) :=
  match k with
  | T _ _ _ _ ks => (k, [elen k]) :: flat_map (fun c => map (fun vp => (fst vp, elen k :: snd vp)) (epaths c)) ks
  end.

(* every node with the edge lengths on the way from the root (root: empty path), pre-order *)
Definition paths (t : tree) : list (tree * list Z) := (t, []) :: flat_map epaths (t_kids t).

Definition dentry_of (vp : tree * list Z) : dentry :=
  mkD (t_id (fst vp)) (sumZ (removelast (snd vp))) (sumZ (snd vp)) (is_leaf (fst vp)).

(* non-root nodes *)
Definition nonroot (t : tree) : list tree := flat_map preorder (t_kids t).

(* the same tree up to the order of the children, at every level *)
Inductive tperm : tree -> tree -> Prop :=
| tperm_node : forall i x l e ks ks' ks'',
    Forall2 tperm ks ks' -> Permutation ks' ks'' -> tperm (T i x l e ks) (T i x l e ks'').

(* ------------------------------------------------------------------------------------------ *)
(* correspondence cases                                                                        *)

Definition zz_eqb (a b : Z * Z) : bool := (fst a =? fst b)%Z && (snd a =? snd b)%Z.
Definition zoz_eqb (a b : Z * option Z) : bool := (fst a =? fst b)%Z && oz_eqb (snd a) (snd b).

Definition res_Z_eqb := res_eqb Z.eqb.
Definition res_lz_eqb := res_eqb (list_eqb Z.eqb).
Definition res_lzz_eqb := res_eqb (list_eqb zz_eqb).

(* |a - b| <= 1e-12 * (1 + |a| + |b|) : exact rational against the library's binary64 result *)
Definition Qclose (a b : Q) : bool :=
  Qle_bool (Qabs (a - b)) ((1 # 1000000000000) * (1 + Qabs a + Qabs b)).

(* observation of a float-valued statistic: the float as an exact rational, or the exception *)
Inductive sobs := SVal (q : Q) | SErr (e : err).

Definition sobs_ok (m : res Q) (o : sobs) : bool :=
  match m, o with
  | Ok v, SVal q => Qclose v q
  | Err e, SErr f => err_eqb e f
  | _, _ => false
  end.

Inductive ages_obs :=
| AgesOk (ages : list (Z * Z)) (lens : list (Z * option Z)) (ret : list Z)
| AgesErr (e : cerr) (aged : Z).

Definition ages_obs_ok (fx : bool) (c : cfg) (internal_only : bool) (t : tree) (o : ages_obs) : bool :=
  match calc_node_ages_v fx c t, o with
  | COk a, AgesOk ages lens ret =>
    list_eqb zz_eqb (map (fun v => (a_id v, a_age v)) (apostorder a)) ages
    && list_eqb zoz_eqb (map (fun v => (a_id v, a_len v)) (apostorder a)) lens
    && list_eqb Z.eqb (ret_ages internal_only a) ret
  | CErr e n, AgesErr e' k => cerr_eqb e e' && (n_aged c t n =? k)%Z
  | _, _ => false
  end.

Inductive lz_obs := LOk (l : list Z) | LErr (e : cerr).
Definition lz_obs_ok (m : cres (list Z)) (o : lz_obs) : bool :=
  match m, o with
  | COk l, LOk l' => list_eqb Z.eqb l l'
  | CErr e _, LErr e' => cerr_eqb e e'
  | _, _ => false
  end.

(* set_edge_lengths_from_node_ages on the ages just computed *)
Definition setlen_ok (fx : bool) (c : cfg) (t : tree) (mn : option Z) (eon : bool) (o : res tree) : bool :=
  match calc_node_ages_v fx c t with
  | COk a => res_eqb tree_eqb (set_edge_lengths_from_node_ages mn eon a) o
  | CErr _ _ => true                               (* not run *)
  end.

Inductive gobs := GVal (q : Q) | GObsErr (e : cerr).

Definition tr_ok (n : Z) (w : tr) : bool :=
  let nq := inject_Z n in
  Qclose (pow15 w * pow15 w) (nq * nq * nq)
  && ((n <=? 2)%Z || Qclose (sqrt_f w * sqrt_f w * (12 * (nq - 2))) 1)
  && Qle_bool (Qabs (euler w - (5772156649015328606 # 10000000000000000000))) (1 # 1000000000000000).

Definition gamma_ok (fx : bool) (w : tr) (prec : precv) (t : tree) (o : gobs) : bool :=
  match pybus_harvey_gamma_v fx prec t, o with
  | GOk p, GVal q => Qclose (gamma_value w p) q
  | GAgeErr e, GObsErr e' => cerr_eqb e e'
  | GErr e, GObsErr e' => cerr_eqb (Py e) e'
  | _, _ => false
  end.

Inductive case :=
| CaseAges (fx : bool) (t : tree) (c : cfg) (internal_only : bool) (o : ages_obs) (sorted : lz_obs)
           (mn : option Z) (eon : bool) (setlen : res tree)
| CaseDepth (t : tree)
            (all_d : res (list (Z * Z)))           (* (id, root_distance) of every node, pre-order *)
            (ret_leaf : res (list Z)) (ret_all : res (list Z))
            (rdepths : res (list (Z * Z))) (rages : res (list (Z * Z)))
            (lineages : list (Z * res Z))
            (len : Z) (maxd : res Z) (minmax : res (Z * Z))
| CaseStats (fx : bool) (t : tree) (w : tr)
            (b1 : sobs) (colless : list (norm * sobs)) (sackin : list (norm * sobs))
            (nbar : sobs) (tness : sobs) (gammas : list (precv * gobs))
(* one group of queries inside a history on ONE tree object (queries, then edits of the edge
   lengths, then queries again): t is the tree as it is at that moment; every method recomputes
   from the current lengths, so the model is evaluated on t alone *)
| CaseStep (fx : bool) (t : tree) (w : tr)
           (lineages : list (Z * res Z)) (maxd : res Z) (minmax : res (Z * Z)) (len : Z)
           (sorted : list (cfg * bool * lz_obs)) (tness : list sobs) (gammas : list (precv * gobs)).

Definition case_ok (k : case) : bool :=
  match k with
  | CaseAges fx t c io o sorted mn eon setlen =>
    ages_obs_ok fx c io t o && lz_obs_ok (node_ages_v fx c io t) sorted && setlen_ok fx c t mn eon setlen
  | CaseDepth t all_d ret_leaf ret_all rdepths rages lineages len maxd minmax =>
    res_lzz_eqb (resolve_node_depths t) all_d
    && res_lz_eqb (calc_node_root_distances true t) ret_leaf
    && res_lz_eqb (calc_node_root_distances false t) ret_all
    && res_lzz_eqb (resolve_node_depths t) rdepths
    && res_lzz_eqb (resolve_node_ages t) rages
    && forallb (fun xo => res_Z_eqb (num_lineages_at (fst xo) t) (snd xo)) lineages
    && (tree_length t =? len)%Z
    && res_Z_eqb (max_distance_from_root t) maxd
    && res_eqb zz_eqb (minmax_leaf_distance_from_root t) minmax
  | CaseStats fx t w b1 colless sackin nbar tness gammas =>
    tr_ok (Z.of_nat (length (leaves t))) w
    && sobs_ok (Ok (B1 t)) b1
    && forallb (fun no => sobs_ok (colless_tree_imbalance w (fst no) t) (snd no)) colless
    && forallb (fun no => sobs_ok (sackin_index w (fst no) t) (snd no)) sackin
    && sobs_ok (Ok (N_bar t)) nbar
    && sobs_ok (treeness t) tness
    && forallb (fun po => gamma_ok fx w (fst po) t (snd po)) gammas
  | CaseStep fx t w lineages maxd minmax len sorted tness gammas =>
    forallb (fun xo => res_Z_eqb (num_lineages_at (fst xo) t) (snd xo)) lineages
    && res_Z_eqb (max_distance_from_root t) maxd
    && res_eqb zz_eqb (minmax_leaf_distance_from_root t) minmax
    && (tree_length t =? len)%Z
    && forallb (fun cio => lz_obs_ok (node_ages_v fx (fst (fst cio)) (snd (fst cio)) t) (snd cio)) sorted
    && forallb (fun o => sobs_ok (treeness t) o) tness
    && (match gammas with [] => true | _ => tr_ok (Z.of_nat (length (leaves t))) w end)
    && forallb (fun po => gamma_ok fx w (fst po) t (snd po)) gammas
  end.

(* what the model computes, for replays *)
Definition case_run (k : case) :=
  match k with
  | CaseAges fx t c io _ _ mn eon _ =>
    (Some (calc_node_ages_v fx c t), None, None)
  | CaseDepth t _ _ _ _ _ lineages _ _ _ =>
    (None, Some (root_dists t, map (fun xo => num_lineages_at (fst xo) t) lineages, tree_length t), None)
  | CaseStep fx t w lineages _ _ _ _ _ gammas =>
    (None, Some (root_dists t, map (fun xo => num_lineages_at (fst xo) t) lineages, tree_length t), None)
  | CaseStats fx t w _ colless sackin _ _ gammas =>
    (None, None, Some (B1 t, map (fun no => colless_tree_imbalance w (fst no) t) colless,
                       map (fun no => sackin_index w (fst no) t) sackin, N_bar t, treeness t,
                       map (fun po => pybus_harvey_gamma_v fx (fst po) t) gammas))
  end.
