(* C14: specification-level functions on rose trees (structural recursion only).
   These are what the theorems in Props/C14.v compare the model of the library code with. *)
From Coq Require Import ZArith QArith List Bool.
From DV Require Import Model.PyPrims Model.Tree Model.C14Model.
Import ListNotations.
Open Scope Z_scope.

Section FirstSome.
  Context {A B : Type} (f : A -> option B).
  Fixpoint first_some (l : list A) : option B :=
    match l with
    | [] => None
    | x :: r => match f x with Some y => Some y | None => first_some r end
    end.
End FirstSome.

(* some leaf of t carries taxon a *)
Fixpoint has (a : Z) (t : tree) : bool :=
  match t with
  | T _ x _ _ [] => oz_eqb x (Some a)
  | T _ _ _ _ ks => existsb (has a) ks
  end.

(* sum of the edge lengths (None = 0) and number of edges on the way from the root of t down to the
   leaf carrying a; the edge above t itself is not counted *)
Fixpoint down (a : Z) (t : tree) {struct t} : option (Z * Z) :=
  match t with
  | T _ x _ _ [] => if oz_eqb x (Some a) then Some (0, 0) else None
  | T _ _ _ _ ks =>
    first_some (fun k => match down a k with
                         | Some ls => Some (fst ls + len0 k, snd ls + 1)
                         | None => None
                         end) ks
  end.

(* the deepest node of t below which both a and b are found: where the path from a to b turns *)
Fixpoint lca (a b : Z) (t : tree) : option tree :=
  if has a t && has b t then
    match t with
    | T _ _ _ _ ks => match first_some (lca a b) ks with Some r => Some r | None => Some t end
    end
  else None.

(* sum of edge lengths / number of edges on the path between the leaves carrying a and b *)
Definition dist (t : tree) (a b : Z) : option Z :=
  match lca a b t with
  | Some r => match down a r, down b r with
              | Some la, Some lb => Some (fst la + fst lb)
              | _, _ => None
              end
  | None => None
  end.

Definition steps (t : tree) (a b : Z) : option Z :=
  match lca a b t with
  | Some r => match down a r, down b r with
              | Some la, Some lb => Some (snd la + snd lb)
              | _, _ => None
              end
  | None => None
  end.

(* total of the edge lengths of t, including the edge above its root *)
Fixpoint total_length (t : tree) : Z :=
  match t with T _ _ _ e ks => len0 t + fold_right (fun k acc => total_length k + acc) 0 ks end.

(* the taxa on the leaves of t, left to right (leaves without a taxon left out) *)
Definition taxa_of (t : tree) : list Z :=
  flat_map (fun o => match o with Some a => [a] | None => [] end) (leaf_taxa t).

(* all pairs (x, y) with x before y in l *)
Fixpoint ordered_pairs (l : list Z) : list (Z * Z) :=
  match l with
  | [] => []
  | x :: r => map (fun y => (x, y)) r ++ ordered_pairs r
  end.

(* equality of pairs of taxa is decidable (used with count_occ) *)
Definition zz_dec (p q : Z * Z) : {p = q} + {p <> q}.
Proof. decide equality; apply Z.eq_dec. Qed.

(* every leaf carries a taxon, and no taxon sits on two leaves *)
Definition good_leaves (t : tree) : Prop :=
  NoDup (leaf_taxa t) /\ ~ In None (leaf_taxa t).

(* ---- Tree.mrca ---- *)
(* every taxon of s is found on a leaf of t *)
Definition covers (s : list Z) (t : tree) : bool := forallb (fun a => has a t) s.

(* the deepest node of t whose leaves include all of s (None if t itself does not) *)
Fixpoint deepest (s : list Z) (t : tree) : option tree :=
  if covers s t then
    match t with
    | T _ _ _ _ ks => match first_some (deepest s) ks with Some r => Some r | None => Some t end
    end
  else None.

(* ---- leafset bitmasks ---- *)
(* OR of the bits 1 << bit a *)
Definition mask_of (bit : Z -> Z) (l : list Z) : Z :=
  fold_right (fun a m => Z.lor (Z.shiftl 1 (bit a)) m) 0 l.

Definition bitf (ns : nspace) (a : Z) : Z := match ns_bit ns a with Some i => i | None => 0 end.

(* a is a member of the namespace, with a proper (non-negative) accession index; two members never
   share an index (C10) *)
Definition member (ns : nspace) (a : Z) : Prop := exists i, ns_bit ns a = Some i /\ 0 <= i.
Definition ns_inj (ns : nspace) : Prop :=
  forall a b i, ns_bit ns a = Some i -> ns_bit ns b = Some i -> a = b.


Fixpoint lmask (ns : nspace) (t : tree) : Z :=
  match t with
  | T _ x _ _ ks =>
    match ks with
    | [] => match x with Some a => Z.shiftl 1 (bitf ns a) | None => 0 end
    | _ => fold_right (fun k m => Z.lor (lmask ns k) m) 0 ks
    end
  end.


Definition members_ok (ns : nspace) (t : tree) : Prop := forall a, has a t = true -> member ns a.


(* the stored encoding is the one encode_bipartitions would compute now *)
Definition current (ns : nspace) (enc : dict Z) (t : tree) : Prop :=
  forall n, In n (preorder t) -> enc_get enc (t_id n) = lmask ns n.


(* the tree after the call: a refresh on a tree that is not flagged rooted collapses a basal bifurcation *)
Definition mrca_refreshes (enc : dict Z) (sid : Z) (updated : bool) : bool :=
  Z.eqb (enc_get enc sid) 0 || negb updated.

Definition tree_after (t : tree) (rooted : option bool) (refresh : bool) : tree :=
  if refresh && (negb (is_true rooted) && (nkids t =? 2)) then fst (collapse_basal t) else t.

