(* C14: specification-level functions on rose trees (structural recursion only).
   These are what the theorems in Props/C14.v compare the model of the library code with. *)
From Coq Require Import ZArith QArith List Bool.
From DV Require Import Model.PyPrims Model.Tree Model.C14Model.
Import ListNotations.
Open Scope Z_scope.

Section FirstSome.
  Context {A B : Type} (f : A -> option B).
  Fixpoint first_some (l : list A) : option B :=
    match l with
    | [] => None
    | x :: r => match f x with Some y => Some y | None => first_some r end
    end.
End FirstSome.

(* some leaf of t carries taxon a *)
Fixpoint has (a : Z) (t : tree) : bool :=
  match t with
  | T _ x _ _ [] => oz_eqb x (Some a)
  | T _ _ _ _ ks => existsb (has a) ks
  end.

(* sum of the edge lengths (None = 0) and number of edges on the way from the root of t down to the
   leaf carrying a; the edge above t itself is not counted *)
Fixpoint down (a : Z) (t : tree) {struct t} : option (Z * Z) :=
  match t with
  | T _ x _ _ [] => if oz_eqb x (Some a) then Some (0, 0) else None
  | T _ _ _ _ ks =>
    first_some (fun k => match down a k with
                         | Some ls => Some (fst ls + len0 k, snd ls + 1)
                         | None => None
                         end) ks
  end.

(* the deepest node of t below which both a and b are found: where the path from a to b turns *)
Fixpoint lca (a b : Z) (t : tree) : option tree :=
  if has a t && has b t then
    match t with
    | T _ _ _ _ ks => match first_some (lca a b) ks with Some r => Some r | None => Some t end
    end
  else None.

(* sum of edge lengths / number of edges on the path between the leaves carrying a and b *)
Definition dist (t : tree) (a b : Z) : option Z :=
  match lca a b t with
  | Some r => match down a r, down b r with
              | Some la, Some lb => Some (fst la + fst lb)
              | _, _ => None
              end
  | None => None
  end.

Definition steps (t : tree) (a b : Z) : option Z :=
  match lca a b t with
  | Some r => match down a r, down b r with
              | Some la, Some lb => Some (snd la + snd lb)
              | _, _ => None
              end
  | None => None
  end.

(* total of the edge lengths of t, including the edge above its root *)
Fixpoint total_length (t : tree) : Z :=
  match t with T _ _ _ e ks => len0 t + fold_right (fun k acc => total_length k + acc) 0 ks end.

(* the taxa on the leaves of t, left to right (leaves without a taxon left out) *)
Definition taxa_of (t : tree) : list Z :=
  flat_map (fun o => match o with Some a => [a] | None => [] end) (leaf_taxa t).

(* all pairs (x, y) with x before y in l *)
Fixpoint ordered_pairs (l : list Z) : list (Z * Z) :=
  match l with
  | [] => []
  | x :: r => map (fun y => (x, y)) r ++ ordered_pairs r
  end.

(* equality of pairs of taxa is decidable (used with count_occ) *)
Definition zz_dec (p q : Z * Z) : {p = q} + {p <> q}.
Proof. decide equality; apply Z.eq_dec. Qed.

(* every leaf carries a taxon, and no taxon sits on two leaves *)
Definition good_leaves (t : tree) : Prop :=
  NoDup (leaf_taxa t) /\ ~ In None (leaf_taxa t).

(* ---- Tree.mrca ---- *)
(* every taxon of s is found on a leaf of t *)
Definition covers (s : list Z) (t : tree) : bool := forallb (fun a => has a t) s.

(* the deepest node of t whose leaves include all of s (None if t itself does not) *)
Fixpoint deepest (s : list Z) (t : tree) : option tree :=
  if covers s t then
    match t with
    | T _ _ _ _ ks => match first_some (deepest s) ks with Some r => Some r | None => Some t end
    end
  else None.

(* ---- leafset bitmasks ---- *)
(* OR of the bits 1 << bit a *)
Definition mask_of (bit : Z -> Z) (l : list Z) : Z :=
  fold_right (fun a m => Z.lor (Z.shiftl 1 (bit a)) m) 0 l.

Definition bitf (ns : nspace) (a : Z) : Z := match ns_bit ns a with Some i => i | None => 0 end.

(* a is a member of the namespace, with a proper (non-negative) accession index; two members never
   share an index (C10) *)
Definition member (ns : nspace) (a : Z) : Prop := exists i, ns_bit ns a = Some i /\ 0 <= i.
Definition ns_inj (ns : nspace) : Prop :=
  forall a b i, ns_bit ns a = Some i -> ns_bit ns b = Some i -> a = b.


Fixpoint lmask (ns : nspace) (t : tree) : Z :=
  match t with
  | T _ x _ _ ks =>
    match ks with
    | [] => match x with Some a => Z.shiftl 1 (bitf ns a) | None => 0 end
    | _ => fold_right (fun k m => Z.lor (lmask ns k) m) 0 ks
    end
  end.


Definition members_ok (ns : nspace) (t : tree) : Prop := forall a, has a t = true -> member ns a.


(* the stored encoding is the one encode_bipartitions would compute now *)
Definition current (ns : nspace) (enc : dict Z) (t : tree) : Prop :=
  forall n, In n (preorder t) -> enc_get enc (t_id n) = lmask ns n.


(* the tree after the call: a refresh on a tree that is not flagged rooted collapses a basal bifurcation *)
Definition mrca_refreshes (enc : dict Z) (sid : Z) (updated : bool) : bool :=
  Z.eqb (enc_get enc sid) 0 || negb updated.

Definition tree_after (t : tree) (rooted : option bool) (refresh : bool) : tree :=
  if refresh && (negb (is_true rooted) && (nkids t =? 2)) then fst (collapse_basal t) else t.


(* ---- summaries ---- *)
(* the entry for (a, b) used by the summaries: path length in real units, or the step count *)
Definition dval (t : tree) (weighted : bool) (a b : Z) : Q :=
  if weighted then uq (match dist t a b with Some d => d | None => 0 end)
  else inject_Z (match steps t a b with Some s => s | None => 0 end).

(* normalisation: total tree length (all edges, the root's included) / number of nodes *)
Definition nfac (t : tree) (weighted normalize : bool) : Q :=
  if normalize then (if weighted then uq (total_length t) else inject_Z (Z.of_nat (size t))) else 1%Q.

(* the taxa a row of the nearest-taxon statistic is compared with *)
Definition others_of (filt : option (list Z)) (taxa : list Z) (a : Z) : list Z :=
  filter (fun b => negb (Z.eqb a b) && passes filt b) taxa.

(* minimum of a non-empty list *)
Definition qmin_list (l : list Q) : Q := match l with [] => 0%Q | d0 :: r => min_from d0 r end.

(* ---- UPGMA / NJ: what a pool of nodes represents ---- *)
(* the stored distance (0 when there is no entry) *)
Definition qdef (d : dict Q) (k : Z) : Q := match dget k d with Some v => v | None => 0%Q end.


Definition uids (pool : list unode) : list Z := map u_id pool.

(* well-formed pool: distinct nodes, every node knows its distance to every other node, clusters
   are non-empty *)
Definition uwf (pool : list unode) : Prop :=
  NoDup (uids pool) /\
  (forall u v, In u pool -> In v pool -> u_id u <> u_id v -> dmem (u_id v) (u_d u) = true) /\
  (forall u, In u pool -> 0 < u_size u).


Definition jids (pool : list jnode) : list Z := map j_id pool.
Definition jd (u v : jnode) : Q := qdef (j_d u) (j_id v).
Definition jothers (pool : list jnode) (u : jnode) : list jnode :=
  filter (fun v => negb (Z.eqb (j_id v) (j_id u))) pool.

(* well-formed pool: distinct nodes; every node stores its distance to every other node; the stored
   distances are symmetric; _nj_xsub is the sum of the node's distances to all other nodes *)
Definition jwf (pool : list jnode) : Prop :=
  NoDup (jids pool) /\
  (forall u v, In u pool -> In v pool -> j_id u <> j_id v -> dmem (j_id v) (j_d u) = true) /\
  (forall u v, In u pool -> In v pool -> j_id u <> j_id v -> (jd u v == jd v u)%Q) /\
  (forall u, In u pool -> (j_xsub u == qsum (map (jd u) (jothers pool u)))%Q).

Definition qvalue (n : Z) (a b : jnode) : Q := (inject_Z (n - 2) * jd a b - j_xsub a - j_xsub b)%Q.


(* (j0, j1) is a cherry of an additive metric: both hang on a common point v with pendant lengths
   a0, a1, and mv k is the distance from v to every other node k *)
Definition is_cherry (others : list jnode) (j0 j1 : jnode) (a0 a1 : Q) (mv : jnode -> Q) : Prop :=
  (jd j0 j1 == a0 + a1)%Q /\
  forall k, In k others -> (jd j0 k == a0 + mv k)%Q /\ (jd j1 k == a1 + mv k)%Q.


(* ---- the matrix handed to nj_tree / upgma_tree ---- *)
Definition mval (M : tbl Q) (a b : Z) : Q := match tget2 a b M with Some v => v | None => 0%Q end.

(* every ordered pair of distinct taxa of `order` has an entry, and the entries are symmetric *)
Definition mcomplete (M : tbl Q) (order : list Z) : Prop :=
  forall a b, In a order -> In b order -> a <> b -> tget2 a b M <> None.
Definition msymmetric (M : tbl Q) (order : list Z) : Prop :=
  forall a b, In a order -> In b order -> a <> b -> (mval M a b == mval M b a)%Q.

(* ---- path distances in the trees built by UPGMA / NJ (lengths in Q) ---- *)
Fixpoint qhas (a : Z) (t : qtree) : bool :=
  match t with
  | QT _ x _ ks => match ks with [] => oz_eqb x (Some a) | _ => existsb (qhas a) ks end
  end.

Definition qlen0 (t : qtree) : Q :=
  match t with QT _ _ l _ => match l with Some q => q | None => 0%Q end end.

(* sum of the edge lengths from the root of t down to the leaf carrying a (t's own edge not counted) *)
Fixpoint qdown (a : Z) (t : qtree) : option Q :=
  match t with
  | QT _ x _ ks =>
    match ks with
    | [] => if oz_eqb x (Some a) then Some 0%Q else None
    | _ => first_some (fun k => match qdown a k with Some d => Some (d + qlen0 k)%Q | None => None end) ks
    end
  end.

Fixpoint qlca (a b : Z) (t : qtree) : option qtree :=
  if qhas a t && qhas b t then
    match t with
    | QT _ _ _ ks => match first_some (qlca a b) ks with Some r => Some r | None => Some t end
    end
  else None.

(* sum of the edge lengths on the path between the leaves carrying a and b *)
Definition qdist (t : qtree) (a b : Z) : option Q :=
  match qlca a b t with
  | Some r => match qdown a r, qdown b r with Some x, Some y => Some (x + y)%Q | _, _ => None end
  | None => None
  end.

(* stored distance between two UPGMA pool nodes *)
Definition ud (u v : unode) : Q := qdef (u_d u) (u_id v).

(* the three-point condition: M is an ultrametric on the taxa of `order`
   (d(x,z) <= max (d(x,y), d(y,z)) for distinct x, y, z) *)
Definition ultrametric3 (M : tbl Q) (order : list Z) : Prop :=
  forall x y z, In x order -> In y order -> In z order -> x <> y -> y <> z -> x <> z ->
    (mval M x z <= mval M x y)%Q \/ (mval M x z <= mval M y z)%Q.


(* the Q-criterion, as a hypothesis about a class P of pools (for P = "the stored distances are the
   path distances of a tree with positive internal edge lengths" this is the lemma of Saitou-Nei /
   Studier-Keppler together with the fact that joining a cherry leaves such a matrix) *)
Definition qcrit_cherry (P : list jnode -> Prop) : Prop :=
  forall pool j0 j1, P pool -> jwf pool -> (3 <= length pool)%nat ->
    In (j0, j1) (pairs_of pool) ->
    (forall a b, In (a, b) (pairs_of pool) ->
                 (qvalue (Z.of_nat (length pool)) j0 j1 <= qvalue (Z.of_nat (length pool)) a b)%Q) ->
    exists a0 a1 mv, is_cherry (remove_id j_id (j_id j1) (remove_id j_id (j_id j0) pool)) j0 j1 a0 a1 mv.

Definition qcrit_closed (P : list jnode -> Prop) : Prop :=
  forall pool next pool', P pool -> jwf pool -> (3 <= length pool)%nat -> ~ In next (jids pool) ->
    nj_step pool (Z.of_nat (length pool)) next = Ok pool' -> P pool'.


(* ---- ultrametric rose trees ---- *)
(* every leaf taxon is at the same distance h (units) below the root of t *)
Definition equidistant (h : Z) (t : tree) : Prop :=
  forall a, has a t = true -> exists s, down a t = Some (h, s).

(* no negative edge length anywhere in t *)
Definition nonneg_lengths (t : tree) : Prop := forall n, In n (preorder t) -> 0 <= len0 n.
