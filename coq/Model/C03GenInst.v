(* C03 (generated-code tie): the pointer-level model Model/Heap.v as an instance of the object-graph
   interface `mutgraph` (Model/MutPrims.v) over which Gen/Mutators.v is generated.

   A Node object is its id; its Edge object is identified with the node (Heap.v's convention):
   node._edge = the same id, edge._head_node = that id, edge.length = the cell's c_elen.
   Node(taxon, label, edge_length) allocates the id `next h`.  The Tree methods that the translator
   does not compile (reseed_at, suppress_unifurcations, encode_bipartitions) are HeapOps.v's. *)
From Coq Require Import ZArith List Bool.
From DV Require Import Model.PyPrims Model.Tree Model.Heap Model.HeapOps Model.C15Prims Model.MutPrims.
Import ListNotations.
Open Scope Z_scope.

Definition lift_unit (r : hres) : mres heap unit :=
  match r with HOk h' => MOk tt h' | HErr e h' => MErr e h' | HFuel => MFuel end.

Definition HG : mutgraph :=
  {| mst := heap; mnode := Z; medge := Z;
     mg_eqb := Z.eqb;
     rd_parent := parent; wr_parent := set_parent;
     rd_kids := kids; wr_kids := set_kids;
     rd_edge := fun _ n => n;
     rd_taxon := taxon;
     rd_head := fun _ e => e;
     rd_length := elen; wr_length := set_elen;
     rd_seed := seed; wr_seed := set_seed;
     rd_rooted := rooted; wr_rooted := set_rooted;
     new_node := fun x l e h => (next h, alloc x l e h);
     x_reseed_at := fun ns ub cb su h => lift_unit (reseed_at ns ub cb su h);
     x_suppress_unifurcations := fun h => lift_unit (suppress_unifurcations h);
     x_encode_bipartitions := fun su cb h => lift_unit (encode_structural su cb h);
     x_postorder_nodes := fun h => match abs_at h (seed h) with Some t => Some (post_ids t) | None => None end;
     x_leaf_nodes := fun h => match abs_at h (seed h) with Some t => Some (leaf_ids t) | None => None end;
     x_preorder_nodes := fun h => match abs_at h (seed h) with Some t => Some (pre_ids t) | None => None end;
     x_leaf_nodes_of := fun h c => match abs_at h c with Some t => Some (leaf_ids t) | None => None end;
     x_collapse_basal_bifurcation := fun su h => lift_unit (collapse_basal_bifurcation su h) |}.

(* forget the returned Python value: what Heap.v's functions report *)
Definition to_hres {A : Type} (r : mres heap A) : hres :=
  match r with
  | MOk _ h => HOk h
  | MErr e h => HErr e h
  | MFuel => HFuel
  end.

Definition mres_val {A : Type} (r : mres heap A) : option A :=
  match r with MOk a _ => Some a | _ => None end.

(* observational equality of heaps: every field of every node, seed, rooting flag, next id *)
Definition heq (a b : heap) : Prop :=
  seed a = seed b /\ rooted a = rooted b /\ next a = next b /\ forall j, get a j = get b j.

Definition hres_heq (a b : hres) : Prop :=
  match a, b with
  | HOk x, HOk y => heq x y
  | HErr e x, HErr f y => e = f /\ heq x y
  | HFuel, HFuel => True
  | _, _ => False
  end.

(* a Heap.v result as a result of a generated method returning the Python value c *)
Definition lift {A : Type} (c : A) (r : hres) : mres heap A :=
  match r with HOk h' => MOk c h' | HErr e h' => MErr e h' | HFuel => MFuel end.

(* same outcome class (same exception), same returned node, observationally equal heaps *)
Definition mres_sim (c : Z) (m : mres heap Z) (r : hres) : Prop :=
  match m, r with
  | MOk v a, HOk b => v = c /\ heq a b
  | MErr e a, HErr f b => e = f /\ heq a b
  | MFuel, HFuel => True
  | _, _ => False
  end.

(* the condition under which one loop iteration of the source's suppress_unifurcations coincides
   with HeapOps.su_step: the visited node is not its own child at that moment *)
Fixpoint su_steps_ok (l : list Z) (h : heap) : Prop :=
  match l with
  | [] => True
  | nd :: r => memz nd (kids h nd) = false /\
               match su_step nd h with HOk h' => su_steps_ok r h' | _ => True end
  end.

(* one step of the first phase of prune_taxa, as HeapOps.prune_taxa folds it over the post-order *)
(* ne = what a node without parent produces there (AttributeError from None.remove_child, or the
   SeedNodeDeletionException of a guarded source: the theorems hold for whichever HeapOps.v uses) *)
Definition prune_taxa_step_e (ne : err) (taxa : list Z) (on_leaves on_internal : bool) (nd : Z) (h : heap) : hres :=
  if ((on_internal && is_internal h nd) || (on_leaves && negb (is_internal h nd)))
     && (match taxon h nd with Some x => memz x taxa | None => false end)
  then remove_from_parent ne nd h else HOk h.

(* the condition under which each iteration of a source loop that collapses / splices at the visited
   node coincides with HeapOps.v's step function f: the visited node is not its own child then *)
Fixpoint steps_ok (f : Z -> heap -> hres) (l : list Z) (h : heap) : Prop :=
  match l with
  | [] => True
  | nd :: r => memz nd (kids h nd) = false /\
               match f nd h with HOk h' => steps_ok f r h' | _ => True end
  end.

(* one step of collapse_unweighted_edges, as HeapOps.v folds it *)
Definition cue_step (thr : Z) (nd : Z) (h : heap) : hres :=
  if (match elen h nd with None => true | Some l => l <=? thr end) && is_internal h nd
  then edge_collapse nd false h else HOk h.

(* ---- resolve_polytomies ---- *)
(* one iteration of the deterministic branch (the body of HeapOps.resolve_det) *)
Definition det_step (node : Z) (h : heap) : hres :=
  match kids h node with
  | c1 :: c2 :: _ =>
    let nn1 := next h in
    let h1 := set_elen nn1 (Some 0) (alloc None None None h) in
    hdo h2 <- remove_child_plain node c1 h1 ;;
    hdo h3 <- remove_child_plain node c2 h2 ;;
    hdo h4 <- add_child nn1 c1 h3 ;;
    hdo h5 <- add_child nn1 c2 h4 ;;
    add_child node nn1 h5
  | _ => HErr IndexErr h
  end.

(* the source reads node._child_nodes[0] AFTER `nn1 = Node()`, HeapOps.resolve_det before: the same
   unless `node` is the id the constructor hands out next (never the case for a node of the tree) *)
Fixpoint det_ok (f : nat) (limit node : Z) (h : heap) : Prop :=
  match f with
  | O => True
  | S n =>
    if limit <? len (kids h node)
    then node <> next h /\ match det_step node h with HOk h6 => det_ok n limit node h6 | _ => True end
    else True
  end.

(* one attachment of the rng branch (the body of HeapOps.resolve_attach) *)
Definition attach_step (node next_child next_sib : Z) (h : heap) : hres :=
  let na := next h in
  let h1 := alloc None None None h in
  hdo h2 <-
    (if Z.eqb next_sib node then
       let cc := kids h1 node in
       hdo a1 <- add_child node na h1 ;;
       hdo a2 <- hfold (fun c h => hdo b <- remove_child_plain node c h ;; add_child na c b) cc a1 ;;
       add_child node next_child a2
     else
       match parent h1 next_sib with
       | None => HErr AttrErr h1
       | Some p =>
         hdo a1 <- add_child p na h1 ;;
         hdo a2 <- remove_child_plain p next_sib a1 ;;
         hdo a3 <- add_child na next_sib a2 ;;
         add_child na next_child a3
       end) ;;
  HOk (set_elen na (Some 0) h2).

(* the scripted rng of the generated code is one list of draws: per polytomy the positions
   rng.sample returned, then one position per rng.choice *)
Definition flat_script (sc : list (list nat * list nat)) : list (list nat) :=
  flat_map (fun p => fst p :: map (fun c => [c]) (snd p)) sc.

(* fuel of the generated `while` loops suffices for every polytomy; the script holds exactly one
   choice per sampled child *)
Fixpoint rp_ok (fuel : nat) (limit : Z) (nodes : list Z) (script : option (list (list nat * list nat)))
         (h : heap) : Prop :=
  match nodes with
  | [] => True
  | node :: r =>
    match script with
    | None =>
      (S (length (kids h node)) <= fuel)%nat /\ det_ok (S (length (kids h node))) limit node h /\
      match resolve_det (S (length (kids h node))) limit node h with
      | HOk h1 => rp_ok fuel limit r None h1
      | _ => True
      end
    | Some [] => True
    | Some ((sm, ch) :: sc) =>
      (length sm < fuel)%nat /\ length ch = length sm /\
      match resolve_rng limit node sm ch h with
      | HOk h1 => rp_ok fuel limit r (Some sc) h1
      | _ => True
      end
    end
  end.
