(* C02 read-back routes: a correspondence case is a HISTORY of readers (lazy tree iterators advanced in any
   interleaving, eager reads between their steps, every documented entry point) over one or two written
   documents.  The model: every reader of the history delivers what the format's reader model delivers on ITS
   OWN document, whatever the other readers did meanwhile (readers are independent objects: the object-level
   model and its separation / refinement theorems are in Model/C02MapObj.v, Proofs/C02MapObj.v), and every
   entry point of a format is the same reader:
     Newick : NewickReader._read (TreeList.get / TreeList.read / Tree.get(tree_offset=k) / DataSet.get),
              NewickTreeDataYielder (Tree.yield_from_files, TreeArray.read), the NEXUS yielder's Newick fall-back
              (schema "nexus/newick")  =  read_newick_route below: the same statement loop over a mapper created with the
              enable_lookup_by_taxon_number that entry point passes (read off the source: Gen/C02MapObjGen.v);
              Proofs/C02MapObjGen.v: all three = Newick.read_newick
     NEXUS  : the same entry points = C02Nexus.read_nexus
     NeXML  : the same entry points = C02Nexml.read_nexml
   One sub-case per DISTINCT (document, delivered result) pair observed on the implementation. *)
From Coq Require Import ZArith List Bool.
From DV Require Import Model.PyPrims Model.Tokenizer Model.Newick Model.C02Model Model.C02Nexus Model.C02NexusModel
  Model.C02Nexml Model.C02NexmlModel Model.C02MapObj Gen.C02MapObjGen.
Import ListNotations.

Inductive nroute : Type :=
| RtRead        (* NewickReader._read *)
| RtYield       (* NewickTreeDataYielder._yield_items_from_stream *)
| RtAltYield.   (* NexusTreeDataYielder._yield_items_from_stream on a document that does not start with #NEXUS *)

Definition route_by_number (r : nroute) : bool :=
  match r with
  | RtRead => gen_newick_read_by_number
  | RtYield => gen_newick_yield_by_number
  | RtAltYield => gen_nexus_yield_newick_by_number
  end.

Section Routes.
Variable L : Type.
Variable parse_len : str -> option L.
Variable lower : str -> str.

(* the statement loop of NewickReader._read / the yielders over a mapper with the given look-up-by-number switch *)
Definition read_newick_with (by_number : bool) (o : ropts) (ns : list str) (text : str)
  : res (list (ptree_result L) * list str) :=
  let toks := tokenize (nexus_cfg (ro_preserve_underscores o)) text in
  let m := new_mapper lower ns by_number (ro_case_sensitive_taxon_labels o) in
  let fuel := reader_fuel (fst toks) in
  do r <- tree_iter L parse_len lower o fuel fuel (init_pstate toks m) [] ;;
  Ok (fst r, m_ns (ps_map (snd r))).

Definition read_newick_route (r : nroute) := read_newick_with (route_by_number r).
End Routes.

Inductive rdoc : Type :=
| RNewick (c : case)
| RNexus (c : ncase)
| RNexml (c : xcase).

Definition rdoc_ok (d : rdoc) : bool :=
  match d with
  | RNewick c =>
    case_ok c
    && forallb (fun r => read_result_eqb
                           (read_newick_route str (parse_len_with (c_floats c)) (lower_with (c_lower c)) r (c_ropts c) (c_ns0 c) (c_text c))
                           (c_read c)) [RtRead; RtYield; RtAltYield]
  | RNexus c => ncase_ok c
  | RNexml c => xcase_ok c
  end.

Definition rcase := list rdoc.
Definition rcase_ok (l : rcase) : bool := forallb rdoc_ok l.
Definition rcase_show (l : rcase) : list bool := map rdoc_ok l.
