(* C18 - executable model of DendroPy's tree simulators over a finite DRAW SCRIPT.

   Transcribed from /repo/src/dendropy/model/birthdeath.py (birth_death_tree, fast_birth_death_tree,
   uniform_pure_birth_tree), model/coalescent.py (time_to_coalescence, coalesce_nodes,
   pure_kingman_tree, contained_coalescent_tree), calculate/probability.py (weighted_choice,
   weighted_index_choice), datamodel/treemodel/_tree.py (prune_subtree, suppress_unifurcations,
   leaf_nodes) and taxonmodel.py (require_taxon / _lookup_label).

   Randomness: the generator is a script of typed entries consumed left to right; every call the
   simulator makes is logged with its arguments (the log is compared with the calls the real
   library makes on a scripted random.Random).  Times and lengths are exact rationals (Q).
   Definitions only - the proofs are in Proofs/C18*.v. *)
From Coq Require Import QArith List Bool Arith.
From DV Require Model.PyPrims.
Import ListNotations.
Open Scope nat_scope.

Notation err := PyPrims.err.

(* ------------------------------------------------------------------------------------------ *)
(* The draw script                                                                              *)
(* ------------------------------------------------------------------------------------------ *)

Inductive draw : Type :=
| DExp (q : Q)            (* value RETURNED by rng.expovariate(rate) *)
| DUnit (q : Q)           (* value returned by rng.random() *)
| DGauss (q : Q)          (* standard normal deviate z; rng.gauss(mu, sigma) returns mu + z*sigma *)
| DPerm (p : list nat)    (* rng.shuffle(x): x becomes [x[p[0]], x[p[1]], ...] *)
| DIndex (i : nat)        (* rng.choice(seq): position; rng.randint(a, b): the integer *)
| DSample (s : list nat). (* rng.sample(population, k): the k positions, in order *)

Inductive call : Type :=
| CExp (rate : Q) | CUnit | CGauss (mu sigma : Q) | CShuffle (n : nat) | CChoice (n : nat)
| CRandint (lo hi : nat) | CSample (n k : nat).

(* generator state: the script still to be consumed, and the calls made so far (latest first) *)
Definition rs : Type := (list draw * list call)%type.

Inductive sres (A : Type) : Type :=
| Done (a : A) (r : rs)
| Exhausted                 (* the script ran out: ScriptExhausted on the Python side *)
| BadScript                 (* entry of the wrong type / invalid index / not a permutation *)
| PyErr (e : err)           (* the simulator raises *)
| NoFuel.                   (* the model's loop bound was too small (proved impossible) *)
Arguments Done {A} _ _.
Arguments Exhausted {A}.
Arguments BadScript {A}.
Arguments PyErr {A} _.
Arguments NoFuel {A}.

Definition M (A : Type) : Type := rs -> sres A.
Definition ret {A} (a : A) : M A := fun r => Done a r.
Definition bnd {A B} (m : M A) (f : A -> M B) : M B :=
  fun r => match m r with
           | Done a r' => f a r'
           | Exhausted => Exhausted
           | BadScript => BadScript
           | PyErr e => PyErr e
           | NoFuel => NoFuel
           end.
Definition raise {A} (e : err) : M A := fun _ => PyErr e.
Notation "'let!' x ':=' m 'in' k" := (bnd m (fun x => k)) (at level 200, x pattern, m at level 100, k at level 200).

Definition Qltb (a b : Q) : bool := negb (Qle_bool b a).

Fixpoint memb (x : nat) (l : list nat) : bool :=
  match l with [] => false | y :: r => (x =? y) || memb x r end.

Definition is_perm (n : nat) (p : list nat) : bool :=
  (length p =? n) && forallb (fun i => memb i p) (seq 0 n).

Fixpoint distinctb (l : list nat) : bool :=
  match l with [] => true | x :: r => negb (memb x r) && distinctb r end.

Definition d_exp (rate : Q) : M Q := fun r =>
  match fst r with
  | [] => Exhausted
  | DExp q :: t => Done q (t, CExp rate :: snd r)
  | _ => BadScript
  end.

Definition d_unit : M Q := fun r =>
  match fst r with
  | [] => Exhausted
  | DUnit q :: t => Done q (t, CUnit :: snd r)
  | _ => BadScript
  end.

Definition d_gauss (mu sigma : Q) : M Q := fun r =>
  match fst r with
  | [] => Exhausted
  | DGauss z :: t => Done (mu + z * sigma)%Q (t, CGauss mu sigma :: snd r)
  | _ => BadScript
  end.

Definition d_perm (n : nat) : M (list nat) := fun r =>
  match fst r with
  | [] => Exhausted
  | DPerm p :: t => if is_perm n p then Done p (t, CShuffle n :: snd r) else BadScript
  | _ => BadScript
  end.

(* rng.choice(seq) with len(seq) = n : IndexError on an empty sequence (no draw is made) *)
Definition d_choice (n : nat) : M nat := fun r =>
  if n =? 0 then PyErr PyPrims.IndexErr else
  match fst r with
  | [] => Exhausted
  | DIndex i :: t => if i <? n then Done i (t, CChoice n :: snd r) else BadScript
  | _ => BadScript
  end.

(* rng.randint(lo, hi) : ValueError on an empty range *)
Definition d_randint (lo hi : nat) : M nat := fun r =>
  if hi <? lo then PyErr PyPrims.ValueErr else
  match fst r with
  | [] => Exhausted
  | DIndex i :: t => if (lo <=? i) && (i <=? hi) then Done i (t, CRandint lo hi :: snd r) else BadScript
  | _ => BadScript
  end.

(* rng.sample(population, 2) with len(population) = n *)
Definition d_sample2 (n : nat) : M (nat * nat) := fun r =>
  if n <? 2 then PyErr PyPrims.ValueErr else
  match fst r with
  | [] => Exhausted
  | DSample [i; j] :: t =>
      if (i <? n) && (j <? n) && negb (i =? j) then Done (i, j) (t, CSample n 2 :: snd r) else BadScript
  | _ => BadScript
  end.

Definition apply_perm {A} (d : A) (p : list nat) (l : list A) : list A := map (fun i => nth i l d) p.

Fixpoint remove_nth {A} (i : nat) (l : list A) : list A :=
  match l, i with
  | [], _ => []
  | _ :: r, O => r
  | x :: r, S k => x :: remove_nth k r
  end.

Fixpoint remove_first (x : nat) (l : list nat) : list nat :=
  match l with [] => [] | y :: r => if x =? y then r else y :: remove_first x r end.

Fixpoint qsum (l : list Q) : Q := match l with [] => 0%Q | x :: r => (x + qsum r)%Q end.

(* ------------------------------------------------------------------------------------------ *)
(* Trees of the birth-death family: nodes carry an identity (creation order)                    *)
(* ------------------------------------------------------------------------------------------ *)

Inductive btree : Type := B (id : nat) (len : Q) (tax : option nat) (kids : list btree).

Definition bleaf (i : nat) (l : Q) : btree := B i l None [].
Definition b_id (t : btree) : nat := match t with B i _ _ _ => i end.
Definition b_len (t : btree) : Q := match t with B _ l _ _ => l end.
Definition b_kids (t : btree) : list btree := match t with B _ _ _ ks => ks end.

Fixpoint ids (t : btree) : list nat :=
  match t with B i _ _ ks => i :: flat_map ids ks end.

(* tree.leaf_nodes(): leaves in pre-order *)
Fixpoint leaf_ids (t : btree) : list nat :=
  match t with B i _ _ ks => match ks with [] => [i] | _ => flat_map leaf_ids ks end end.

Fixpoint inner_ids (t : btree) : list nat :=
  match t with B i _ _ ks => match ks with [] => [] | _ => i :: flat_map inner_ids ks end end.

(* for nd in S: nd.edge.length += w *)
Fixpoint add_len_set (S : list nat) (w : Q) (t : btree) : btree :=
  match t with B i l x ks => B i (if memb i S then (l + w)%Q else l) x (map (add_len_set S w) ks) end.

(* node x gets the child list `new` (new_child twice / clear_child_nodes) *)
Fixpoint set_kids (x : nat) (new : list btree) (t : btree) : btree :=
  match t with B i l tx ks => if i =? x then B i l tx new else B i l tx (map (set_kids x new) ks) end.

Fixpoint set_len (x : nat) (f : Q -> Q) (t : btree) : btree :=
  match t with B i l tx ks => if i =? x then B i (f l) tx ks else B i l tx (map (set_len x f) ks) end.

Fixpoint len_of (x : nat) (t : btree) : option Q :=
  match t with B i l _ ks =>
    if i =? x then Some l else
    fold_right (fun k acc => match len_of x k with Some q => Some q | None => acc end) None ks end.

Definition omap {A B} (f : A -> option B) (l : list A) : list B :=
  flat_map (fun a => match f a with Some b => [b] | None => [] end) l.

(* The extinct-tip removal of birth_death_tree:
       while nd.parent_node is not None and len(nd.parent_node._child_nodes) == 1: nd = nd.parent_node
       tree.prune_subtree(nd, suppress_unifurcations=False)
   evaluated bottom-up: the node with identity x goes; a node whose ONLY child goes, goes with it
   (that is exactly the climbing condition); None = the whole of t is to be removed. *)
Fixpoint prune1 (x : nat) (t : btree) : option btree :=
  match t with B i l tx ks =>
    if i =? x then None else
    let ks' := omap (prune1 x) ks in
    if (length ks =? 1) && (length ks' =? 0) then None else Some (B i l tx ks')
  end.

(* Tree.suppress_unifurcations(): post-order; an out-degree-one node is replaced by its child,
   children[0].edge.length += nd.edge.length *)
Fixpoint suppress (t : btree) : btree :=
  match t with B i l tx ks =>
    match map suppress ks with
    | [B j l' tx' ks'] => B j (l' + l)%Q tx' ks'
    | ks' => B i l tx ks'
    end
  end.

Fixpoint assoc {A} (x : nat) (m : list (nat * A)) : option A :=
  match m with [] => None | (y, a) :: r => if x =? y then Some a else assoc x r end.

(* nd.taxon = taxon for the (node, taxon) pairs of m *)
Fixpoint set_tax (m : list (nat * nat)) (t : btree) : btree :=
  match t with B i l tx ks =>
    B i l (match assoc i m with Some x => Some x | None => tx end) (map (set_tax m) ks) end.

(* root-to-tip path sums (the root's own edge included), per leaf in pre-order *)
Fixpoint depths_from (acc : Q) (t : btree) : list (nat * Q) :=
  match t with B i l _ ks =>
    match ks with [] => [(i, (acc + l)%Q)] | _ => flat_map (depths_from (acc + l)%Q) ks end end.
Definition depths (t : btree) : list (nat * Q) := depths_from 0%Q t.

Fixpoint leaf_taxa (t : btree) : list (option nat) :=
  match t with B _ _ tx ks => match ks with [] => [tx] | _ => flat_map leaf_taxa ks end end.

(* all nodes (as subtrees), pre-order *)
Fixpoint subtrees (t : btree) : list btree :=
  match t with B _ _ _ ks => t :: flat_map subtrees ks end.

(* every node has 0 or 2 children *)
Fixpoint binaryb (t : btree) : bool :=
  match t with B _ _ _ ks => ((length ks =? 0) || (length ks =? 2)) && forallb binaryb ks end.

(* ------------------------------------------------------------------------------------------ *)
(* Taxon labels and namespace lookups                                                           *)
(* ------------------------------------------------------------------------------------------ *)

(* LT true k = "T<k>", LT false k = "t<k>" (its only other case variant), LO j = any other label
   (never equal to a T-label in either case mode) *)
Inductive lab : Type := LT (upper : bool) (k : nat) | LO (j : nat).

Definition lab_eqb (a b : lab) : bool :=
  match a, b with
  | LT u k, LT v m => Bool.eqb u v && (k =? m)
  | LO i, LO j => i =? j
  | _, _ => false
  end.

Definition lab_lower (a : lab) : lab := match a with LT _ k => LT false k | LO j => LO j end.

Fixpoint lab_mem (a : lab) (l : list lab) : bool :=
  match l with [] => false | b :: r => lab_eqb a b || lab_mem a r end.

(* TaxonNamespace._lookup_label(label, first_match_only=True): index of the first match *)
Fixpoint lookup_label (cs : bool) (a : lab) (ns : list lab) (i : nat) : option nat :=
  match ns with
  | [] => None
  | b :: r => if (if cs then lab_eqb a b else lab_eqb (lab_lower a) (lab_lower b)) then Some i
              else lookup_label cs a r (S i)
  end.

(* the fresh-label site.  Current code: taxon_namespace.require_taxon(label=label) (fresh_new =
   false): an existing taxon whose label matches under the namespace's case rule is RETURNED.
   fresh_new = true is the repaired form (taxon_namespace.new_taxon(label)): always a new taxon. *)
Definition require_taxon (fresh_new cs : bool) (a : lab) (ns : list lab) : nat * list lab :=
  match (if fresh_new then None else lookup_label cs a ns 0) with
  | Some i => (i, ns)
  | None => (length ns, ns ++ [a])
  end.

(* while True: tlabel_counter += 1; label = "T%d"; if label not in taxon_pool_labels: break *)
Fixpoint find_fresh (fuel : nat) (labels : list lab) (c : nat) : option nat :=
  match fuel with
  | O => None
  | S f => let c' := S c in
           if lab_mem (LT true c') labels then find_fresh f labels c' else Some c'
  end.

(* for nd in leaf_nodes: taxon = taxon_pool.pop() if taxon_pool else <fresh>; nd.taxon = taxon
   rpool is the pool reversed (pop() takes the last element) *)
Fixpoint assign_taxa (fresh_new cs : bool) (leaves : list nat) (rpool : list nat) (labels : list lab)
         (ns : list lab) (counter : nat) : option (list (nat * nat) * list lab) :=
  match leaves with
  | [] => Some ([], ns)
  | nd :: rest =>
      match rpool with
      | tx :: rpool' =>
          match assign_taxa fresh_new cs rest rpool' labels ns counter with
          | Some (m, ns') => Some ((nd, tx) :: m, ns')
          | None => None
          end
      | [] =>
          match find_fresh (S (length labels)) labels counter with
          | None => None
          | Some k =>
              let '(tx, ns1) := require_taxon fresh_new cs (LT true k) ns in
              match assign_taxa fresh_new cs rest [] (LT true k :: labels) ns1 k with
              | Some (m, ns') => Some ((nd, tx) :: m, ns')
              | None => None
              end
          end
      end
  end.

(* the taxon-assignment block shared by birth_death_tree and fast_birth_death_tree *)
Definition taxa_block (fresh_new cs : bool) (ns : list lab) (t : btree) : M (btree * list lab) :=
  let! p1 := d_perm (length ns) in
  let pool := apply_perm 0 p1 (seq 0 (length ns)) in
  let leaves := leaf_ids t in
  let! p2 := d_perm (length leaves) in
  let leaves' := apply_perm 0 p2 leaves in
  match assign_taxa fresh_new cs leaves' (rev pool) ns ns 0 with
  | None => fun _ => NoFuel
  | Some (m, ns') => ret (set_tax m t, ns')
  end.

(* ------------------------------------------------------------------------------------------ *)
(* probability.weighted_choice / weighted_index_choice                                          *)
(* ------------------------------------------------------------------------------------------ *)

(* sum(l) = ((0 + l[0]) + l[1]) + ... *)
Definition qsum_left (l : list Q) : Q := fold_left Qplus l 0%Q.

(* for i, w in enumerate(weights): rnd -= w; if rnd < 0: return i *)
Fixpoint widx (ws : list Q) (rnd : Q) (i : nat) : option nat :=
  match ws with
  | [] => None
  | w :: r => let rnd' := (rnd - w)%Q in if Qltb rnd' 0%Q then Some i else widx r rnd' (S i)
  end.

(* for i in range(len(weights) - 1, -1, -1): if weights[i] > 0: return i     (then: None) *)
Fixpoint find_down (ws : list Q) (l : list nat) : option nat :=
  match l with
  | [] => None
  | i :: r => if Qltb 0%Q (nth i ws 0%Q) then Some i else find_down ws r
  end.
Definition last_positive (ws : list Q) : option nat := find_down ws (rev (seq 0 (length ws))).

(* the first loop, and - when rounding lets it fall through - the last positively weighted index *)
Definition pick_index (ws : list Q) (rnd : Q) : option nat :=
  match widx ws rnd 0 with Some i => Some i | None => last_positive ws end.

(* rnd = rng.random() * sum(weights) *)
Definition weighted_index_choice (ws : list Q) : M (option nat) :=
  let! u := d_unit in ret (pick_index ws (u * qsum_left ws)%Q).

(* ------------------------------------------------------------------------------------------ *)
(* birth_death_tree (tip-count stopping rule, no GSA, extinct tips pruned, taxa assigned)       *)
(* ------------------------------------------------------------------------------------------ *)

Record bdp : Type := mkBdp { p_b : Q; p_d : Q; p_sb : Q; p_sd : Q; p_n : nat }.

Record bdst : Type := mkSt {
  s_tr : btree;                        (* the tree (seed node has identity 0) *)
  s_ext : list nat;                    (* extant_tips *)
  s_dead : list nat;                   (* extinct_tips *)
  s_brates : list (nat * Q);           (* nd.birth_rate (latest entry first) *)
  s_drates : list (nat * Q);           (* nd.death_rate *)
  s_next : nat;                        (* next fresh node identity *)
  s_time : Q                           (* total_time *)
}.

(* nd.birth_rate / nd.death_rate; a node without the attribute gets the function's argument
   (`if not hasattr(nd, 'birth_rate'): nd.birth_rate = birth_rate`) *)
Definition rate_b (P : bdp) (st : bdst) (x : nat) : Q :=
  match assoc x (s_brates st) with Some q => q | None => p_b P end.
Definition rate_d (P : bdp) (st : bdst) (x : nat) : Q :=
  match assoc x (s_drates st) with Some q => q | None => p_d P end.

Definition bd_init (P : bdp) : bdst :=
  mkSt (bleaf 0 0%Q) [0] [] [(0, p_b P)] [(0, p_d P)] 1 0%Q.

(* restart after total extinction: extant_tips = list(initial_extant_tip_set) (= [seed]);
   extinct_tips = []; seed.clear_child_nodes(); total_time = 0.  The seed's edge length is NOT reset. *)
Definition bd_restart (st : bdst) : bdst :=
  mkSt (set_kids 0 [] (s_tr st)) [0] [] (s_brates st) (s_drates st) (s_next st) 0%Q.

(* rng.expovariate(rate): ZeroDivisionError for rate 0 *)
Definition expovariate (rate : Q) : M Q :=
  if Qeq_bool rate 0%Q then raise PyPrims.OtherErr else d_exp rate.

(* one pass through the body of `while True:` after the termination test *)
Definition bd_body (P : bdp) (st : bdst) : M bdst :=
  let ext := s_ext st in
  let event_rates := flat_map (fun x => [rate_b P st x; rate_d P st x]) ext in
  let event_nodes := flat_map (fun x => [(x, true); (x, false)]) ext in
  let total := qsum_left event_rates in
  let! w := expovariate total in
  let tr1 := add_len_set ext w (s_tr st) in
  let time1 := (s_time st + w)%Q in
  let norm := map (fun r => (r / total)%Q) event_rates in
  let! oi := weighted_index_choice norm in
  match oi with
  | None => raise PyPrims.TypeErr           (* seq[None] *)
  | Some i =>
      match nth_error event_nodes i with
      | None => raise PyPrims.IndexErr
      | Some (nd, is_birth) =>
          let ext1 := remove_first nd ext in
          if is_birth then
            let c1 := s_next st in
            let c2 := S (s_next st) in
            let tr2 := set_kids nd [bleaf c1 0%Q; bleaf c2 0%Q] tr1 in
            let b := rate_b P st nd in
            let d := rate_d P st nd in
            let! g1 := d_gauss 0%Q (p_sb P) in
            let! g2 := d_gauss 0%Q (p_sd P) in
            let! g3 := d_gauss 0%Q (p_sb P) in
            let! g4 := d_gauss 0%Q (p_sd P) in
            ret (mkSt tr2 (ext1 ++ [c1; c2]) (s_dead st)
                      ((c2, (b + g3)%Q) :: (c1, (b + g1)%Q) :: s_brates st)
                      ((c2, (d + g4)%Q) :: (c1, (d + g2)%Q) :: s_drates st)
                      (S (S (s_next st))) time1)
          else
            match ext1 with
            | _ :: _ => ret (mkSt tr1 ext1 (s_dead st ++ [nd]) (s_brates st) (s_drates st) (s_next st) time1)
            | [] => ret (bd_restart (mkSt tr1 ext1 (s_dead st) (s_brates st) (s_drates st) (s_next st) time1))
            end
      end
  end.

Fixpoint bd_loop (fuel : nat) (P : bdp) (st : bdst) : M bdst :=
  fun r =>
    if p_n P <=? length (s_ext st) then Done st r else
    match fuel with
    | O => NoFuel
    | S f => bnd (bd_body P st) (bd_loop f P) r
    end.

(* for nd in list(extinct_tips): ... climb ... tree.prune_subtree(nd, suppress_unifurcations=False) *)
Fixpoint prune_all (xs : list nat) (processed : list nat) (t : btree) : M btree :=
  match xs with
  | [] => ret t
  | x :: r =>
      if memb x processed then prune_all r processed t else
      match prune1 x t with
      | None => raise PyPrims.TypeErr    (* prune_subtree(seed_node) *)
      | Some t' => prune_all r (x :: processed) t'
      end
  end.

Definition bd_finish (fresh_new cs : bool) (ns : list lab) (st : bdst) : M (btree * list lab) :=
  let! t1 := prune_all (s_dead st) [] (s_tr st) in
  taxa_block fresh_new cs ns (suppress t1).

Definition bd_run (fresh_new cs : bool) (P : bdp) (ns : list lab) : M (btree * list lab) :=
  fun r => bnd (bd_loop (S (length (fst r))) P (bd_init P)) (bd_finish fresh_new cs ns) r.

Definition bd_sim (fresh_new cs : bool) (P : bdp) (ns : list lab) (script : list draw) :=
  bd_run fresh_new cs P ns (script, []).

(* ------------------------------------------------------------------------------------------ *)
(* fast_birth_death_tree: edge.length of an open lineage holds its creation time                *)
(* ------------------------------------------------------------------------------------------ *)

Record fst_ : Type := mkFs {
  f_tr : btree; f_ext : list nat; f_dead : list nat; f_time : Q; f_next : nat }.

Definition fbd_init : fst_ := mkFs (bleaf 0 0%Q) [0] [] 0%Q 1.

Fixpoint set_nth {A} (i : nat) (a : A) (l : list A) : list A :=
  match l, i with
  | [], _ => []
  | _ :: r, O => a :: r
  | x :: r, S k => x :: set_nth k a r
  end.

(* for nd in extant_tips: nd.edge.length = total_time - nd.edge.length *)
Fixpoint close_set (S : list nat) (T : Q) (t : btree) : btree :=
  match t with B i l x ks => B i (if memb i S then (T - l)%Q else l) x (map (close_set S T) ks) end.

Definition fbd_body (P : bdp) (st : fst_) : M fst_ :=
  let ext := f_ext st in
  let n := length ext in
  let total := (inject_Z (Z.of_nat n) * (p_b P + p_d P))%Q in
  if Qeq_bool total 0%Q then raise PyPrims.OtherErr else
  let! w := d_exp total in
  let T := (f_time st + w)%Q in
  let! i := d_randint 0 (n - 1) in
  let! u := d_unit in
  let is_birth := Qltb u (p_b P / (p_b P + p_d P))%Q in
  match nth_error ext i with
  | None => raise PyPrims.IndexErr
  | Some nd =>
      if is_birth then
        let c1 := f_next st in
        let c2 := S (f_next st) in
        let tr1 := set_kids nd [bleaf c1 T; bleaf c2 T] (f_tr st) in
        let tr2 := set_len nd (fun l => (T - l)%Q) tr1 in
        ret (mkFs tr2 (set_nth i c1 ext ++ [c2]) (f_dead st) T (S (S (f_next st))))
      else
        match remove_nth i ext with
        | (_ :: _) as ext1 => ret (mkFs (f_tr st) ext1 (f_dead st ++ [nd]) T (f_next st))
        | [] => (* restart: children cleared, branch length restored to its initial value, time 0 *)
            ret (mkFs (set_len 0 (fun _ => 0%Q) (set_kids 0 [] (f_tr st))) [0] [] 0%Q (f_next st))
        end
  end.

Fixpoint fbd_loop (fuel : nat) (P : bdp) (st : fst_) : M fst_ :=
  fun r =>
    if p_n P <=? length (f_ext st)
    then Done (mkFs (close_set (f_ext st) (f_time st) (f_tr st)) (f_ext st) (f_dead st) (f_time st) (f_next st)) r
    else
    match fuel with
    | O => NoFuel
    | S f => bnd (fbd_body P st) (fbd_loop f P) r
    end.

Definition fbd_run (fresh_new cs : bool) (P : bdp) (ns : list lab) : M (btree * list lab) :=
  fun r => bnd (fbd_loop (S (length (fst r))) P fbd_init)
               (fun st => let! t1 := prune_all (f_dead st) [] (f_tr st) in
                          taxa_block fresh_new cs ns (suppress t1)) r.

Definition fbd_sim (fresh_new cs : bool) (P : bdp) (ns : list lab) (script : list draw) :=
  fbd_run fresh_new cs P ns (script, []).

(* ------------------------------------------------------------------------------------------ *)
(* uniform_pure_birth_tree(taxon_namespace, birth_rate, rng)                                     *)
(* ------------------------------------------------------------------------------------------ *)

Definition pb_rate (n : nat) (b : Q) : Q := (inject_Z (Z.of_nat n) / b)%Q.

(* while len(leaf_nodes) < len(taxon_namespace): ...   state = (tree, next fresh identity);
   rng.expovariate(len(leaf_nodes)/birth_rate): with birth_rate = 0 the quotient is 0 in Q and the
   call raises (Python raises ZeroDivisionError already at the division: same result) *)
Fixpoint pb_loop (fuel : nat) (N : nat) (b : Q) (t : btree) (next : nat) : M (btree * nat) :=
  fun r =>
    let leaves := leaf_ids t in
    if N <=? length leaves then Done (t, next) r else
    match fuel with
    | O => NoFuel
    | S f =>
        (let! w := expovariate (pb_rate (length leaves) b) in
         let t1 := add_len_set leaves w t in
         let! i := d_choice (length leaves) in
         let parent := nth i leaves 0 in
         pb_loop f N b (set_kids parent [bleaf next 0%Q; bleaf (S next) 0%Q] t1) (S (S next))) r
    end.

(* for idx, leaf in enumerate(leaf_nodes): leaf.taxon = taxon_namespace[idx] *)
Fixpoint enum_from {A} (i : nat) (l : list A) : list (A * nat) :=
  match l with [] => [] | x :: r => (x, i) :: enum_from (S i) r end.

Definition pb_run (N : nat) (b : Q) : M btree :=
  let! tn := pb_loop N N b (bleaf 0 0%Q) 1 in
  let t := fst tn in
  let leaves := leaf_ids t in
  let! w := expovariate (pb_rate (length leaves) b) in
  let t1 := add_len_set leaves w t in
  if length leaves <=? N then ret (set_tax (enum_from 0 leaves) t1)
  else raise PyPrims.IndexErr.     (* taxon_namespace[idx] with an empty namespace *)

Definition pb_sim (N : nat) (b : Q) (script : list draw) := pb_run N b (script, []).

(* ------------------------------------------------------------------------------------------ *)
(* Coalescent: gene trees (no identities needed; lengths may be None)                           *)
(* ------------------------------------------------------------------------------------------ *)

Inductive gtree : Type := G (tax : option nat) (len : option Q) (kids : list gtree).

Definition g_kids (g : gtree) : list gtree := match g with G _ _ ks => ks end.

Fixpoint gsubtrees (g : gtree) : list gtree :=
  match g with G _ _ ks => g :: flat_map gsubtrees ks end.

(* taxa of the leaves, left to right *)
Fixpoint gleaf_taxa (g : gtree) : list (option nat) :=
  match g with G x _ ks => match ks with [] => [x] | _ => flat_map gleaf_taxa ks end end.

Definition lenq (o : option Q) : Q := match o with Some q => q | None => 0%Q end.

(* if node.edge.length is None: node.edge.length = 0.0;  node.edge.length = node.edge.length + w *)
Definition stretch (w : Q) (g : gtree) : gtree :=
  match g with G x l ks => G x (Some (lenq l + w)%Q) ks end.

(* (taxon, height of the tip below the TOP of g's own edge) for every leaf; None counts as 0 *)
Fixpoint gtips (g : gtree) : list (option nat * Q) :=
  match g with G x l ks =>
    match ks with
    | [] => [(x, lenq l)]
    | _ => map (fun p => (fst p, (snd p + lenq l)%Q)) (flat_map gtips ks)
    end
  end.

(* combinatorics.choose(n, 2) *)
Definition choose2 (n : nat) : Q := inject_Z (Z.of_nat (n * (n - 1) / 2)).

(* time_units of time_to_coalescence: `if not pop_size: 1.0 else pop_size` *)
Definition time_units (pop : Q) : Q := if Qeq_bool pop 0%Q then 1%Q else pop.

(* the while loop of coalesce_nodes; returns the surviving nodes and time_remaining *)
Fixpoint coal_loop (fuel : nat) (pop : Q) (nodes : list gtree) (remaining : option Q)
  : M (list gtree * option Q) :=
  fun r =>
    if length nodes <=? 1 then Done (nodes, remaining) r else
    match fuel with
    | O => NoFuel
    | S f =>
        (let! e := d_exp (choose2 (length nodes)) in
         let tmrca := (e * time_units pop)%Q in
         if (match remaining with None => true | Some rem => Qle_bool tmrca rem end) then
           let nodes1 := map (stretch tmrca) nodes in
           let! ij := d_sample2 (length nodes) in
           let '(i, j) := ij in
           let a := nth i nodes1 (G None None []) in
           let b := nth j nodes1 (G None None []) in
           let anc := G None (Some 0%Q) [a; b] in
           (* nodes.remove(a); nodes.remove(b); nodes.append(new_ancestor) *)
           let nodes2 := remove_nth (if i <? j then j - 1 else j) (remove_nth i nodes1) ++ [anc] in
           coal_loop f pop nodes2 (option_map (fun rem => (rem - tmrca)%Q) remaining)
         else ret (nodes, remaining)) r
    end.

(* coalesce_nodes(nodes, pop_size, period, rng) *)
Definition coalesce_nodes (pop : Q) (period : option Q) (nodes : list gtree) : M (list gtree) :=
  match nodes with
  | [] => ret []
  | _ =>
      let! res := coal_loop (length nodes) pop nodes period in
      let '(nodes', remaining) := res in
      match remaining with
      | Some rem => if Qltb 0%Q rem then ret (map (stretch rem) nodes') else ret nodes'
      | None => ret nodes'
      end
  end.

(* pure_kingman_tree(taxon_namespace, pop_size, rng) with len(taxon_namespace) = N *)
Definition kingman_run (N : nat) (pop : Q) : M gtree :=
  let nodes := map (fun i => G (Some i) None []) (seq 0 N) in
  let! res := coalesce_nodes pop None nodes in
  match res with
  | [] => raise PyPrims.IndexErr
  | g :: _ => ret g
  end.

Definition kingman_sim (N : nat) (pop : Q) (script : list draw) := kingman_run N pop (script, []).

(* ------------------------------------------------------------------------------------------ *)
(* contained_coalescent_tree                                                                    *)
(* ------------------------------------------------------------------------------------------ *)

(* a node of the containing (species) tree: genes = Some l when nd.taxon is a key of
   gene_to_containing_taxon_map.reverse, l the gene taxa in the iteration order of that SET
   (hashed by id(): an input of the model); len = edge.length; pop = the edge's population size *)
Inductive stree : Type :=
  SN (sid : nat) (genes : option (list nat)) (len : option Q) (pop : Q) (kids : list stree).

Definition s_len (s : stree) := match s with SN _ _ l _ _ => l end.
Definition s_pop (s : stree) := match s with SN _ _ _ p _ => p end.

Definition s_kids (s : stree) := match s with SN _ _ _ _ ks => ks end.
Definition s_own (s : stree) : list nat := match s with SN _ (Some l) _ _ _ => l | _ => [] end.

(* gene taxa held anywhere in the subtree s *)
Fixpoint sgenes (s : stree) : list nat :=
  match s with SN _ g _ _ ks => (match g with Some l => l | None => [] end) ++ flat_map sgenes ks end.

Fixpoint ssubtrees (s : stree) : list stree :=
  match s with SN _ _ _ _ ks => s :: flat_map ssubtrees ks end.

(* total length of the edges of c's subtree (c's own edge included) that lie above the node
   holding gene x: the time gene x needs to leave the top of c's edge; None counts as 0 *)
Definition up_len (c : stree) (x : nat) : Q :=
  qsum (map (fun c' => lenq (s_len c')) (filter (fun c' => memb x (sgenes c')) (ssubtrees c))).

(* "gene leaves x and y are joined in g at a node below which x sits at height h"
   (h = path length from x up to the top of the edge of the child that contains x) *)
Inductive joins : gtree -> nat -> nat -> Q -> Prop :=
| j_here : forall tx l ks i j k1 k2 x y h h',
    nth_error ks i = Some k1 -> nth_error ks j = Some k2 -> i <> j ->
    In (Some x, h) (gtips k1) -> In (Some y, h') (gtips k2) -> joins (G tx l ks) x y h
| j_below : forall tx l ks k x y h, In k ks -> joins k x y h -> joins (G tx l ks) x y h.

(* the body of `for edge in containing_tree.postorder_edge_iter()` for a non-root edge:
   uncoal = coalesce_nodes(pop_node_genes[edge.head_node], pop_size, period=edge.length) *)
Definition edge_coal (s : stree) (pool : option (list gtree)) : M (list gtree) :=
  match pool with
  | None => raise PyPrims.KeyErr          (* pop_node_genes[edge.head_node] *)
  | Some nodes => coalesce_nodes (s_pop s) (s_len s) nodes
  end.

(* pop_node_genes[nd] once all edges below nd have been processed (post-order):
   own gene nodes first, then what each child edge handed up, children left to right *)
Fixpoint cc_pool (s : stree) : M (option (list gtree)) :=
  match s with SN _ genes _ _ ks =>
    let fix go (ks : list stree) : M (list gtree) :=
      match ks with
      | [] => ret []
      | k :: r => let! p := cc_pool k in
                  let! u := edge_coal k p in
                  let! b := go r in
                  ret (u ++ b)
      end in
    let! rest := go ks in
    match genes, ks with
    | None, [] => ret None
    | _, _ => ret (Some (map (fun x => G (Some x) None [])
                             (match genes with Some l => l | None => [] end) ++ rest))
    end
  end.

Definition cc_run (s : stree) : M gtree :=
  let! p := cc_pool s in
  match p with
  | None => raise PyPrims.KeyErr
  | Some nodes =>
      let! final := (if 1 <? length nodes then coalesce_nodes (s_pop s) None nodes else ret nodes) in
      match final with
      | [] => raise PyPrims.IndexErr
      | g :: _ => ret g
      end
  end.

Definition cc_sim (s : stree) (script : list draw) := cc_run s (script, []).

(* ------------------------------------------------------------------------------------------ *)
(* Observations and the correspondence check                                                    *)
(* ------------------------------------------------------------------------------------------ *)

(* an observed tree: (length, taxon, children) *)
Inductive otree : Type := O (len : option Q) (tax : option nat) (kids : list otree).

Definition oq_eqb (a b : option Q) : bool :=
  match a, b with Some x, Some y => Qeq_bool x y | None, None => true | _, _ => false end.
Definition on_eqb (a b : option nat) : bool :=
  match a, b with Some x, Some y => x =? y | None, None => true | _, _ => false end.

Fixpoint otree_eqb (a b : otree) : bool :=
  match a, b with O l1 x1 k1, O l2 x2 k2 =>
    oq_eqb l1 l2 && on_eqb x1 x2 &&
    (fix go (l : list otree) (m : list otree) : bool :=
       match l, m with
       | [], [] => true
       | x :: r, y :: s => otree_eqb x y && go r s
       | _, _ => false
       end) k1 k2
  end.

Fixpoint obs_b (t : btree) : otree := match t with B _ l x ks => O (Some l) x (map obs_b ks) end.
Fixpoint obs_g (t : gtree) : otree := match t with G x l ks => O l x (map obs_g ks) end.

Definition call_eqb (a b : call) : bool :=
  match a, b with
  | CExp x, CExp y => Qeq_bool x y
  | CUnit, CUnit => true
  | CGauss m s, CGauss m' s' => Qeq_bool m m' && Qeq_bool s s'
  | CShuffle n, CShuffle m => n =? m
  | CChoice n, CChoice m => n =? m
  | CRandint a b, CRandint c d => (a =? c) && (b =? d)
  | CSample n k, CSample m j => (n =? m) && (k =? j)
  | _, _ => false
  end.

(* what the implementation did *)
Inductive outcome : Type :=
| OTree (t : otree) (ns : list lab)   (* returned tree; final namespace labels (birth-death family) *)
| OExhausted                          (* raised ScriptExhausted *)
| OErr (e : err).

Inductive simcall : Type :=
| SimBD (fresh_new cs : bool) (P : bdp) (ns : list lab)
| SimFBD (fresh_new cs : bool) (P : bdp) (ns : list lab)
| SimPB (N : nat) (b : Q)
| SimKingman (N : nat) (pop : Q)
| SimCC (s : stree).

Record case : Type := mkCase {
  c_sim : simcall;
  c_script : list draw;
  c_calls : list call;       (* the calls the implementation made on its generator, in order *)
  c_out : outcome
}.

Definition lab_list_eqb := PyPrims.list_eqb lab_eqb.

(* model result reduced to (outcome, calls made, draws left over) *)
Definition run_sim (s : simcall) (script : list draw) : sres (otree * list lab) :=
  match s with
  | SimBD fn cs P ns =>
      match bd_sim fn cs P ns script with
      | Done (t, ns') r => Done (obs_b t, ns') r | Exhausted => Exhausted | BadScript => BadScript
      | PyErr e => PyErr e | NoFuel => NoFuel end
  | SimFBD fn cs P ns =>
      match fbd_sim fn cs P ns script with
      | Done (t, ns') r => Done (obs_b t, ns') r | Exhausted => Exhausted | BadScript => BadScript
      | PyErr e => PyErr e | NoFuel => NoFuel end
  | SimPB N b =>
      match pb_sim N b script with
      | Done t r => Done (obs_b t, []) r | Exhausted => Exhausted | BadScript => BadScript
      | PyErr e => PyErr e | NoFuel => NoFuel end
  | SimKingman N pop =>
      match kingman_sim N pop script with
      | Done t r => Done (obs_g t, []) r | Exhausted => Exhausted | BadScript => BadScript
      | PyErr e => PyErr e | NoFuel => NoFuel end
  | SimCC s =>
      match cc_sim s script with
      | Done t r => Done (obs_g t, []) r | Exhausted => Exhausted | BadScript => BadScript
      | PyErr e => PyErr e | NoFuel => NoFuel end
  end.

(* A case is in agreement when the model, fed the script the implementation consumed, returns
   the same tree / taxa / error, has consumed the script EXACTLY (nothing left over) and made the
   same generator calls with the same arguments in the same order.  For an exhausted script
   (truncated replays) both sides must report exhaustion. *)
Definition case_ok (c : case) : bool :=
  match run_sim (c_sim c) (c_script c), c_out c with
  | Done (t, ns') (rest, calls), OTree t' ns'' =>
      otree_eqb t t' && lab_list_eqb ns' ns'' && (length rest =? 0)
      && PyPrims.list_eqb call_eqb (rev calls) (c_calls c)
  | Exhausted, OExhausted => true
  | PyErr e, OErr e' => PyPrims.err_eqb e e'
  | _, _ => false
  end.

(* diagnostics for replays *)
Definition case_run (c : case) := run_sim (c_sim c) (c_script c).
