(* C19: run-time library of the object-level translator py/dv/gen_charmatrix_obj.py (Gen/CharMatrixObj.v).
   The loop state of a translated method is  st : store * orows  = the store of row objects and the
   receiver's `_taxon_sequence_map` (taxon -> row object).  Each definition states the Python semantics
   the translator assumes for one construct (trusted, together with the translator). *)
From Coq Require Import ZArith List Bool.
From DV Require Import Model.PyPrims Model.C19Model Model.C19RowHeap Model.C19Prims.
Import ListNotations.
Open Scope Z_scope.

Definition ost := (store * orows)%type.

(* ONE evaluation of a constructor call `C(cells)`: a new object.  The translator emits this where the call
   expression is evaluated: inside a loop body once per iteration, before a loop once. *)
Definition alloc_st (st : ost) (c : row) : ost * rid :=
  let '(s', r) := alloc (fst st) c in ((s', snd st), r).

(* the cells of the object x (to copy them: `character_sequence_type(x)`) *)
Definition cells_of (st : ost) (x : rid) : row := hget (fst st) x.

(* self._taxon_sequence_map[taxon] = x : the reference x itself is stored *)
Definition map_store (st : ost) (taxon : tid) (x : rid) : ost := (fst st, aput taxon x (snd st)).

(* taxon in self._taxon_sequence_map  /  taxon in self  (Taxon key) *)
Definition map_has (st : ost) (taxon : tid) : bool := ahas taxon (snd st).

(* statement sequencing: the rest of a block runs only when the first part fell through *)
Definition bind_blk (x : ost * res unit) (f : ost -> ost * res unit) : ost * res unit :=
  match x with
  | (st, Ok _) => f st
  | (st, Err e) => (st, Err e)
  | (st, OutOfFuel) => (st, OutOfFuel)
  end.
