(* C19: run-time library of the object-level translator py/dv/gen_charmatrix_obj.py (Gen/CharMatrixObj.v).
   The loop state of a translated method is  st : store * orows  = the store of row objects and the
   receiver's `_taxon_sequence_map` (taxon -> row object).  Each definition states the Python semantics
   the translator assumes for one construct (trusted, together with the translator). *)
From Coq Require Import ZArith List Bool.
From DV Require Import Model.PyPrims Model.C19Model Model.C19RowHeap Model.C19Prims.
Import ListNotations.
Open Scope Z_scope.

Definition ost := (store * orows)%type.

(* ONE evaluation of a constructor call `C(cells)`: a new object.  The translator emits this where the call
   expression is evaluated: inside a loop body once per iteration, before a loop once. *)
Definition alloc_st (st : ost) (c : row) : ost * rid :=
  let '(s', r) := alloc (fst st) c in ((s', snd st), r).

(* the cells of the object x (to copy them: `character_sequence_type(x)`) *)
Definition cells_of (st : ost) (x : rid) : row := hget (fst st) x.

(* self._taxon_sequence_map[taxon] = x : the reference x itself is stored *)
Definition map_store (st : ost) (taxon : tid) (x : rid) : ost := (fst st, aput taxon x (snd st)).

(* taxon in self._taxon_sequence_map  /  taxon in self  (Taxon key) *)
Definition map_has (st : ost) (taxon : tid) : bool := ahas taxon (snd st).

(* statement sequencing: the rest of a block runs only when the first part fell through *)
Definition bind_blk (x : ost * res unit) (f : ost -> ost * res unit) : ost * res unit :=
  match x with
  | (st, Ok _) => f st
  | (st, Err e) => (st, Err e)
  | (st, OutOfFuel) => (st, OutOfFuel)
  end.

(* ================= second group of methods (extend_sequences, extend_matrix, remove/discard/keep, new_sequence, __getitem__, fill,
   pack, export_character_indices, export_character_subset) ================= *)

(* sequencing in a method that returns a value *)
Definition bind_blkA {A} (x : ost * res unit) (f : ost -> ost * res A) : ost * res A :=
  match x with
  | (st, Ok _) => f st
  | (st, Err e) => (st, Err e)
  | (st, OutOfFuel) => (st, OutOfFuel)
  end.

(* the value of a call of a translated method is used by the rest of the block *)
Definition bind_val {A B} (x : ost * res A) (f : ost -> A -> ost * res B) : ost * res B :=
  match x with
  | (st, Ok v) => f st v
  | (st, Err e) => (st, Err e)
  | (st, OutOfFuel) => (st, OutOfFuel)
  end.

(* a call statement: the value is dropped *)
Definition drop_val {A} (x : ost * res A) : ost * res unit :=
  match x with
  | (st, Ok _) => (st, Ok tt)
  | (st, Err e) => (st, Err e)
  | (st, OutOfFuel) => (st, OutOfFuel)
  end.

(* try: <block> except <E>: pass      catches exactly E; what the block did before raising stays *)
Definition catch_err (e : err) (x : ost * res unit) : ost * res unit :=
  match x with
  | (st, Err e') => if err_eqb e' e then (st, Ok tt) else (st, Err e')
  | _ => x
  end.

(* self._taxon_sequence_map[taxon] as an expression: the STORED object itself (None: KeyError) *)
Definition map_get (st : ost) (taxon : tid) : option rid := aget taxon (snd st).

(* del self._taxon_sequence_map[taxon]: the map only, no object is touched *)
Definition map_del (st : ost) (taxon : tid) : ost * res unit :=
  if ahas taxon (snd st) then ((fst st, adel taxon (snd st)), Ok tt) else (st, Err KeyErr).

(* tuple(self._taxon_sequence_map.keys()): a snapshot of the keys in insertion order *)
Definition map_keys (st : ost) : list tid := map fst (snd st).

(* for k in self  (CharacterMatrix.__iter__: the taxa of the namespace, in namespace order, that have a row;
   the generator checks the body of __iter__).  Evaluated at loop entry: the translated loops over it do not
   add or delete keys. *)
Definition map_iter (T : list tid) (st : ost) : list tid := map fst (oitems T (snd st)).

(* for vec in m.values()  on a local matrix m  (values: `for t in self: yield self[t]`, checked by the generator;
   self[t] on an existing key is the STORED object): the objects themselves, in namespace order - an object
   stored under two taxa is visited twice *)
Definition mat_values (T : list tid) (m : orows) : list rid := map snd (oitems T m).

(* len(x) of a row object *)
Definition row_len (st : ost) (x : rid) : Z := zlen (hget (fst st) x).

(* x.extend(y), x and y row objects: CharacterDataSequence.extend materialises its argument first
   (`character_values = list(character_values)`, checked by the generator), then extends the value list of the
   object x IN PLACE; y (and every other object) is not touched; x = y doubles the row *)
Definition row_extend (st : ost) (x y : rid) : ost :=
  (mutate (fst st) x (hget (fst st) x ++ hget (fst st) y), snd st).

(* x.append(v)  /  x.insert(0, v): in place on the object x *)
Definition row_append (st : ost) (x : rid) (v : cell) : ost :=
  (mutate (fst st) x (py_seq_append (hget (fst st) x) v), snd st).
Definition row_insert0 (st : ost) (x : rid) (v : cell) : ost :=
  (mutate (fst st) x (py_seq_insert0 (hget (fst st) x) v), snd st).

(* del x[i]: in place on the object x; IndexError leaves it as it is *)
Definition row_del (st : ost) (x : rid) (i : Z) : ost * res unit :=
  match py_seq_del (hget (fst st) x) i with
  | Ok c => ((mutate (fst st) x c, snd st), Ok tt)
  | Err e => (st, Err e)
  | OutOfFuel => (st, OutOfFuel)
  end.

(* self.max_sequence_size (property over _get_max_sequence_size, body checked by the generator; reads only) *)
Definition max_size_st (T : list tid) (st : ost) : Z := max_sequence_size T (deref (fst st) (snd st)).

(* clone = self.__class__(self):  CharacterMatrix.__init__ with ONE positional CharacterMatrix argument calls
   self._clone_from(args[0], kwargs), which does `t = copy.deepcopy(src, memo)`; `self.__dict__ = t.__dict__`
   (the generator checks both routes, that CharacterMatrix.__deepcopy__ is the generic Annotable one and that
   CharacterDataSequence does not customise copying).  TRUSTED MEANING of copy.deepcopy on the row map: every row
   object is copied exactly once (memo), so two taxa sharing an object in the source share ONE new object in the
   clone, and no object of the clone is an object of the source.  The receiver's map is not changed; the result
   is the clone's map. *)
Definition deepcopy_st (st : ost) : ost * orows :=
  let '(s', cr) := o_deepcopy_rows (fst st) [] (snd st) in ((s', snd st), cr).

(* clone = copy.copy(self):  CharacterMatrix.__copy__ stores the SAME row objects in a new matrix
   (`other._taxon_sequence_map[taxon] = self._taxon_sequence_map[taxon]`, checked by the generator) *)
Definition shallow_copy_st (st : ost) : orows := snd st.

(* ================= the classmethod concatenate: the arguments are matrices (omatrix) read through the store; the
   receiver role is played by the local matrix made by `cls(taxon_namespace=ns)` ================= *)

(* cls(taxon_namespace=ns): CharacterMatrix.__init__ without positional argument starts from an empty
   _taxon_sequence_map (checked by the generator); no row object is created *)
Definition new_matrix_st (s : store) : ost := (s, []).

(* m[key] on an ARGUMENT matrix whose row exists: the stored object.  (__getitem__ CREATES a row otherwise; the
   translated code never relies on that: the creating branch is answered AssertErr, as in o_concat_loop.) *)
Definition arg_getitem_ro (T : list tid) (m : omatrix) (k : key) : res rid :=
  match resolve_key T k with
  | Ok t => match aget t (om_rows m) with Some r => Ok r | None => Err AssertErr end
  | Err e => Err e
  | OutOfFuel => OutOfFuel
  end.

(* m.items() on an argument: (taxon, stored object) in namespace order (body of items checked by the generator) *)
Definition arg_items (T : list tid) (m : omatrix) : list (tid * rid) := oitems T (om_rows m).

(* m.vector_size (property over _get_sequence_size, checked): the length of the FIRST INSERTED row, read through
   the store as it is now; 0 without rows *)
Definition arg_vector_size (st : ost) (m : omatrix) : Z := vector_size (deref (fst st) (om_rows m)).

(* <local matrix>.new_character_subset(label=l, character_indices=idx): caseless duplicate -> ValueError, else
   appended (bodies of new_character_subset / add_character_subset checked); the rows are not touched *)
Definition subs_new (lower : lbl -> lbl) (ss : subsets) (l : lbl) (idx : list Z) : res subsets :=
  if has_key lower l ss then Err ValueErr else Ok (ss ++ [(l, idx)]).
