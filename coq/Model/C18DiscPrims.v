(* C18 - run-time library of the generated discrete_birth_death_tree / birth_death_tree with options
   (coq/Gen/Sim.v): the primitives that Model/C18Prims.v does not have.  Every primitive states the
   Python construct it stands for; this mapping is the trusted part of the translator tie.
   Definitions only. *)
From Coq Require Import QArith ZArith List Bool Arith.
From DV Require Import Model.C18Model Model.C18Prims.
From DV Require Model.PyPrims.
Import ListNotations.
Open Scope nat_scope.

(* rng.uniform(0, 1) = 0 + (1 - 0) * rng.random(): the next Unit entry (random.Random.uniform) *)
Definition py_uniform01 : M Q := d_unit.

(* `a is b` for two nodes: node identity = equality of the creation indices *)
Definition b_is (x y : nat) : bool := x =? y.

(* kwargs.get(key, default) for an option that is passed iff it is not None *)
Definition py_kw_get {A} (o : option A) (d : A) : A := match o with Some a => a | None => d end.

(* tree.prune_subtree(nd)  (suppress_unifurcations defaults to True):
     if node._parent_node is None: raise TypeError
     node._parent_node.remove_child(node); self.suppress_unifurcations()           (whole tree) *)
Definition b_prune_subtree_s (t : btree) (x : nat) : M btree :=
  match parent_of x t with
  | None => raise PyPrims.TypeErr
  | Some _ => ret (suppress (remove_child x t))
  end.

(* Tree.randomly_assign_taxa(create_required_taxa=True, rng=rng)   (datamodel/treemodel/_tree.py)

     if len(self.taxon_namespace) == 0:
         for i, nd in enumerate(self.leaf_nodes()):
             nd.taxon = self.taxon_namespace.require_taxon(label="T%d" % (i+1))
     else:
         taxa = [t for t in self.taxon_namespace]
         for i, nd in enumerate(self.leaf_nodes()):
             if len(taxa) > 0: nd.taxon = taxa.pop(rng.randint(0, len(taxa)-1))
             else: ... self.taxon_namespace.has_taxon(label=label) ...

   TaxonNamespace has no method has_taxon (it is has_taxon_label): the else branch raises
   AttributeError at its first statement that touches the namespace.  This function is transcribed by
   hand (it lives outside the translated files); the correspondence run compares it. *)
Fixpoint rat_fresh (leaves : list nat) (i : nat) (ns : list lab) : list (nat * nat) * list lab :=
  match leaves with
  | [] => ([], ns)
  | nd :: r => let '(tx, ns1) := require_taxon false false (LT true (S i)) ns in
               let '(m, ns2) := rat_fresh r (S i) ns1 in ((nd, tx) :: m, ns2)
  end.

Fixpoint rat_pool (leaves : list nat) (taxa : list nat) : M (list (nat * nat)) :=
  match leaves with
  | [] => ret []
  | nd :: r =>
      if 0 <? length taxa then
        let! j := d_randint 0 (length taxa - 1) in
        let! m := rat_pool r (remove_nth j taxa) in
        ret ((nd, nth j taxa 0) :: m)
      else raise PyPrims.AttrErr
  end.

Definition py_randomly_assign_taxa (t : btree) (ns : list lab) : M (btree * list lab) :=
  if length ns =? 0 then
    let '(m, ns') := rat_fresh (leaf_ids t) 0 ns in ret (set_tax m t, ns')
  else
    let! m := rat_pool (leaf_ids t) (seq 0 (length ns)) in ret (set_tax m t, ns).
