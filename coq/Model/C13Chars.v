(* C13 (second wave): the NEXUS reader's block loop when CHARACTERS ARE READ
   (NexusReader._parse_nexus_stream with exclude_chars = False), at block-dispatch level.
   Which blocks are selected and how the tokenizer / namespace state is threaded is transcribed;
   the bodies of the CHARACTERS / DATA block (_parse_characters_data_block: TITLE, LINK,
   DIMENSIONS, FORMAT, MATRIX) and of the SETS / ASSUMPTIONS / CODONS block (CHARSET statements)
   are PARAMETERS: arbitrary functions of the reader state and the matrices read so far.
   The two routes of the matrix clause of the property differ only in `exclude_trees`:
     CharacterMatrix.get  -> read_char_matrices: tree_list_factory = None, exclude_trees = True
     DataSet.get          -> read_dataset: trees are read
   Definitions only; proofs in Proofs/C13CharsProofs.v. *)
From Coq Require Import ZArith List Bool.
From DV Require Import Model.PyPrims Model.C13Model.
Import ListNotations.

Section CharRoutes.
Variable T M : Type.
Variables lower upper : str -> str.
Variable parse_tree : mapper -> tz -> res (option T * mapper * tz).
Variable set_label : T -> option str -> T.
Variable add_comments : T -> list str -> T.
Variable vl : bool.
Variable c : nscfg.
Variable tlf : tl_factory.
(* _parse_characters_data_block (characters read): may append a matrix, may create / fill namespaces *)
Variable parse_chars : core -> regs -> list M -> res (core * regs * list M).
(* the SETS / ASSUMPTIONS / CODONS branch (characters read): CHARSET statements change matrices *)
Variable parse_sets : core -> regs -> list M -> res (core * regs * list M).

Fixpoint c_blocks_loop (et : bool) (fuel : nat) (s : rs T) (mats : list M) : res (rs T * list M) :=
  match fuel with
  | O => OutOfFuel
  | S f =>
    if negb (z_eof (k_z (r_k s))) then
      do k4 <- block_head upper fuel (r_k s) ;;
      let token := z_cur (k_z k4) in
      if otok_is token K_TAXA then
        do r <- parse_taxa_block lower upper c fuel k4 (r_g s) ;;
        let '(k5, g5) := r in c_blocks_loop et f (mkRs k5 g5 (r_tls s) (r_tlreg s)) mats
      else if otok_is token K_CHARACTERS || otok_is token K_DATA then
        do r <- parse_chars k4 (r_g s) mats ;;
        let '(k5, g5, mats5) := r in c_blocks_loop et f (mkRs k5 g5 (r_tls s) (r_tlreg s)) mats5
      else if otok_is token K_TREES then
        do s5 <- r_parse_trees_block T lower upper parse_tree set_label add_comments vl c tlf et fuel
                                     (mkRs k4 (r_g s) (r_tls s) (r_tlreg s)) ;;
        c_blocks_loop et f s5 mats
      else if is_sets_kw token then
        do r <- parse_sets k4 (r_g s) mats ;;
        let '(k5, g5, mats5) := r in c_blocks_loop et f (mkRs k5 g5 (r_tls s) (r_tlreg s)) mats5
      else if otok_is token K_BEGIN then Err ParseErr
      else
        do k5 <- zstep k4 (consume_to_end_of_block upper fuel token) ;;
        c_blocks_loop et f (mkRs k5 (r_g s) (r_tls s) (r_tlreg s)) mats
    else Ok (s, mats)
  end.

Definition c_parse_nexus_stream (et : bool) (fuel : nat) (s : rs T) : res (rs T * list M) :=
  do k1 <- zstep (r_k s) require_next_token ;;
  match z_cur (k_z k1) with
  | None => Err AttrErr
  | Some t =>
    if negb (str_eqb (upper t) K_NEXUS) then Err ParseErr
    else c_blocks_loop et fuel (mkRs k1 (r_g s) (r_tls s) (r_tlreg s)) []
  end.

(* CharacterMatrix.get(matrix_offset=i): `if len(char_matrices) == 0: ValueError; char_matrices[i]` *)
Definition select_matrix (mats : list M) (i : Z) : res M :=
  match mats with
  | [] => Err ValueErr
  | _ => match py_index mats i with Some m => Ok m | None => Err IndexErr end
  end.

End CharRoutes.
