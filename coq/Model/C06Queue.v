(* C06: the hand-out protocol of dendropy.application.sumtrees as a transition system over the
   interleavings of the actors' steps (definitions only).

   REPAIRED protocol (parallel_analyze_trees / TreeAnalysisWorker.run as they are now):
     parent : for f in tree_sources: work_queue.put(f)
              for idx in range(num_processes): work_queue.put(None)        (one marker per worker)
     worker : loop  x = work_queue.get()   (blocks while the queue is empty)
                    if x is None: break
                    read file x into the worker's own array
              results_queue.put(own array)
   The queue is FIFO.  multiprocessing.Queue.put only appends to a buffer in the parent process; a
   separate feeder thread moves the items into the pipe the workers read.  The feeder is a separate
   actor here (action Feed), in both protocols: when the workers start everything the parent put
   still sits in the buffer.  A blocking get() on an empty pipe is simply not enabled.

   OLD protocol (before commit 9ba202d7): no markers; the worker uses get_nowait() and treats
   queue.Empty as the end of the work: a worker that looks at the pipe before the feeder flushed
   sees Empty and quits.

   Not modelled: a worker that fails while reading a file (it puts the exception and leaves without
   taking its marker; the parent re-raises and terminates the workers), kill requests. *)
From Coq Require Import List Bool Arith.
From DV Require Import Model.C06Model.
Import ListNotations.

Section Protocol.
Variable A : Type.                      (* what is handed out: a file (its trees) *)

Inductive phase := Running | Marked | Finished.
(* Running : in the loop;  Marked : left the loop, result not yet put;  Finished : result put *)

Record wst := mkW { w_recv : list A; w_phase : phase }.

Record pst := mkP {
  p_buf : list (option A);      (* put by the parent, not yet flushed by the feeder (old protocol only) *)
  p_queue : list (option A);    (* what the workers' get sees; Some f = a source, None = a marker *)
  p_workers : list wst;
  p_results : list nat          (* results_queue: worker ids in the order their results were put *)
}.

Inductive act :=
| Get (w : nat)         (* worker w executes work_queue.get() / get_nowait() and the following test *)
| Put (w : nat)         (* worker w executes results_queue.put(self.tree_array) *)
| Feed.                 (* the feeder thread moves one item from the buffer into the pipe *)

Definition set_worker (s : pst) (w : nat) (x : wst) : pst :=
  mkP (p_buf s) (p_queue s) (set_nth w x (p_workers s)) (p_results s).

Definition do_put (s : pst) (w : nat) : option pst :=
  match nth_error (p_workers s) w with
  | Some (mkW r Marked) =>
    Some (mkP (p_buf s) (p_queue s) (set_nth w (mkW r Finished) (p_workers s)) (p_results s ++ [w]))
  | _ => None
  end.

(* repaired protocol: None = the action is not enabled (wrong phase, or get() blocks) *)
Definition step_new (s : pst) (a : act) : option pst :=
  match a with
  | Get w =>
    match nth_error (p_workers s) w with
    | Some (mkW r Running) =>
      match p_queue s with
      | [] => None                                                   (* get() blocks *)
      | Some f :: q => Some (mkP (p_buf s) q (set_nth w (mkW (r ++ [f]) Running) (p_workers s)) (p_results s))
      | None :: q => Some (mkP (p_buf s) q (set_nth w (mkW r Marked) (p_workers s)) (p_results s))
      end
    | _ => None
    end
  | Put w => do_put s w
  | Feed =>
    match p_buf s with
    | [] => None
    | x :: b => Some (mkP b (p_queue s ++ [x]) (p_workers s) (p_results s))
    end
  end.

(* old protocol *)
Definition step_old (s : pst) (a : act) : option pst :=
  match a with
  | Get w =>
    match nth_error (p_workers s) w with
    | Some (mkW r Running) =>
      match p_queue s with
      | [] => Some (set_worker s w (mkW r Marked))                   (* queue.Empty: break *)
      | Some f :: q => Some (mkP (p_buf s) q (set_nth w (mkW (r ++ [f]) Running) (p_workers s)) (p_results s))
      | None :: q => Some (mkP (p_buf s) q (set_nth w (mkW r Running) (p_workers s)) (p_results s))
      end
    | _ => None
    end
  | Put w => do_put s w
  | Feed =>
    match p_buf s with
    | [] => None
    | x :: b => Some (mkP b (p_queue s ++ [x]) (p_workers s) (p_results s))
    end
  end.

Fixpoint exec (step : pst -> act -> option pst) (s : pst) (acts : list act) : option pst :=
  match acts with
  | [] => Some s
  | a :: r => match step s a with Some s' => exec step s' r | None => None end
  end.

Definition fresh_workers (n : nat) : list wst := repeat (mkW [] Running) n.

(* the state when the workers are started: everything the parent put sits in the buffer *)
Definition init_new (files : list A) (n : nat) : pst :=
  mkP (map Some files ++ repeat None n) [] (fresh_workers n) [].

Definition init_old (files : list A) (n : nat) : pst :=
  mkP (map Some files) [] (fresh_workers n) [].

(* a state in which no actor can move *)
Definition quiescent (step : pst -> act -> option pst) (s : pst) : Prop := forall a, step s a = None.

End Protocol.

Arguments mkW {A}. Arguments mkP {A}. Arguments w_recv {A}. Arguments w_phase {A}.
Arguments p_buf {A}. Arguments p_queue {A}. Arguments p_workers {A}. Arguments p_results {A}.
Arguments step_new {A}. Arguments step_old {A}. Arguments exec {A}. Arguments init_new {A}.
Arguments init_old {A}. Arguments quiescent {A}.

(* the workers that executed the successive get operations of an interleaving, in order *)
Definition gets_of (acts : list act) : list nat :=
  flat_map (fun a => match a with Get w => [w] | _ => [] end) acts.

(* which protocol a source text uses, from the facts the translator reads off sumtrees.py
   (Gen/TreeArrayGen.v): the queue primitive of the worker loop, its termination test, and whether
   the parent puts one marker per worker behind the sources *)
Inductive qprim := QGet | QGetNowait | QUnknown.

Definition uses_marker_protocol (fetch : qprim) (exit_on_marker exit_on_empty : bool)
           (sources_then_markers one_marker_per_worker result_put_after_loop : bool) : bool :=
  match fetch with
  | QGet => exit_on_marker && negb exit_on_empty && sources_then_markers && one_marker_per_worker
            && result_put_after_loop
  | _ => false
  end.

Definition step_of_protocol {A} (marker_protocol : bool) : pst A -> act -> option (pst A) :=
  if marker_protocol then step_new else step_old.

Definition init_of_protocol {A} (marker_protocol : bool) : list A -> nat -> pst A :=
  if marker_protocol then init_new else init_old.
