(* C16 - OBJECT-level model of dendropy.model.parsimony for histories with caller-held
   taxon_state_sets_map objects shared between calls and trees.  Definitions only.

   Model/C16Model.v keeps, per node, the VALUE of the `state_sets` attribute.  Here the Python list
   objects are explicit:
     heap    : list object id -> contents (a state-set list)
     astore  : node id -> the list OBJECT its `state_sets` attribute refers to  (one per tree object)
     omap    : taxon -> the list OBJECT that is the taxon's row in a taxon_state_sets_map
   and the statements of parsimony.py are transcribed as to WHICH object is stored / created:
     set_node_state_sets(nd, taxon_state_sets_map[nd.taxon])   stores the map's ROW OBJECT on the leaf
                                                               (no copy: leaf attribute and map row alias)
     _retrieve_state_sets_from_attr fall-back                  stores the map's row object too
     result = [] ... result.append(..) ; set_node_state_sets(nd, result)   a NEW list object
     fitch_up_pass: result = [] ... setattr(nd, name, result)              a NEW list object
   No statement assigns into an existing list (`x[:] = ..`, `x[i] = ..`, append on a stored list):
   the heap only grows.  Props/C16.v: scoring_never_mutates_a_list_object (frame),
   object_level_refines_value_level (the value-level model is the abstraction of this one). *)
From Coq Require Import ZArith List Bool.
From DV Require Import Model.PyPrims Model.Tree Model.C16Model.
Import ListNotations.
Open Scope Z_scope.

Definition oid := Z.
Record heap := mkHeap { h_next : Z; h_objs : list (Z * ssl) }.
Definition deref (h : heap) (o : oid) : option ssl := lookup o (h_objs h).
Definition derefd (h : heap) (o : oid) : ssl := match deref h o with Some v => v | None => [] end.
Definition alloc (h : heap) (v : ssl) : heap * oid :=
  (mkHeap (h_next h + 1) ((h_next h, v) :: h_objs h), h_next h).

Definition astore := list (Z * oid).
Definition omap := list (Z * oid).

Definition omap_get (m : omap) (taxon : option Z) : option oid :=
  match taxon with None => None | Some x => lookup x m end.

(* the abstraction to the value level *)
Definition view (h : heap) (a : astore) : store := map (fun ko => (fst ko, derefd h (snd ko))) a.
Definition mview (h : heap) (m : omap) : matrix := map (fun xo => (fst xo, derefd h (snd xo))) m.
Definition omview (h : heap) (m : option omap) : option matrix :=
  match m with None => None | Some mm => Some (mview h mm) end.

Record opst := mkOP { op_heap : heap; op_store : astore; op_score : Z; op_sbc : option (list Z) }.
Inductive ooutcome := ODone (p : opst) | OFail (p : opst) (e : err).

(* _retrieve_state_sets_from_attr: returns the list OBJECT *)
Definition oget_ss (m : option omap) (a : astore) (nd : tree) : astore * res oid :=
  match lookup (t_id nd) a with
  | Some o => (a, Ok o)
  | None =>
    match m with
    | None => (a, Err TypeErr)
    | Some mm =>
      match omap_get mm (t_taxon nd) with
      | None => (a, Err KeyErr)
      | Some o => ((t_id nd, o) :: a, Ok o)             (* setattr(n, name, v): the row object itself *)
      end
    end
  end.

Fixpoint okids_loop (m : option omap) (w : option (list Z)) (nd : tree) (left_ssl : ssl)
         (right_c : tree) (remaining : list tree) (p : opst) : ooutcome :=
  match oget_ss m (op_store p) right_c with
  | (a, Err e) => OFail (mkOP (op_heap p) a (op_score p) (op_sbc p)) e
  | (a, OutOfFuel) => OFail (mkOP (op_heap p) a (op_score p) (op_sbc p)) OtherErr
  | (a, Ok ro) =>
    match char_loop w O left_ssl (derefd (op_heap p) ro) [] (op_score p) (op_sbc p) with
    | ((_, sc, sb), Some e) => OFail (mkOP (op_heap p) a sc sb) e
    | ((result, sc, sb), None) =>
      match remaining with
      | [] => let (h', o) := alloc (op_heap p) result in           (* result: a new list object *)
              ODone (mkOP h' ((t_id nd, o) :: a) sc sb)             (* _store_sets_as_attr: setattr *)
      | c :: rest => okids_loop m w nd result c rest (mkOP (op_heap p) a sc sb)
      end
    end
  end.

Definition onode_step (m : option omap) (w : option (list Z)) (p : opst) (nd : tree) : ooutcome :=
  match t_kids nd with
  | [] =>
    match m with
    | Some mm =>
      match omap_get mm (t_taxon nd) with
      | None => OFail p KeyErr
      | Some o => ODone (mkOP (op_heap p) ((t_id nd, o) :: op_store p) (op_score p) (op_sbc p))
      end
    | None =>
      match oget_ss None (op_store p) nd with
      | (a, Ok _) => ODone (mkOP (op_heap p) a (op_score p) (op_sbc p))
      | (a, Err e) => OFail (mkOP (op_heap p) a (op_score p) (op_sbc p)) e
      | (a, OutOfFuel) => OFail (mkOP (op_heap p) a (op_score p) (op_sbc p)) OtherErr
      end
    end
  | [_] => OFail p ValueErr
  | left_c :: right_c :: remaining =>
    match oget_ss m (op_store p) left_c with
    | (a, Err e) => OFail (mkOP (op_heap p) a (op_score p) (op_sbc p)) e
    | (a, OutOfFuel) => OFail (mkOP (op_heap p) a (op_score p) (op_sbc p)) OtherErr
    | (a, Ok lo) => okids_loop m w nd (derefd (op_heap p) lo) right_c remaining
                               (mkOP (op_heap p) a (op_score p) (op_sbc p))
    end
  end.

Fixpoint orun_nodes (m : option omap) (w : option (list Z)) (nodes : list tree) (p : opst) : ooutcome :=
  match nodes with
  | [] => ODone p
  | nd :: rest =>
    match onode_step m w p nd with
    | ODone p' => orun_nodes m w rest p'
    | f => f
    end
  end.

Definition ofitch_down_pass (m : option omap) (w : option (list Z)) (sbc_given : bool)
           (h : heap) (a : astore) (t : tree) : ooutcome :=
  if sbc_given then
    match m with
    | None => OFail (mkOP h a 0 (Some [])) AttrErr
    | Some [] => OFail (mkOP h a 0 (Some [])) IndexErr
    | Some ((_, row0) :: _) =>
      orun_nodes m w (postorder t) (mkOP h a 0 (Some (repeat 0 (length (derefd h row0)))))
    end
  else orun_nodes m w (postorder t) (mkOP h a 0 None).

(* ---------- fitch_up_pass ---------- *)
Definition oup_get (m : option omap) (h : heap) (a : astore) (nd : tree) : res ssl :=
  match lookup (t_id nd) a with
  | Some o => Ok (derefd h o)
  | None =>
    match m with
    | None | Some [] => Err AttrErr
    | Some mm => match omap_get mm (t_taxon nd) with Some o => Ok (derefd h o) | None => Err KeyErr end
    end
  end.

Definition oattr_get (h : heap) (a : astore) (nd : tree) : res ssl :=
  match lookup (t_id nd) a with Some o => Ok (derefd h o) | None => Err AttrErr end.

Fixpoint oup_walk (m : option omap) (parent : option tree) (t : tree) (h : heap) (a : astore) {struct t}
  : (heap * astore) * option err :=
  match t with
  | T i x lb e ks =>
    let here : (heap * astore) * option err :=
      match ks, parent with
      | [], _ => ((h, a), None)
      | _, None => ((h, a), None)
      | [lc; rc], Some p =>
        match oup_get m h a lc with
        | Err er => ((h, a), Some er) | OutOfFuel => ((h, a), Some OtherErr)
        | Ok lss =>
          match oup_get m h a rc with
          | Err er => ((h, a), Some er) | OutOfFuel => ((h, a), Some OtherErr)
          | Ok rss =>
            match oattr_get h a p with
            | Err er => ((h, a), Some er) | OutOfFuel => ((h, a), Some OtherErr)
            | Ok pss =>
              match oattr_get h a t with
              | Err er => ((h, a), Some er) | OutOfFuel => ((h, a), Some OtherErr)
              | Ok css => let (h', o) := alloc h (zip4 pss css lss rss) in    (* result: a new list object *)
                          ((h', (i, o) :: a), None)                           (* setattr(nd, name, result) *)
              end
            end
          end
        end
      | _, Some _ => ((h, a), Some AssertErr)
      end in
    match here with
    | (ha1, Some er) => (ha1, Some er)
    | (ha1, None) =>
      (fix go (l : list tree) (s : heap * astore) : (heap * astore) * option err :=
         match l with
         | [] => (s, None)
         | k :: r =>
           match oup_walk m (Some t) k (fst s) (snd s) with
           | (s', Some er) => (s', Some er)
           | (s', None) => go r s'
           end
         end) ks ha1
    end
  end.

Definition ofitch_up_pass (m : option omap) (h : heap) (a : astore) (t : tree) : (heap * astore) * option err :=
  oup_walk m None t h a.

(* CharacterMatrix.taxon_state_sets_map: a new dict with a NEW list object per row, in iteration order *)
Fixpoint alloc_map (h : heap) (m : matrix) : heap * omap :=
  match m with
  | [] => (h, [])
  | (x, v) :: r => let (h1, o) := alloc h v in let (h2, om) := alloc_map h1 r in (h2, (x, o) :: om)
  end.

(* =====================================================================================
   Histories over several tree objects and several caller-held maps
   ===================================================================================== *)
Record world := mkW { w_heap : heap; w_stores : list astore; w_maps : list omap }.

Inductive hapi :=
| HScore (m : matrix)          (* parsimony_score(tree, chars, ...): builds a throw-away map with these contents *)
| HDown (k : option nat)       (* fitch_down_pass(tree.postorder_node_iter(), taxon_state_sets_map=held[k] | None, ...) *)
| HUp (k : option nat).        (* fitch_up_pass(tree.preorder_node_iter(), taxon_state_sets_map=held[k] | None) *)

Fixpoint set_nth {A} (n : nat) (x : A) (l : list A) : list A :=
  match l, n with
  | [], _ => []
  | _ :: r, O => x :: r
  | y :: r, S k => y :: set_nth k x r
  end.

Definition held (w : world) (k : option nat) : option (option omap) :=
  match k with
  | None => Some None
  | Some i => match nth_error (w_maps w) i with Some m => Some (Some m) | None => None end
  end.

Definition oresult (o : ooutcome) : opst * res Z :=
  match o with ODone p => (p, Ok (op_score p)) | OFail p e => (p, Err e) end.

(* one step on tree object ti: new world, result, score_by_character_list *)
Definition hstep_run (ts : list tree) (w : world) (ti : nat) (ap : hapi) (wt : option (list Z)) (sbc : bool)
  : world * (res Z * option (list Z)) :=
  match nth_error ts ti, nth_error (w_stores w) ti with
  | Some t, Some a =>
    match ap with
    | HScore m =>
      let (h1, om) := alloc_map (w_heap w) m in
      let (p, r) := oresult (ofitch_down_pass (Some om) wt sbc h1 a t) in
      (mkW (op_heap p) (set_nth ti (op_store p) (w_stores w)) (w_maps w), (r, op_sbc p))
    | HDown k =>
      match held w k with
      | None => (w, (OutOfFuel, None))
      | Some om =>
        let (p, r) := oresult (ofitch_down_pass om wt sbc (w_heap w) a t) in
        (mkW (op_heap p) (set_nth ti (op_store p) (w_stores w)) (w_maps w), (r, op_sbc p))
      end
    | HUp k =>
      match held w k with
      | None => (w, (OutOfFuel, None))
      | Some om =>
        match ofitch_up_pass om (w_heap w) a t with
        | ((h', a'), None) => (mkW h' (set_nth ti a' (w_stores w)) (w_maps w), (Ok 0, None))
        | ((h', a'), Some e) => (mkW h' (set_nth ti a' (w_stores w)) (w_maps w), (Err e, None))
        end
      end
    end
  | _, _ => (w, (OutOfFuel, None))
  end.

(* ---------- what the harness observes ---------- *)
(* after every step: every held map (taxon, row object, row contents) and, for every tree object,
   getattr(node, "state_sets", None) of every node in preorder (object, contents) *)
Record hsnap := mkHSnap { hs_maps : list (list (Z * (Z * ssl))); hs_trees : list (list (option (Z * ssl))) }.

Fixpoint zip_with {A B C} (f : A -> B -> C) (l1 : list A) (l2 : list B) : list C :=
  match l1, l2 with x :: r1, y :: r2 => f x y :: zip_with f r1 r2 | _, _ => [] end.

Definition osnap (ts : list tree) (w : world) : hsnap :=
  mkHSnap (map (fun m => map (fun xo => (fst xo, (snd xo, derefd (w_heap w) (snd xo)))) m) (w_maps w))
          (zip_with (fun t a => map (fun n => match lookup (t_id n) a with
                                               | None => None
                                               | Some o => Some (o, derefd (w_heap w) o) end) (preorder t))
                    ts (w_stores w)).

Record hstep := mkHStep { s_tree : nat; s_api : hapi; s_weights : option (list Z); s_sbc : bool;
                          s_res : res Z; s_sbc_out : option (list Z); s_snap : hsnap }.
Record hcase := mkHCase { hc_trees : list tree; hc_maps : list matrix; hc_init : hsnap; hc_steps : list hstep }.

Fixpoint alloc_maps (h : heap) (ms : list matrix) : heap * list omap :=
  match ms with
  | [] => (h, [])
  | m :: r => let (h1, om) := alloc_map h m in let (h2, oms) := alloc_maps h1 r in (h2, om :: oms)
  end.

Definition world0 (c : hcase) : world :=
  let (h, oms) := alloc_maps (mkHeap 0 []) (hc_maps c) in
  mkW h (map (fun _ => []) (hc_trees c)) oms.

(* the model's run: the snapshots and results after every step *)
Fixpoint hrun (ts : list tree) (w : world) (steps : list hstep) : list ((res Z * option (list Z)) * hsnap) :=
  match steps with
  | [] => []
  | s :: r =>
    let (w', ro) := hstep_run ts w (s_tree s) (s_api s) (s_weights s) (s_sbc s) in
    (ro, osnap ts w') :: hrun ts w' r
  end.

(* object identities are compared up to renaming: both sides are numbered by first appearance in
   the sequence of all snapshots (the harness does so already; the model's ids are allocation order) *)
Definition snap_ids (s : hsnap) : list Z :=
  flat_map (fun m => map (fun e => fst (snd e)) m) (hs_maps s) ++
  flat_map (fun at_ => flat_map (fun e => match e with None => [] | Some (o, _) => [o] end) at_) (hs_trees s).

Definition snap_vals (s : hsnap) : hsnap :=
  mkHSnap (map (fun m => map (fun e => (fst e, (0, snd (snd e)))) m) (hs_maps s))
          (map (fun at_ => map (fun e => match e with None => None | Some (_, v) => Some (0, v) end) at_) (hs_trees s)).

Fixpoint canon_go (seen : list (Z * Z)) (n : Z) (l : list Z) : list Z :=
  match l with
  | [] => []
  | x :: r =>
    match lookup x seen with
    | Some c => c :: canon_go seen n r
    | None => n :: canon_go ((x, n) :: seen) (n + 1) r
    end
  end.
Definition canon (l : list Z) : list Z := canon_go [] 0 l.

Definition row_eqb (a b : Z * (Z * ssl)) : bool :=
  Z.eqb (fst a) (fst b) && Z.eqb (fst (snd a)) (fst (snd b)) && ssl_eqb (snd (snd a)) (snd (snd b)).
Definition attr_eqb (a b : Z * ssl) : bool := Z.eqb (fst a) (fst b) && ssl_eqb (snd a) (snd b).
Definition hsnap_eqb (a b : hsnap) : bool :=
  list_eqb (list_eqb row_eqb) (hs_maps a) (hs_maps b) &&
  list_eqb (list_eqb (option_eqb attr_eqb)) (hs_trees a) (hs_trees b).

Definition hcase_model (c : hcase) := hrun (hc_trees c) (world0 c) (hc_steps c).

Definition hcase_ok (c : hcase) : bool :=
  let w0 := world0 c in
  let run := hcase_model c in
  let msnaps := osnap (hc_trees c) w0 :: map snd run in
  let esnaps := hc_init c :: map s_snap (hc_steps c) in
  list_eqb hsnap_eqb (map snap_vals msnaps) (map snap_vals esnaps) &&
  list_eqb Z.eqb (canon (flat_map snap_ids msnaps)) (flat_map snap_ids esnaps) &&
  list_eqb (fun a b => res_eqb Z.eqb (fst a) (fst b) && option_eqb (list_eqb Z.eqb) (snd a) (snd b))
           (map fst run) (map (fun s => (s_res s, s_sbc_out s)) (hc_steps c)).

Definition hcase_show (c : hcase) := (osnap (hc_trees c) (world0 c), hcase_model c).
