(* C05, wave 8: histories with REFUSED trees.  A collection is offered trees it documents to refuse -
   a tree over a foreign namespace (TreeArray.add_tree: TaxonNamespaceIdentityError; the assert of
   SplitDistribution.count_splits_on_tree), a non-ultrametric tree while node ages are tracked
   (UltrametricityError out of tree.calc_node_ages inside count_splits_on_tree), a tree of the other
   rooting (MixedRootingError, already in C05Model.ta_add_tree) - the caller catches the error and the
   history goes on.

   The state the distribution is left in by a refused count is NOT transcribed by hand: it is the
   `self` with which the GENERATED code (Gen/SplitDist.v gen_count_splits_on_tree_exc, compiled from the
   statements that precede the raising call) reaches the refusal.  What that state is allowed to be is
   proved in Proofs/C05GenRefuse.v.  Definitions only. *)
From Coq Require Import ZArith QArith List Bool.
From DV Require Import Model.PyPrims Gen.Consts Model.C05Model Model.C05Model2 Model.C05GenPrims Gen.SplitDist.
Import ListNotations.
Open Scope Z_scope.

Inductive refusal := RNotUltrametric | RForeignNs.

(* what the harness says about pool tree i (from the SPEC tree, not from the library) *)
Definition tree_flags (r : option refusal) : bool * bool :=     (* (ns_ok, ages_ok) *)
  match r with
  | None => (true, true)
  | Some RNotUltrametric => (true, false)
  | Some RForeignNs => (false, true)
  end.

(* SplitDistribution.count_splits_on_tree on a tree with these flags: the distribution afterwards and
   the outcome (generated code; summary caches are not part of `sd`) *)
Definition offer_sd (c : config) (d : sd) (t : tree_in) (r : option refusal)
  : sd * res (list Z * list (option Q) * list (option Q)) :=
  let '(ns_ok, ages_ok) := tree_flags r in
  let '(x, o) := gen_count_splits_on_tree_exc c (mkSdx d None None 0) t false (default_len c) ns_ok ages_ok in
  (x_sd x, o).

(* is the offer refused at all (a non-ultrametric tree is accepted when node ages are ignored) *)
Definition refused (c : config) (r : option refusal) : bool :=
  match r with
  | None => false
  | Some RForeignNs => true
  | Some RNotUltrametric => negb (ignore_ages c)
  end.

(* TreeArray.add_tree: namespace identity check, validate_rooting (which may SET _is_rooted_trees),
   then count_splits_on_tree; the lists of the array are extended only after it returned *)
Definition ta_offer (forwards : bool) (c : config) (a : ta) (t : tree_in) (r : option refusal) : ta * res unit :=
  match r with
  | Some RForeignNs => (a, Err ValueErr)
  | _ =>
    let tr := match t_rooting t with
              | None => if treearray_none_rooting_is_unrooted then Some false else None
              | x => x
              end in
    let vr := match ta_rooting a with
              | None => Ok tr
              | Some b => if orooting_eqb (Some b) tr then Ok (Some b) else Err ValueErr
              end in
    match vr with
    | Ok r' =>
      let '(d', o) := offer_sd (ta_sd_cfg forwards c) (ta_sd a) t r in
      match o with
      | Ok _ => match ta_add_tree forwards c a t with
                | Ok a' => (a', Ok tt)
                | Err e => (a, Err e)
                | OutOfFuel => (a, OutOfFuel)
                end
      | Err e => (mkTa r' (ta_splits a) (ta_elens a) (ta_leafsets a) (ta_weights a) d', Err e)
      | OutOfFuel => (a, OutOfFuel)
      end
    | Err e => (a, Err e)
    | OutOfFuel => (a, OutOfFuel)
    end
  end.

Definition bad_of (bad : list (option refusal)) (i : nat) : option refusal := nth i bad None.

(* first refusal met while a FRESH collection is filled with these trees (Update builds the other
   collection first; the receiving collection is not touched when that fails) *)
Fixpoint first_refusal (c : config) (bad : list (option refusal)) (l : list (nat * option Q)) : option refusal :=
  match l with
  | [] => None
  | (i, _) :: rest => if refused c (bad_of bad i) then bad_of bad i else first_refusal c bad rest
  end.

Definition refusal_err (p : path) (r : refusal) : err :=
  match r, p with
  | RForeignNs, PathSD => AssertErr
  | _, _ => ValueErr
  end.

Definition step3 (e : env) (ua : list (option bool)) (bad : list (option refusal)) (w : world) (o : op2)
  : world * out2 :=
  let a := w_ta w in
  match o with
  | O1 (OCount i wt) =>
    match bad_of bad i with
    | None => step2 e ua w o
    | Some r =>
      match pool_tree e i wt with
      | None => (w, U1 (UErr IndexErr))
      | Some t =>
        match e_path e with
        | PathSD =>
          let '(d', x) := offer_sd (e_cfg e) (ta_sd a) t (Some r) in
          (mkWorld (with_sd a d'), U1 (match x with Ok _ => UUnit | Err er => UErr er | OutOfFuel => UErr Hang end))
        | PathTA =>
          let '(a', x) := ta_offer (e_forwards e) (e_cfg e) a t (Some r) in
          (mkWorld a', U1 (match x with Ok _ => UUnit | Err er => UErr er | OutOfFuel => UErr Hang end))
        end
      end
    end
  | O1 (OUpdate l) =>
    match first_refusal (e_cfg e) bad l with
    | None => step2 e ua w o
    | Some r =>
      (* the other collection could not be built; on the TreeArray path an earlier rooting conflict inside
         the other collection is a ValueError as well *)
      (w, U1 (UErr (match e_path e with
                    | PathSD => refusal_err PathSD r
                    | PathTA => ValueErr
                    end)))
    end
  | _ => step2 e ua w o
  end.

Fixpoint run3 (e : env) (ua : list (option bool)) (bad : list (option refusal)) (w : world) (ops : list op2)
  : list (out2 * snapshot) :=
  match ops with
  | [] => []
  | o :: r => let '(w', x) := step3 e ua bad w o in (x, snap w') :: run3 e ua bad w' r
  end.

Record case3 := mkCase3 {
  c3_case : case2;
  c3_bad : list (option refusal)      (* per pool tree: must it be refused, and why *)
}.

Definition case3_run (c : case3) : list (out2 * snapshot) :=
  let c2 := c3_case c in
  run3 (c2_env c2) (c2_unrooted_after c2) (c3_bad c) (mkWorld (ta_empty (c2_init_rooting c2))) (c2_ops c2).

Definition case3_ok (c : case3) : bool :=
  let c2 := c3_case c in
  (negb (c2_in_quantifier c2) || case2_hyps c2)
  && list_eqb (fun m ob => out2_close (fst m) (fst ob) && snap_eqb (snd m) (snd ob)) (case3_run c) (c2_expected c2).

(* ---------------------------------------------------------------- specification vocabulary *)

(* the distribution with another tree count (everything else as it is) *)
Definition set_total (d : sd) (n : Z) : sd :=
  mkSd n (sum_w d) (rootings d) (counts d) (elens d) (nages d) (freqs d) (counted_for_freqs d).

(* a caller offers trees one after the other to a SplitDistribution, catches every refusal and carries on *)
Definition offer_all (c : config) (d : sd) (l : list (tree_in * option refusal)) : sd :=
  fold_left (fun d p => fst (offer_sd c d (fst p) (snd p))) l d.

(* the trees that were not refused *)
Definition accepted (c : config) (l : list (tree_in * option refusal)) : list tree_in :=
  map fst (filter (fun p => negb (refused c (snd p))) l).
