(* C05: hand model of the TreeArray functions that return a tree (restore_tree,
   maximum_product_of_split_support_tree, maximum_sum_of_split_support_tree,
   TreeArray.consensus_tree), written over the functions of C05Model.v (ta_scores, summarize_tree,
   consensus); definitions only.

   `passes` : does Tree.from_split_bitmasks hand is_rooted to the Bipartition it builds for an
   inserted node (Gen/SplitDistTa.fsb_bipartition_passes_is_rooted).  With passes = false the
   inserted nodes of a restored tree carry unrooted-normalised split bitmasks whatever the rooting
   and maximum_*_tree (which summarises with is_bipartitions_updated=True) annotates a rooted
   clade that contains the first taxon with the frequency of the complement mask (known finding
   mcc-rooted-support-normalized-split). *)
From Coq Require Import ZArith QArith Qabs Qreduction List Bool String.
From DV Require Import Model.PyPrims Gen.BitFns Model.C05Model Model.C05Spec Model.C05Model2
     Model.C05GenPrims Model.C05GenPrims2 Model.C05GenPrims3.
Import ListNotations.
Open Scope Z_scope.

Definition conv_out (o : node_out) : nodev := mkNv (n_split o) (n_len o) (n_age o) (Some (n_support o)).

(* restore_tree(index=i): the stored splits of tree i (IndexError when there is no such tree),
   the stored edge lengths keyed by split unless the array ignores edge lengths *)
Definition ta_restore_rt (c : config) (a : ta) (all : Z) (bits : list Z) (i : nat) : res rtree :=
  match nth_error (ta_splits a) i with
  | None => Err IndexErr
  | Some ss =>
    if ignore_len c then py_from_split_bitmasks_el all bits (ta_rooting a) ss None
    else match nth_error (ta_elens a) i with
         | None => Err IndexErr
         | Some el => py_from_split_bitmasks_el all bits (ta_rooting a) ss (Some (py_dict_zip ss el))
         end
  end.

(* self._split_distribution.summarize_splits_on_tree(tree=t, is_bipartitions_updated=True, **o) *)
Definition summarize_target (passes : bool) (a : ta) (all : Z) (o : sopts) (t : mtree) : res (ta * mtree) :=
  let '(d', r) := summarize_tree (ta_sd a) o (py_rtree_target passes all (mt_tree t)) in
  match r with
  | Ok outs => Ok (with_sd a d', mkMt (mt_tree t) (mt_score t) (Some (map conv_out outs)))
  | Err e => Err e
  | OutOfFuel => OutOfFuel
  end.

(* restore_tree(index, summarize_splits_on_tree=b, **o) *)
Definition restore_tree (passes : bool) (c : config) (a : ta) (all : Z) (bits : list Z) (i : nat) (b : bool) (o : sopts)
  : res (ta * mtree) :=
  match ta_restore_rt c a all bits i with
  | Ok rt => if b then summarize_target passes a all o (py_mt_new rt) else Ok (a, py_mt_new rt)
  | Err e => Err e
  | OutOfFuel => OutOfFuel
  end.

(* maximum_product_of_split_support_tree (product = true) / maximum_sum_of_split_support_tree:
   the tree at the FIRST index attaining the maximum of the score list, restored, carrying that
   score, summarised when asked; an empty array raises TypeError (index None) *)
Definition mcc_tree (passes product : bool) (c : config) (a : ta) (all : Z) (bits : list Z)
           (ext summarize : bool) (o : sopts) : res (ta * mtree) :=
  let '(a1, (sc, idx)) := ta_scores product a ext in
  match idx with
  | None => Err TypeErr
  | Some i =>
    match ta_restore_rt c a1 all bits i with
    | Ok rt =>
      let t := mkMt rt (Some (nth i sc 0%Q)) None in
      if summarize then summarize_target passes a1 all o t else Ok (a1, t)
    | Err e => Err e
    | OutOfFuel => OutOfFuel
    end
  end.

(* TreeArray.consensus_tree: the distribution's consensus with is_rooted = the array's rooting *)
Definition ta_consensus (a : ta) (all : Z) (bits : list Z) (min_freq : option Q) : ta * (list Z * ctree) :=
  let r := consensus (ta_sd a) all bits min_freq (ta_rooting a) in
  (with_sd a (fst r), (snd (fst (fst (snd r))), snd (fst (snd r)))).
