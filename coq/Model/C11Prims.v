(* C11: run-time library of the translator py/dv/gen_containers.py (coq/Gen/Containers.v).

   Each definition states the Python semantics the translator ASSUMES for one construct it emits; the
   translated method bodies themselves are read off the AST.  Objects are handles (oid) into the stores
   of Model/C11Model.v `state`; a translated method denotes
        state -> args -> R result        with R A = state * res A
   i.e. the state as it is when the call ends - also when it ends by an exception (mutations made before
   the raise stay) - and the returned value / exception class / OutOfFuel (non-termination). *)
From Coq Require Import List Bool Arith ZArith.
From DV Require Import Model.PyPrims Model.C11Model.
Import ListNotations.
Open Scope nat_scope.

Definition R (A : Type) : Type := (state * res A)%type.

(* sequencing: the continuation runs in the state the first computation left, unless it raised *)
Definition bindR {A B} (x : R A) (k : state -> A -> R B) : R B :=
  match x with
  | (st, Ok a) => k st a
  | (st, Err e) => (st, Err e)
  | (st, OutOfFuel) => (st, OutOfFuel)
  end.

(* `for x in xs: body` over a snapshot xs; `carried` = the variables that live across iterations *)
Fixpoint for_each {A C} (xs : list A) (body : state -> A -> C -> R C) (st : state) (c : C) : R C :=
  match xs with
  | [] => (st, Ok c)
  | x :: r => bindR (body st x c) (fun st' c' => for_each r body st' c')
  end.

(* `for t0 in other:` where `other` is a TreeList and the body appends to `self._trees`: list iteration is
   live, so when `other` IS `self` every iteration extends the list being iterated and the loop never ends;
   otherwise the iterated list is not touched and a snapshot is exact *)
Definition for_each_tree_of {C} (other self : oid) (body : state -> oid -> C -> R C) (st : state) (c : C) : R C :=
  if Nat.eqb other self then (st, OutOfFuel) else for_each (l_trees (getlist st other)) body st c.

(* `for node in tree:` (preorder) restricted to what the model keeps of a node: its taxon, nodes without a
   taxon left out (every translated body starts with `if node.taxon is not None`).  The body yields the
   node's taxon after the iteration (`node.taxon = t`, or the old one).  Assignments are written back in
   place: when the body raises, the nodes already visited keep their new taxa. *)
Fixpoint for_nodes_go {C} (refs : list oid) (body : state -> oid -> C -> R (oid * C)) (st : state) (c : C)
  : state * res C * list oid :=
  match refs with
  | [] => (st, Ok c, [])
  | x :: r =>
    match body st x c with
    | (st1, Ok (y, c1)) => let '(st2, o, r') := for_nodes_go r body st1 c1 in (st2, o, y :: r')
    | (st1, Err e) => (st1, Err e, x :: r)
    | (st1, OutOfFuel) => (st1, OutOfFuel, x :: r)
    end
  end.
Definition set_tree_ns (st : state) (t n : oid) : state := set_tree st t (mkTree n (t_refs (gettree st t))).
Definition set_tree_refs (st : state) (t : oid) (refs : list oid) : state :=
  set_tree st t (mkTree (t_ns (gettree st t)) refs).
Definition for_nodes {C} (tree : oid) (body : state -> oid -> C -> R (oid * C)) (st : state) (c : C) : R C :=
  let '(st1, o, refs') := for_nodes_go (t_refs (gettree st tree)) body st c in
  (set_tree_refs st1 tree refs', o).

(* attribute assignment on the other objects *)
Definition set_list_ns (st : state) (l n : oid) : state := set_list st l (mkTL n (l_trees (getlist st l))).
Definition set_list_trees (st : state) (l : oid) (ts : list oid) : state := set_list st l (mkTL (l_ns (getlist st l)) ts).
Definition set_mat_ns (st : state) (m n : oid) : state := set_mat st m (mkMat n (m_rows (getmat st m))).
Definition set_mat_rows (st : state) (m : oid) (rows : list oid) : state := set_mat st m (mkMat (m_ns (getmat st m)) rows).
Definition set_ds_att (st : state) (d : oid) (a : option oid) : state :=
  let D := getds st d in set_ds st d (mkDS a (d_nss D) (d_lists D) (d_mats D)).
Definition set_ds_nss (st : state) (d : oid) (x : list oid) : state :=
  let D := getds st d in set_ds st d (mkDS (d_att D) x (d_lists D) (d_mats D)).
Definition set_ds_lists (st : state) (d : oid) (x : list oid) : state :=
  let D := getds st d in set_ds st d (mkDS (d_att D) (d_nss D) x (d_mats D)).
Definition set_ds_mats (st : state) (d : oid) (x : list oid) : state :=
  let D := getds st d in set_ds st d (mkDS (d_att D) (d_nss D) (d_lists D) x).

(* Python list methods on `_trees` *)
Definition py_list_insert (l : list oid) (i : Z) (x : oid) : list oid := insert_at l (clamp_index (length l) i) x.
Definition py_list_setitem (l : list oid) (i : Z) (x : oid) : res (list oid) :=
  match norm_index (length l) i with Some j => Ok (upd l j x) | None => Err IndexErr end.
Definition py_list_setslice (l : list oid) (a b : option Z) (v : list oid) : list oid :=
  let '(lo, hi) := slice_bounds (length l) a b in slice_set l lo hi v.
Definition py_list_getslice (l : list oid) (a b : option Z) : list oid :=
  let '(lo, hi) := slice_bounds (length l) a b in slice_get l lo hi.
Definition py_list_pop (l : list oid) (i : Z) : res (oid * list oid) :=
  match norm_index (length l) i with Some j => Ok (nth j l 0, remove_nth l j) | None => Err IndexErr end.
Definition py_list_remove (l : list oid) (x : oid) : res (list oid) :=
  match remove_first x l with Some r => Ok r | None => Err ValueErr end.
(* an index is an int or a slice(a, b) (step 1) *)
Inductive pyindex := IdxInt (i : Z) | IdxSlice (a b : option Z).

(* OrderedSet.add *)
Definition oset_add (x : oid) (l : list oid) : list oid := add_uniq x l.

(* dict keyed by Taxon objects -> Taxon (taxon_mapping_memo): get(k, None), d[k] = v *)
Definition memo_get (m : list (oid * oid)) (k : oid) : option oid := alookup k m.
Definition memo_set (m : list (oid * oid)) (k v : oid) : list (oid * oid) := (k, v) :: m.

(* _taxon_sequence_map: only the keys are modelled, in dict (insertion) order.
   d[t] = d[x] : KeyError when x is missing; an existing key keeps its place, a new one goes last;
   del d[x]    : KeyError when x is missing *)
Definition rows_copy_item (rows : list oid) (t x : oid) : res (list oid) :=
  if memb x rows then Ok (add_uniq t rows) else Err KeyErr.
Definition rows_del (rows : list oid) (x : oid) : res (list oid) :=
  if memb x rows then Ok (remove_id x rows) else Err KeyErr.

(* memo of copy.deepcopy as Tree._clone_from prepares it: memo[id(namespace)] and memo[id(taxon)] *)
Record dmemo := mkDM { dm_ns : list (oid * oid); dm_tax : list (oid * oid) }.
Definition dmemo_empty : dmemo := mkDM [] [].
Definition dmemo_set_ns (m : dmemo) (k v : oid) : dmemo := mkDM ((k, v) :: dm_ns m) (dm_tax m).
Definition dmemo_set_taxon (m : dmemo) (k v : oid) : dmemo := mkDM (dm_ns m) ((k, v) :: dm_tax m).
(* copy.deepcopy(tree, memo): a new Tree object; its namespace attribute and the taxa on its nodes are what
   the memo maps them to; a taxon the memo does not cover is deep-copied (a new Taxon in no namespace), an
   un-mapped namespace would be deep-copied too (modelled as a new empty namespace object - never happens
   after _clone_from) *)
Definition deepcopy_tree (st : state) (tree : oid) (m : dmemo) : R oid :=
  let t0 := gettree st tree in
  let '(st0, n) := match alookup (t_ns t0) (dm_ns m) with
                   | Some n => (st, n)
                   | None => alloc_ns st (ns_cs st (t_ns t0))
                   end in
  let '(st1, refs', _) := clone_refs st0 (t_refs t0) (dm_tax m) in
  let '(st2, c) := alloc_tree st1 (mkTree n refs') in
  (st2, Ok c).

(* constructors *)
Definition new_namespace (st : state) : R oid := let '(st1, n) := alloc_ns st false in (st1, Ok n).
Definition new_treelist (st : state) (n : oid) : R oid := let '(st1, l) := alloc_list st (mkTL n []) in (st1, Ok l).
(* Tree(seed_node=<nodes carrying refs>, taxon_namespace=n): the constructor ends with update_taxon_namespace *)
Definition new_tree_from_seed (st : state) (n : oid) (refs : list oid) : R oid :=
  let '(st1, t) := alloc_tree (add_members st n refs) (mkTree n refs) in (st1, Ok t).

(* `x = process_kwargs_dict_for_taxon_namespace(kwargs, default)` : kwargs.pop("taxon_namespace", default) *)
Definition kw_pop_ns (kw : option oid) (default : oid) : oid := match kw with Some n => n | None => default end.
(* a keyword forwarded through **kwargs, or the callee's default *)
Definition kw_default {A} (kw : option A) (d : A) : A := match kw with Some a => a | None => d end.

Section WithLower.
Variable lower : lbl -> lbl.
(* TaxonNamespace methods (translated for C10 in Gen/Namespace.v; here by their C11 model) *)
Definition ns_require_taxon (st : state) (n : oid) (l : lbl) : R oid :=
  let '(st1, x) := require_taxon lower st n l (ns_cs st n) in (st1, Ok x).
Definition ns_get_taxon (st : state) (n : oid) (l : lbl) : option oid := first_match lower st n (ns_cs st n) l.
End WithLower.
Definition ns_new_taxon (st : state) (n : oid) (l : lbl) : R oid :=
  let '(st1, x) := new_taxon st n l in (st1, Ok x).
Definition ns_add_taxon (st : state) (n x : oid) : state := add_member st n x.
(* remove_taxon: ValueError when the taxon is not a member *)
Definition ns_remove_taxon (st : state) (n x : oid) : R unit :=
  if memb x (members st n) then (set_members st n (remove_id x (members st n)), Ok tt) else (st, Err ValueErr).

(* l[i] / namespace[i] with an int index: IndexError outside -len .. len-1 *)
Definition py_list_getitem (l : list oid) (i : Z) : res oid :=
  match norm_index (length l) i with Some j => Ok (nth j l 0) | None => Err IndexErr end.
Definition ns_getitem (st : state) (n : oid) (i : Z) : res oid := py_list_getitem (members st n) i.
