(* C02 correspondence cases for the NEXUS layer (Model/C02Nexus.v). *)
From Coq Require Import ZArith List Bool.
From DV Require Import Model.PyPrims Gen.CharClasses Model.Tokenizer Model.Newick Model.C02Model Model.C02Nexus.
Import ListNotations.
Open Scope Z_scope.

Definition upper_char (tbl : list (Z * Z)) (c : Z) : Z :=
  if (97 <=? c) && (c <=? 122) then c - 32
  else match find (fun p => fst p =? c) tbl with Some p => snd p | None => c end.
Definition upper_with (tbl : list (Z * Z)) (s : str) : str := map (upper_char tbl) s.

Definition nread_result := nres (list (list str) * list (nat * list (ptree_result str))).

Definition nres_eqb {A} (eqb : A -> A -> bool) (a b : nres A) : bool :=
  match a, b with
  | NOk x, NOk y => eqb x y
  | NErr e, NErr f => err_eqb e f
  | NFuel, NFuel => true
  | NUnmodelled, NUnmodelled => true
  | _, _ => false
  end.

Definition nread_eqb (a b : nread_result) : bool :=
  nres_eqb (fun x y => list_eqb (list_eqb str_eqb) (fst x) (fst y)
                       && list_eqb (fun p q => Nat.eqb (fst p) (fst q) && list_eqb pr_eqb (snd p) (snd q)) (snd x) (snd y)) a b.

Record ncase : Type := mkNCase {
  nc_lower : list (Z * Z);
  nc_upper : list (Z * Z);
  nc_floats : list (str * option str);
  nc_wflags : list bool;          (* as C02Model.c_wflags *)
  nc_translate : bool;            (* translate_tree_taxa=True *)
  nc_ns : list str;               (* labels of the namespace, in its current order *)
  nc_accs : list nat;             (* accession index of every member (observed on the implementation) *)
  nc_trees : list (option bool * ntree_s);
  nc_written : str;
  nc_ropts : ropts;
  nc_text : str;
  nc_read : nread_result
}.

Definition ncase_wopts (c : ncase) : wopts :=
  let f := nc_wflags c in
  mkWopts (nthb f 0) (nthb f 1) (nthb f 2) (nthb f 3) (nthb f 4) (nthb f 5) (nthb f 6) (nthb f 7) (fun l => l).

Definition ncase_write (c : ncase) : str :=
  write_nexus_acc str (fun x => x) (ncase_wopts c) (nc_translate c) (nc_ns c) (nc_accs c) (nc_trees c).

Definition ncase_read (c : ncase) : nread_result :=
  read_nexus str (parse_len_with (nc_floats c)) (lower_with (nc_lower c)) (upper_with (nc_upper c)) (nc_ropts c) (nc_text c).

Definition ncase_ok (c : ncase) : bool :=
  (is_nil (nc_written c) || (Nat.eqb (length (nc_wflags c)) 8 && str_eqb (ncase_write c) (nc_written c)))
  && nread_eqb (ncase_read c) (nc_read c).

Definition ncase_show (c : ncase) := (ncase_write c, ncase_read c).
