(* C08, second wave - additional specification vocabulary (executable definitions only). *)
From Coq Require Import ZArith List Bool Lia.
From DV Require Import Model.PyPrims Model.Tree Model.C08Model.
Import ListNotations.
Open Scope Z_scope.

(* the pass of the leaf-removal loop in which a node goes: 1 for a leaf the filter rejects,
   1 + the latest pass of its children for an internal node that is rejected and loses all its
   children, 0 for a node that is never removed *)
Fixpoint rnd (bad : npred) (t : tree) : nat :=
  match t with
  | T i x _ _ ks =>
    if bad i x && forallb (fun k => Nat.ltb 0 (rnd bad k)) ks
    then S (list_max (map (rnd bad) ks)) else O
  end.

(* the nodes that go in pass k, in the iteration (post-) order of the ORIGINAL tree *)
Definition level (bad : npred) (k : nat) (t : tree) : list Z :=
  map t_id (filter (fun n => Nat.eqb (rnd bad n) k) (postorder t)).

Definition removal_order (bad : npred) (t : tree) : list Z :=
  flat_map (fun k => level bad k t) (seq 1 (size t)).

(* Node.remove_child(node, suppress_unifurcations=True), seen as the plain removal followed by a
   local repair of the node that lost the child (length rule of the code: try: += except: pass) *)
Definition splice_try (n : tree) : list tree :=
  match t_kids n with
  | [c] => [set_len c (try_add (t_len c) (t_len n))]
  | _ => [n]
  end.

(* ... when that node has no parent: a remaining basal bifurcation with an internal child is opened *)
Definition root_absorb_try (t : tree) : tree :=
  match t_kids t with
  | [a; b] =>
    if negb (is_leaf a) then set_kids t (t_kids a ++ [set_len b (try_add (t_len b) (t_len a))])
    else if negb (is_leaf b) then set_kids t (set_len a (try_add (t_len a) (t_len b)) :: t_kids b)
    else t
  | _ => t
  end.
