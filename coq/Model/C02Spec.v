(* C02: specification-side definitions used in the statements of Props/C02.v (definitions only).
   - the property's label class (good_label), option consistency
   - the round-trip domain wf_tree, the normal form `norm`, the taxon numbering `expect` *)
From Coq Require Import ZArith List Bool.
From DV Require Import Model.PyPrims Gen.CharClasses Model.Tokenizer Model.Newick.
Import ListNotations.
Open Scope Z_scope.

Definition CR : Z := 13.

(* the property's label alphabet: printable ASCII, tab, non-ASCII *)
Definition admissible (c : Z) : bool := ((32 <=? c) && (c <=? 126)) || (c =? TAB) || (128 <=? c).

Definition no_edge_ws (l : str) : bool :=
  match l with
  | [] => true
  | c :: _ => negb (py_isspace c) && negb (py_isspace (last l c))
  end.

(* "non-empty string without leading or trailing whitespace" over that alphabet *)
Definition good_label (l : str) : bool :=
  negb (is_nil l) && forallb admissible l && no_edge_ws l.

(* the consistent writer/reader option pairs of the property:
   (unquoted_underscores=F, preserve_underscores=F, preserve_spaces=any),
   (T, T, T), and (T, T, F) for labels without a blank *)
Definition consistent_opts (uu pu ps : bool) (l : str) : bool :=
  (negb uu && negb pu) || (uu && pu && (ps || negb (zmem SPACE l))).

(* does escape_token quote the label? (the is_token_quoted flag the tokenizer will report) *)
Definition escape_quotes (protect : list Z) (preserve_spaces quote_underscores : bool) (label : str) : bool :=
  let has_prot := existsb (fun c => zmem c protect) label in
  let has_us := zmem UNDERSCORE label in
  let has_sp := zmem SPACE label in
  if negb preserve_spaces && negb has_us && negb has_prot then false
  else has_prot || has_sp || (quote_underscores && has_us).

(* F5: a label that is exactly one structural character of the tree statement *)
Definition is_struct1 (l : str) : bool :=
  match l with
  | [c] => zmem c [LPAREN; RPAREN; COMMA; COLON; SEMI]
  | _ => false
  end.

(* characters an edge-length numeral may consist of: none of the tokenizer's special characters
   and no underscore (true of repr(float) / str(int): digits . e E + - i n f a) *)
Definition numeral_char (c : Z) : bool :=
  negb (zmem c (tok_uncaptured_delimiters ++ tok_captured_delimiters ++ tok_quote_chars ++ tok_comment_begin))
  && negb (c =? UNDERSCORE).

Definition is_none {A} (o : option A) : bool := match o with None => true | Some _ => false end.

Section Spec.
Variable L : Type.

Notation ntree := (ntree L).
Notation ptree := (ptree L).

(* option setting of one round trip *)
Record rt_opts : Type := mkRtOpts {
  rt_uu : bool;          (* writer unquoted_underscores *)
  rt_ps : bool;          (* writer preserve_spaces *)
  rt_pu : bool;          (* reader preserve_underscores *)
  rt_it : bool;          (* internal nodes carry taxa (reader suppress_internal_node_taxa=False)
                            instead of labels *)
  rt_sr : bool;          (* writer suppress_rooting *)
  rt_dir : rooting_directive;  (* reader rooting *)
  rt_bc : bool           (* which form of the reader's `,)` handling (Newick.ro_blank_after_comma);
                            the round trip holds for both *)
}.

Definition rt_wopts (o : rt_opts) : wopts :=
  mkWopts false true false false (rt_sr o) false (rt_uu o) (rt_ps o) (fun l => l).

Definition rt_ropts (o : rt_opts) : ropts :=
  mkRopts (rt_dir o) false (rt_pu o) (negb (rt_it o)) false true false (rt_bc o).

(* the one string the writer renders for the node / the reader delivers for it *)
Definition tag_of (o : rt_opts) (t : ntree) : option str :=
  match t with
  | Nd tx lb _ ks => if is_nil ks then tx else if rt_it o then tx else lb
  end.

(* the tag is a taxon (leaf always; internal in taxon mode) *)
Definition tag_is_taxon (o : rt_opts) (t : ntree) : bool :=
  match t with Nd _ _ _ ks => is_nil ks || rt_it o end.

Definition label_ok (o : rt_opts) (l : str) : bool :=
  good_label l && negb (is_struct1 l) && consistent_opts (rt_uu o) (rt_pu o) (rt_ps o) l.

(* the domain of newick_roundtrip:
   - every written tag is an admissible label, not a single structural character (F5), and the
     option pair is consistent for it
   - no anonymous leaf without edge length (such a leaf is written as the empty string)
   - an internal node carries only the attribute the reader will fill (label, or taxon in taxon
     mode): Newick has one token per node *)
Fixpoint wf_tree (o : rt_opts) (t : ntree) : bool :=
  match t with
  | Nd tx lb ln ks =>
    (match tag_of o t with Some l => label_ok o l | None => true end)
    && (if is_nil ks then negb (is_none tx && is_none ln)
        else if rt_it o then is_none lb else is_none tx)
    && forallb (wf_tree o) ks
  end.

(* what the default writer options suppress: the node label of a leaf *)
Fixpoint norm (t : ntree) : ntree :=
  match t with
  | Nd tx lb ln ks => Nd tx (if is_nil ks then None else lb) ln (map norm ks)
  end.

(* taxon labels in the order their tokens appear in the statement (children before the node) *)
Fixpoint taxa_order (o : rt_opts) (t : ntree) : list str :=
  match t with
  | Nd tx lb ln ks =>
    flat_map (taxa_order o) ks ++
    (if tag_is_taxon o t then match tx with Some l => [l] | None => [] end else [])
  end.

(* the tree the reader builds: taxa numbered from i in token order *)
Fixpoint expect (o : rt_opts) (t : ntree) (i : nat) : ptree * nat :=
  match t with
  | Nd tx lb ln ks =>
    let '(pks, j) :=
        (fix go (ks : list ntree) (i : nat) : list ptree * nat :=
           match ks with
           | [] => ([], i)
           | k :: r => let '(p, j) := expect o k i in
                       let '(ps, j') := go r j in (p :: ps, j')
           end) ks i in
    let lbl := if is_nil ks then None else if rt_it o then None else lb in
    if tag_is_taxon o t
    then match tx with
         | Some _ => (PN (Some j) lbl ln [] pks, S j)
         | None => (PN None lbl ln [] pks, j)
         end
    else (PN None lbl ln [] pks, j)
  end.

Fixpoint expect_list (o : rt_opts) (ks : list ntree) (i : nat) : list ptree * nat :=
  match ks with
  | [] => ([], i)
  | k :: r => let '(p, j) := expect o k i in
              let '(ps, j') := expect_list o r j in (p :: ps, j')
  end.

(* reading the taxon numbers back as labels of a namespace *)
Fixpoint resolve (ns : list str) (p : ptree) : option ntree :=
  match p with
  | PN tx lb ln _ ks =>
    match (match tx with Some i => option_map Some (nth_error ns i) | None => Some None end) with
    | None => None
    | Some txl =>
      match (fix go (ks : list ptree) : option (list ntree) :=
               match ks with
               | [] => Some []
               | k :: r => match resolve ns k, go r with
                           | Some a, Some b => Some (a :: b)
                           | _, _ => None
                           end
               end) ks with
      | None => None
      | Some nks => Some (Nd txl lb ln nks)
      end
    end
  end.

(* the rooting state delivered by the reader for a tree written with state r *)
Definition expected_rooting (o : rt_opts) (r : option bool) : option bool :=
  parse_tree_rooting_state (rt_ropts o)
    (if rt_sr o then [] else match r with Some true => [38; 82] | Some false => [38; 85] | None => [] end).

(* the reader options restore the rooting state *)
Definition rooting_consistent (o : rt_opts) (r : option bool) : bool :=
  if rt_sr o then
    match r, rt_dir o with
    | Some true, ForceRooted | Some true, DefaultRooted => true
    | Some false, ForceUnrooted | Some false, DefaultUnrooted => true
    | None, NoDirective => true
    | _, _ => false
    end
  else
    match r, rt_dir o with
    | _, NoDirective => true
    | Some true, (DefaultRooted | DefaultUnrooted | ForceRooted) => true
    | Some false, (DefaultRooted | DefaultUnrooted | ForceUnrooted) => true
    | _, _ => false
    end.

End Spec.
