(* C02: writer options that suppress attributes (definitions only).
   suppress_edge_lengths, suppress_leaf_taxon_labels, suppress_internal_taxon_labels,
   suppress_internal_node_labels = True: the document is the one the default options write for the
   tree with those attributes erased. *)
From Coq Require Import ZArith List Bool.
From DV Require Import Model.PyPrims Gen.CharClasses Model.Tokenizer Model.Newick Model.C02Spec.
Import ListNotations.

Record sflags : Type := mkSflags {
  sf_edge_lengths : bool;        (* suppress_edge_lengths *)
  sf_leaf_taxon : bool;          (* suppress_leaf_taxon_labels *)
  sf_internal_taxon : bool;      (* suppress_internal_taxon_labels *)
  sf_internal_label : bool       (* suppress_internal_node_labels *)
}.

Definition with_flags (o : wopts) (f : sflags) : wopts :=
  mkWopts (sf_leaf_taxon f) (wo_suppress_leaf_node_labels o) (sf_internal_taxon f) (sf_internal_label f)
          (wo_suppress_rooting o) (sf_edge_lengths f) (wo_unquoted_underscores o) (wo_preserve_spaces o)
          (wo_taxon_token o).

Section Erase.
Variable L : Type.

Fixpoint erase (f : sflags) (t : ntree L) : ntree L :=
  match t with
  | Nd tx lb ln ks =>
    let leaf := is_nil ks in
    Nd (if leaf then (if sf_leaf_taxon f then None else tx) else (if sf_internal_taxon f then None else tx))
       (if leaf then lb else if sf_internal_label f then None else lb)
       (if sf_edge_lengths f then None else ln)
       (map (erase f) ks)
  end.

End Erase.
