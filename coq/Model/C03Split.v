(* C03 / C07 (wave 6): the edge split of Tree.reroot_at_midpoint as a heap program of its own.

   `mid_split old_tail target head_len tail_len` is, literally, the six pointer statements that
   HeapOps.reroot_at_midpoint runs in its MidEdge branch
       old_tail.remove_child(target); ns = Node(); ns.add_child(target); target.edge.length = head_len;
       old_tail.add_child(ns); ns.edge.length = tail_len
   (Proofs/C03GenSplit.v: mid_edge_branch_split, by computation).  The translator compiles the same
   statements from the source into Gen/Mutators.v Tree_reroot_at_midpoint__edge_split; the two are
   proved equal on every heap (Props/C03Gen.v midpoint_split_refines).

   `reroot_at_midpoint_with split` is HeapOps.reroot_at_midpoint with that block replaced by a
   parameter: instantiated with the GENERATED block it is proved equal to HeapOps.reroot_at_midpoint
   (Props/C03Gen.v reroot_at_midpoint_generated_split), so that op_wf / history_wf / the C07 heap-level
   theorems speak about a program whose pointer statements are compiled from the source.
   Definitions only. *)
From Coq Require Import ZArith List Bool.
From DV Require Import Model.PyPrims Model.Tree Model.Heap Model.HeapOps Model.MutPrims.
Import ListNotations.
Open Scope Z_scope.

Definition mid_split (old_tail target : Z) (head_len tail_len : option Z) (h : heap) : hres :=
  hdo h1 <- remove_child_plain old_tail target h ;;
  let ns := next h1 in
  let h2 := alloc None None None h1 in
  hdo h3 <- add_child ns target h2 ;;
  let h4 := set_elen target head_len h3 in
  hdo h5 <- add_child old_tail ns h4 ;;
  HOk (set_elen ns tail_len h5).

Definition split_fn := Z -> Z -> option Z -> option Z -> heap -> mres heap Z.

Definition reroot_at_midpoint_with (split : split_fn) (tx1 tx2 : Z) (ub su cb : bool) (h : heap) : hres :=
  with_sub h (seed h) (fun t =>
    let hits := filter (fun nd => match taxon h nd with
                                  | Some x => Z.eqb x tx1 || Z.eqb x tx2 | None => false end)
                       (leaf_ids t) in
    match hits with
    | s0 :: s1 :: _ =>
      match ancs (fuel_of h) h s0, ancs (fuel_of h) h s1 with
      | Some a0, Some a1 =>
        match dist_from_root h s0 a0, dist_from_root h s1 a1 with
        | Ok d0, Ok d1 =>
          let '(n1, an1, an2) := if d0 <? d1 then (s1, a1, a0) else (s0, a0, a1) in
          match first_common an1 an2 with
          | None => HFuel
          | Some mrca =>
            let up1 := upto mrca an1 in
            let up2 := upto mrca an2 in
            let dist := fold_right (fun a s => len0 h a + s) 0 (up1 ++ up2) in
            let plen := dist / 2 in
            hdo h1 <-
              match mid_loop h up1 plen with
              | MidTypeErr => HErr TypeErr h
              | MidNone => HErr AssertErr h
              | MidNode b => reseed_at b false false su h
              | MidEdge target head_len =>
                match elen h target, parent h target with
                | Some tl, Some old_tail =>
                  let tail_len := tl - head_len in
                  match split old_tail target (Some head_len) (Some tail_len) h with
                  | MOk ns h6 => reseed_at ns false false su h6
                  | MErr e h6 => HErr e h6
                  | MFuel => HFuel
                  end
                | _, _ => HErr TypeErr h
                end
              end ;;
            let h2 := set_rooted (Some true) h1 in
            if ub then encode_structural false cb h2 else HOk h2
          end
        | _, _ => HErr TypeErr h
        end
      | _, _ => HFuel
      end
    | _ => HErr AttrErr h
    end).
