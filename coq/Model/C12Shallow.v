(* C12, second wave: the shallow copy routes on the object heap of Model/C12Model.v.

   copy.copy(x) / x.clone(0) for a TreeList and a CharacterMatrix (TreeList.__copy__,
   CharacterMatrix.__copy__):

       other = cls(label=self.label, taxon_namespace=self.taxon_namespace)   # a default-constructed object
       other._trees = list(self._trees)                 # TreeList
       for taxon in self._taxon_sequence_map:           # CharacterMatrix
           other._taxon_sequence_map[taxon] = self._taxon_sequence_map[taxon]
       memo = {id(self): other}
       other.deep_copy_annotations_from(self, memo)

   A default-constructed object has the attributes its class's __init__ gives it, nothing else.  The
   route is described by a template: for each attribute name of the class, how the new object's
   attribute relates to the source's:
       FSame   the same value (label, taxon_namespace; flags and classes that __init__ sets to the
               value the source still has; the state alphabet singletons)
       FCopy   a NEW container of the same class with the same entries (`list(self._trees)`, the
               sequence map; the state_alphabets list of the fixed-alphabet matrices)
       FEmpty  a NEW EMPTY container of the same class (`comments = []`, `character_types = []`,
               `character_subsets = OrderedCaselessDict()`): the source's content is NOT carried over
   Attributes of the source that are not in the template do not exist in the copy.

   The model runs the two phases in the opposite order: first the annotations (exactly the
   deep_copy_annotations_from of Model/C12Model.v, with memo = {self: other}, the recursive calls being
   the modelled copy.deepcopy), then the attributes.  The phases write disjoint parts of the new object
   and neither reads what the other writes, but the attribute ORDER of the new object differs; the
   comparison with the implementation (iso_check2) therefore matches attribute dictionaries by key.

   TaxonNamespace(ns) / copy.copy(ns) / ns.clone(0): the constructor adds the very same Taxon objects to
   a new `_taxa` list, seeds memo with {ns: self, ns._taxa: self._taxa, t: t for every taxon} and
   deep-copies every other attribute and the annotations: it is TaxonNamespace.__deepcopy__ run with the
   taxa pre-seeded to themselves, i.e. run_seeded with seeds = the taxa (ns_copy below).

   Tree.__copy__ is taxon_namespace_scoped_copy(): route RScoped of Model/C12Model.v. *)
From Coq Require Import ZArith List Bool Lia.
From DV Require Import Model.PyPrims Model.C12Model Model.C12Spec2.
Import ListNotations.
Open Scope Z_scope.

(* attribute names with fixed prim ids (py/dv/c12_graph.py FIXED_NAMES, after the seven of C12Model) *)
Definition NM_LABEL : val := P 10.       (* "_label" *)
Definition NM_TNS : val := P 11.         (* "_taxon_namespace" *)
Definition NM_AUTOMIG : val := P 12.     (* "automigrate_taxon_namespace_on_assignment" *)
Definition NM_TREETYPE : val := P 13.    (* "tree_type" *)
Definition NM_TREES : val := P 14.       (* "_trees" *)
Definition NM_COMMENTS : val := P 15.    (* "comments" *)
Definition NM_SEQMAP : val := P 16.      (* "_taxon_sequence_map" *)
Definition NM_CHARTYPES : val := P 17.   (* "character_types" *)
Definition NM_SUBSETS : val := P 18.     (* "character_subsets" *)
Definition NM_ALPHABETS : val := P 19.   (* "state_alphabets" *)
Definition NM_DEFALPHA : val := P 20.    (* "_default_state_alphabet" *)

Inductive fmode := FSame | FCopy | FEmpty.

Definition template := list (val * fmode).

Definition treelist_template : template :=
  [(NM_LABEL, FSame); (NM_TNS, FSame); (NM_AUTOMIG, FSame); (NM_TREETYPE, FSame); (NM_TREES, FCopy);
   (NM_COMMENTS, FEmpty)].

(* DnaCharacterMatrix and the other fixed-alphabet matrices *)
Definition matrix_template : template :=
  [(NM_LABEL, FSame); (NM_TNS, FSame); (NM_AUTOMIG, FSame); (NM_SEQMAP, FCopy); (NM_CHARTYPES, FEmpty);
   (NM_COMMENTS, FEmpty); (NM_SUBSETS, FEmpty); (NM_ALPHABETS, FCopy); (NM_DEFALPHA, FSame)].

(* ContinuousCharacterMatrix has no state alphabets *)
Definition cont_matrix_template : template :=
  [(NM_LABEL, FSame); (NM_TNS, FSame); (NM_AUTOMIG, FSame); (NM_SEQMAP, FCopy); (NM_CHARTYPES, FEmpty);
   (NM_COMMENTS, FEmpty); (NM_SUBSETS, FEmpty)].

Definition is_container (kd : kind) : bool :=
  match kd with KList | KDict | KCDict | KSet | KTuple => true | _ => false end.

(* the attributes of the new object y, from the attributes `src` of the source *)
Fixpoint shallow_fields (s : st) (y : Z) (src : list (val * val)) (tmpl : template) : res st :=
  match tmpl with
  | [] => Ok s
  | (k, m) :: r =>
    match bget src k with
    | None => Err AttrErr
    | Some v =>
      match m with
      | FSame => shallow_fields (put s y k v) y src r
      | _ =>
        match v with
        | P _ => Err TypeErr
        | R c =>
          match hget (sh s) c with
          | None => Err OtherErr
          | Some co =>
            if is_container (okind co) then
              let '(s1, c') := alloc s (mkObj (ocls co) (okind co) (match m with FCopy => obody co | _ => [] end)) in
              (* `note` is the ghost record of (source container, new container); the interpreter never reads it *)
              shallow_fields (put (note s1 c c') y k (R c')) y src r
            else Err TypeErr
          end
        end
      end
    end
  end.

Definition shallow_copy (nf : bool) (fuel : nat) (h : heap) (root : Z) (tmpl : template) : res (st * val) :=
  match hget h root with
  | None => Err OtherErr
  | Some ob =>
    let '(s1, y) := new_copy (init_st nf h []) root ob in           (* other; memo = {id(self): other} *)
    do s2 <- deep_copy_annotations_from (dc fuel) s1 y root ;;
    do s3 <- shallow_fields s2 y (obody ob) tmpl ;;
    Ok (s3, R y)
  end.

(* specification of one attribute of the new object y (source attributes `src`, new containers are numbered
   from `base`): FSame - the same value; FCopy / FEmpty - a new container c' of the class and kind of the
   source's container c, with the same entries / with no entries *)
Definition FieldOK (h : heap) (s' : st) (y : Z) (src : list (val * val)) (base : Z) (km : val * fmode) : Prop :=
  exists v, bget src (fst km) = Some v /\
  match snd km with
  | FSame => bget (body_of s' y) (fst km) = Some v
  | m => exists c co c', v = R c /\ hget h c = Some co /\ base <= c' /\ c' <> y
           /\ bget (body_of s' y) (fst km) = Some (R c')
           /\ hget (sh s') c' = Some (mkObj (ocls co) (okind co) (match m with FCopy => obody co | _ => [] end))
  end.

(* the documented shares of the route: what the FSame attributes refer to, and the members of the FCopy
   containers *)
Fixpoint shallow_shares (h : heap) (src : list (val * val)) (tmpl : template) : list Z :=
  match tmpl with
  | [] => []
  | (k, m) :: r =>
    match bget src k, m with
    | Some (R c), FSame => [c]
    | Some (R c), FCopy => match hget h c with Some co => body_refs (obody co) | None => [] end
    | _, _ => []
    end ++ shallow_shares h src r
  end.

(* the source's containers that the FCopy attributes copy *)
Fixpoint shallow_conts (src : list (val * val)) (tmpl : template) : list Z :=
  match tmpl with
  | [] => []
  | (k, m) :: r =>
    match bget src k, m with
    | Some (R c), FCopy => [c]
    | _, _ => []
    end ++ shallow_conts src r
  end.

Definition root_shares (h : heap) (root : Z) (tmpl : template) : list Z :=
  match hget h root with Some ob => shallow_shares h (obody ob) tmpl | None => [] end.

(* TaxonNamespace(ns) / copy.copy(ns) *)
Definition ns_taxa (h : heap) (ns : Z) : list Z := tl (ns_seeds h ns).

Definition ns_copy (nf : bool) (fuel : nat) (h : heap) (ns : Z) : res (st * val) :=
  run_seeded nf fuel h (ns_taxa h ns) ns.

(* ---- routes and the correspondence check -------------------------------------------------------- *)

Inductive sroute :=
| SShallow (tmpl : template)      (* copy.copy / clone(0) of a TreeList / CharacterMatrix *)
| SNsCopy.                        (* TaxonNamespace(ns) / copy.copy(ns) / ns.clone(0) *)

Definition srun (nf : bool) (fuel : nat) (h : heap) (root : Z) (r : sroute) : res (st * val) :=
  match r with
  | SShallow tmpl => shallow_copy nf fuel h root tmpl
  | SNsCopy => ns_copy nf fuel h root
  end.

Definition sroute_seeds (h : heap) (root : Z) (r : sroute) : list Z :=
  match r with
  | SShallow tmpl => root_shares h root tmpl
  | SNsCopy => ns_taxa h root
  end.

(* comparison of the model's heap with the implementation's: as iso_check, but attribute dictionaries
   (objects that are not containers) are matched by key *)
Fixpoint keyed_entries (b1 b2 : list (val * val)) : option (list (val * val)) :=
  match b1 with
  | [] => Some []
  | (k, v1) :: r =>
    match bget b2 k with
    | Some v2 => match keyed_entries r b2 with Some l => Some ((v1, v2) :: l) | None => None end
    | None => None
    end
  end.

Fixpoint iso_go2 (n0 : Z) (hm hi : heap) (fuel : nat) (todo : list (val * val)) (pairs : list (Z * Z)) : bool :=
  match fuel with
  | O => false
  | S f =>
    match todo with
    | [] => true
    | (P x, P y) :: r => Z.eqb x y && iso_go2 n0 hm hi f r pairs
    | (R x, R y) :: r =>
      if (x <? n0) || (y <? n0) then Z.eqb x y && iso_go2 n0 hm hi f r pairs
      else match alookup x pairs with
           | Some y' => Z.eqb y y' && iso_go2 n0 hm hi f r pairs
           | None =>
             if existsb (fun p => Z.eqb (snd p) y) pairs then false
             else match hget hm x, hget hi y with
                  | Some ox, Some oy =>
                    Z.eqb (ocls ox) (ocls oy) && kind_eqb (okind ox) (okind oy)
                    && Nat.eqb (length (obody ox)) (length (obody oy))
                    && (if is_container (okind ox) || kind_eqb (okind ox) KAtomic
                        then iso_go2 n0 hm hi f (zip_entries (obody ox) (obody oy) ++ r) ((x, y) :: pairs)
                        else nodup_keys (obody ox) &&
                             match keyed_entries (obody ox) (obody oy) with
                             | Some l => iso_go2 n0 hm hi f (l ++ r) ((x, y) :: pairs)
                             | None => false
                             end)
                  | _, _ => false
                  end
           end
    | _ :: _ => false
    end
  end.

Definition iso_check2 (n0 : Z) (hm hi : heap) (vm vi : val) : bool :=
  iso_go2 n0 hm hi (2 * (heap_size hm + heap_size hi) + 8)%nat [(vm, vi)] [].

Record scase := mkSCase {
  sc_heap : heap;
  sc_root : Z;
  sc_route : sroute;
  sc_expect : expect;
  sc_nf : bool
}.

Definition template_ok (t : template) : bool :=
  nodup_keys (map (fun e => (fst e, PNone)) t) && forallb (fun e => is_prim (fst e) && negb (val_eqb (fst e) NM_ANN)) t.

(* the model agrees with the implementation, and the dumped heap satisfies the hypotheses of the theorems
   of Props/C12.v about the shallow routes *)
Definition scase_ok (c : scase) : bool :=
  let h := sc_heap c in
  let seeds := sroute_seeds h (sc_root c) (sc_route c) in
  match sc_expect c with
  | ESkip _ => true
  | EErr e =>
    match srun (sc_nf c) (fuel_for h) h (sc_root c) (sc_route c) with
    | Err e' => err_eqb e e'
    | _ => false
    end
  | EOk r' news =>
    wf_heap h seeds && wf_heap2 h && wf_heap3 h && negb (memz (sc_root c) (owned_list h))
    && root_seeds_ok h seeds (sc_root c)
    && match sc_route c with SShallow t => template_ok t | SNsCopy => true end
    && match srun (sc_nf c) (fuel_for h) h (sc_root c) (sc_route c) with
       | Ok (s, v) => iso_check2 (hlen h) (sh s) (h ++ news) v r'
       | _ => false
       end
  end.

Definition scase_run (c : scase) : res (list obj * val) :=
  match srun (sc_nf c) (fuel_for (sc_heap c)) (sc_heap c) (sc_root c) (sc_route c) with
  | Ok (s, v) => Ok (skipn (length (sc_heap c)) (sh s), v)
  | Err e => Err e
  | OutOfFuel => OutOfFuel
  end.
