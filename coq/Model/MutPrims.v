(* Run-time library of the GENERATED mutator programs (coq/Gen/Mutators.v, produced by
   py/dv/gen_mutators.py from _node.py / _edge.py / _tree.py).  Hand-written and fixed: this is the
   (trusted) meaning the translator gives to the Python constructs the mutators use.

     the mutable object graph     record mutgraph: a state type with field reads / writes
                                  (Node._parent_node, Node._child_nodes, Node._edge, Edge._head_node,
                                   Edge.length, Tree._seed_node, Tree._is_rooted) and the Node constructor
     a statement sequence         a function  state -> mres state value ; MErr e s = Python raised e and
                                  left the object graph in state s ; MFuel = model fuel exhausted
     a is b / a == b / a in l     mg_eqb (Node.__eq__ is identity: checked by the translator)
     l.index(x)                   py_list_index  (None <-> ValueError)
     l.remove(x)                  py_remove      (None <-> ValueError), first occurrence
     l.insert(i, x)               py_insert      (negative i counts from the end, out of range clamps)
     l[i] = x                     py_set_index   (None <-> IndexError)
     l.append / clear / reverse   l ++ [x] / [] / rev l
     enumerate(l)                 py_enumerate
     edge lengths                 option Z (None = Python None); a += b raises TypeError on None
     for x in l: body             mfor over the list value, threading the loop-carried locals; break =
                                  LBreak; for-else runs after LNext.  When l is a LIVE child list (an
                                  alias / x._child_nodes) and some path through the body changes the
                                  object graph and then continues iterating, mfor_live is used instead:
                                  Python's list iterator (index i; stops when i >= len of the CURRENT list) *)
From Coq Require Import ZArith List Bool.
From DV Require Import Model.PyPrims Model.C15Prims.
Import ListNotations.
Open Scope Z_scope.

Inductive mres (S A : Type) : Type :=
| MOk (a : A) (s : S)
| MErr (e : err) (s : S)
| MFuel.
Arguments MOk {S A} _ _.
Arguments MErr {S A} _ _.
Arguments MFuel {S A}.

Definition mres_ (S : Type) : Type := mres S unit.

Record mutgraph : Type := {
  mst : Type;
  mnode : Type;
  medge : Type;
  mg_eqb : mnode -> mnode -> bool;
  rd_parent : mst -> mnode -> option mnode;           (* x._parent_node *)
  wr_parent : mnode -> option mnode -> mst -> mst;
  rd_kids : mst -> mnode -> list mnode;               (* x._child_nodes (the list object's content) *)
  wr_kids : mnode -> list mnode -> mst -> mst;        (* in-place mutation or rebinding of that list *)
  rd_edge : mst -> mnode -> medge;                    (* x._edge *)
  rd_taxon : mst -> mnode -> option Z;                (* x.taxon (identity of the Taxon object) *)
  rd_head : mst -> medge -> mnode;                    (* e._head_node (every Edge has a head node) *)
  rd_length : mst -> medge -> option Z;               (* e.length *)
  wr_length : medge -> option Z -> mst -> mst;
  rd_seed : mst -> mnode;                             (* tree._seed_node *)
  wr_seed : mnode -> mst -> mst;
  rd_rooted : mst -> option bool;                     (* tree._is_rooted *)
  wr_rooted : option bool -> mst -> mst;
  (* Node(taxon=, label=, edge_length=): a fresh node, no parent, no children, own edge *)
  new_node : option Z -> option Z -> option Z -> mst -> mnode * mst;
  (* Tree methods that are NOT compiled (loops over lazy traversals / bipartition encoding): calls
     to them are calls of these operations, arguments in the order of the source signature *)
  x_reseed_at : mnode -> bool -> bool -> bool -> mst -> mres_ mst;   (* new_seed_node, update_bipartitions,
                                                                       collapse_unrooted_basal_bifurcation, suppress_unifurcations *)
  x_suppress_unifurcations : mst -> mres_ mst;                       (* suppress_unifurcations() *)
  x_encode_bipartitions : bool -> bool -> mst -> mres_ mst;          (* suppress_unifurcations, collapse_unrooted_basal_bifurcation *)
  (* the nodes self.postorder_node_iter() yields, as a list fixed when the loop is entered
     (None: the structure is not a readable tree - model fuel) *)
  x_postorder_nodes : mst -> option (list mnode);
  x_leaf_nodes : mst -> option (list mnode);                         (* self.leaf_node_iter(), likewise *)
  x_preorder_nodes : mst -> option (list mnode);                     (* self.preorder_node_iter(), likewise *)
  x_leaf_nodes_of : mst -> mnode -> option (list mnode);             (* node.leaf_iter() *)
  x_collapse_basal_bifurcation : bool -> mst -> mres_ mst            (* set_as_unrooted_tree; used where a compiled
                                                                       method calls it as a black box *)
}.

(* ---- lists ---- *)
Fixpoint py_in {A} (eqb : A -> A -> bool) (x : A) (l : list A) : bool :=
  match l with
  | [] => false
  | y :: r => if eqb x y then true else py_in eqb x r
  end.

Fixpoint py_list_index {A} (eqb : A -> A -> bool) (x : A) (l : list A) : option nat :=
  match l with
  | [] => None
  | y :: r => if eqb x y then Some O
              else match py_list_index eqb x r with Some n => Some (S n) | None => None end
  end.

Fixpoint py_remove {A} (eqb : A -> A -> bool) (x : A) (l : list A) : option (list A) :=
  match l with
  | [] => None
  | y :: r => if eqb x y then Some r
              else match py_remove eqb x r with Some r' => Some (y :: r') | None => None end
  end.

Definition py_insert {A} (l : list A) (i : Z) (x : A) : list A :=
  let n := Z.of_nat (length l) in
  let j := if Z.ltb i 0 then Z.max 0 (n + i) else Z.min i n in
  firstn (Z.to_nat j) l ++ x :: skipn (Z.to_nat j) l.

Fixpoint set_nth {A} (n : nat) (x : A) (l : list A) : option (list A) :=
  match l, n with
  | [], _ => None
  | _ :: r, O => Some (x :: r)
  | y :: r, S m => match set_nth m x r with Some r' => Some (y :: r') | None => None end
  end.

Definition py_set_index {A} (l : list A) (i : Z) (x : A) : option (list A) :=
  let n := Z.of_nat (length l) in
  if Z.ltb i 0 then (if Z.ltb (n + i) 0 then None else set_nth (Z.to_nat (n + i)) x l)
  else set_nth (Z.to_nat i) x l.

Fixpoint py_enumerate_from {A} (i : Z) (l : list A) : list (Z * A) :=
  match l with
  | [] => []
  | x :: r => (i, x) :: py_enumerate_from (i + 1) r
  end.
Definition py_enumerate {A} (l : list A) : list (Z * A) := py_enumerate_from 0 l.

(* ---- loops ---- *)
Inductive lctl (V : Type) : Type := LNext (v : V) | LBreak (v : V).
Arguments LNext {V} _.
Arguments LBreak {V} _.

Definition lctl_val {V} (c : lctl V) : V := match c with LNext v => v | LBreak v => v end.

Fixpoint mfor {S X V} (body : X -> V -> S -> mres S (lctl V)) (l : list X) (v : V) (s : S)
  : mres S (lctl V) :=
  match l with
  | [] => MOk (LNext v) s
  | x :: r =>
    match body x v s with
    | MOk (LNext v') s' => mfor body r v' s'
    | MOk (LBreak v') s' => MOk (LBreak v') s'
    | MErr e s' => MErr e s'
    | MFuel => MFuel
    end
  end.

(* while loop: step returns LNext (iterate) or LBreak (guard false / break); explicit fuel *)
Fixpoint mwhile {S V} (fuel : nat) (step : V -> S -> mres S (lctl V)) (v : V) (s : S) : mres S V :=
  match fuel with
  | O => MFuel
  | Datatypes.S n =>
    match step v s with
    | MOk (LNext v') s' => mwhile n step v' s'
    | MOk (LBreak v') s' => MOk v' s'
    | MErr e s' => MErr e s'
    | MFuel => MFuel
    end
  end.

(* the list iterator over a list object that the body may mutate: position i of the current content *)
Fixpoint mfor_live {S X V} (fuel : nat) (read : S -> list X) (body : X -> V -> S -> mres S (lctl V))
         (i : nat) (v : V) (s : S) : mres S (lctl V) :=
  match fuel with
  | O => MFuel
  | Datatypes.S n =>
    match nth_error (read s) i with
    | None => MOk (LNext v) s
    | Some x =>
      match body x v s with
      | MOk (LNext v') s' => mfor_live n read body (Datatypes.S i) v' s'
      | MOk (LBreak v') s' => MOk (LBreak v') s'
      | MErr e s' => MErr e s'
      | MFuel => MFuel
      end
    end
  end.

(* scripted random.Random: each call consumes the next entry of the script (a list of indices) ---- *)
(* rng.shuffle(c): the entry lists, for each new position, the old index (None: script exhausted / ill-formed) *)
Fixpoint py_nths {A} (l : list A) (ix : list nat) : option (list A) :=
  match ix with
  | [] => Some []
  | i :: r => match nth_error l i, py_nths l r with
              | Some x, Some xs => Some (x :: xs)
              | _, _ => None
              end
  end.

(* dict with identity-hashed keys, as an association list: d[k] (None <-> KeyError), d[k] = v *)
Fixpoint py_dict_get {K V} (eqb : K -> K -> bool) (k : K) (d : list (K * V)) : option V :=
  match d with
  | [] => None
  | (k', v) :: r => if eqb k k' then Some v else py_dict_get eqb k r
  end.

Fixpoint py_dict_set {K V} (eqb : K -> K -> bool) (k : K) (v : V) (d : list (K * V)) : list (K * V) :=
  match d with
  | [] => [(k, v)]
  | (k', v') :: r => if eqb k k' then (k, v) :: r else (k', v') :: py_dict_set eqb k v r
  end.

(* l.sort(key=d.__getitem__, ...): KeyError unless every element is a key *)
Definition py_dict_has_all {K V} (eqb : K -> K -> bool) (l : list K) (d : list (K * V)) : bool :=
  forallb (fun k => py_is_some (py_dict_get eqb k d)) l.
Definition py_dict_key {K} (eqb : K -> K -> bool) (d : list (K * Z)) (k : K) : Z :=
  match py_dict_get eqb k d with Some v => v | None => 0 end.
