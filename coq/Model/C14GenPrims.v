(* C14: run-time library of the translator py/dv/gen_pdm.py -> coq/Gen/Pdm.v.
   This file states the Python semantics the generated code relies on (TRUSTED mapping):

   objects   a Node is a subtree of the Model/Tree.v rose tree (identity = t_id; child_nodes = t_kids;
             edge.length = edge_length = t_len; taxon = t_taxon); node.parent_node is looked up in the
             object graph G (the tree's seed node); tree.postorder_node_iter() yields Tree.postorder
             (that the real iterator does is property C15).
   floats    edge lengths and their sums are integers in units of 2^-10 (exact in binary64 for the
             harness's inputs); `x += None` raises TypeError (py_add_opt); true division is over Q
             with ZeroDivisionError (py_div).
   dicts     insertion-ordered association lists (C14Model.dict: dget/dset/dmem, tbl: tget2/tset2);
             a dict keyed by Node objects is keyed by node identity (ndict); d.items() lists the
             entries in insertion order; `k not in d` is negb (dmem k d); d[k] raises KeyError.
   sets      _mapped_taxa.add = add_once (insertion order kept, C14Model); the set of frozenset pairs
             = pairs_add.
   None      a taxon that is None used as dict key / set element is represented by `none_key`.
   attrs     node.desc_paths lives in a heap (node identity -> dict); reading a missing attribute
             raises AttributeError; `del node.desc_paths` removes it.
   loops     `for x in <list>` = py_for (left fold, stops at the first exception); enumerate, slices
             l[i:] as usual; `for k in <dict>` = py_for_dict (size check at every fetch);
             `while True` loops run on explicit fuel; next(it) on an exhausted iterator raises
             StopIteration, which the translated code handles by returning. *)
From Coq Require Import ZArith QArith List Bool.
From DV Require Import Model.PyPrims Model.Tree Model.C14Model.
Import ListNotations.
Open Scope Z_scope.

Definition node := tree.
Definition node_id (n : node) : Z := t_id n.
Definition node_child_nodes (n : node) : list node := t_kids n.
Definition node_edge_length (n : node) : option Z := t_len n.
Definition node_taxon (n : node) : option Z := t_taxon n.
Definition py_postorder_node_iter (t : node) : list node := postorder t.

(* node.parent_node inside the object graph G *)
Fixpoint py_parent_in (c : Z) (t : tree) : option node :=
  match t with
  | T _ _ _ _ ks =>
    if existsb (fun k => Z.eqb (t_id k) c) ks then Some t
    else (fix go (ks : list tree) : option node :=
            match ks with
            | [] => None
            | k :: r => match py_parent_in c k with Some p => Some p | None => go r end
            end) ks
  end.
Definition py_parent_node (G : node) (c : node) : option node := py_parent_in (node_id c) G.

(* a reference to a node stored in a table (tables hold identities); None -> none_key *)
Definition node_ref (n : node) : Z := node_id n.
Definition node_ref_opt (none_key : Z) (o : option node) : Z := match o with Some n => node_id n | None => none_key end.
Definition tax_key (none_key : Z) (o : option Z) : Z := match o with Some a => a | None => none_key end.

(* dict keyed by Node objects *)
Definition ndict (V : Type) := list (node * V).
Fixpoint nd_get {V} (k : node) (d : ndict V) : option V :=
  match d with [] => None | (k', v) :: r => if Z.eqb (node_id k) (node_id k') then Some v else nd_get k r end.
Fixpoint nd_set {V} (k : node) (v : V) (d : ndict V) : ndict V :=
  match d with
  | [] => [(k, v)]
  | (k', v') :: r => if Z.eqb (node_id k) (node_id k') then (k', v) :: r else (k', v') :: nd_set k v r
  end.
Definition nd_getitem {V} (k : node) (d : ndict V) : res V :=
  match nd_get k d with Some v => Ok v | None => Err KeyErr end.
Definition nd_items {V} (d : ndict V) : list (node * V) := d.

(* the attribute node.desc_paths of every node that has one *)
(* node.desc_paths: descendant leaf -> (path length, steps, path edges); path edges are None in the
   model's scope (is_store_path_edges = False): unit *)
Definition dpaths := ndict (Z * Z * unit).
Definition heap := ndict dpaths.
Definition heap_empty : heap := [].
Definition heap_get (n : node) (h : heap) : res dpaths :=
  match nd_get n h with Some d => Ok d | None => Err AttrErr end.
Definition heap_set (n : node) (d : dpaths) (h : heap) : heap := nd_set n d h.
Fixpoint heap_del (n : node) (h : heap) : heap :=
  match h with [] => [] | (k, v) :: r => if Z.eqb (node_id n) (node_id k) then r else (k, v) :: heap_del n r end.

(* record updates of the PhylogeneticDistanceMatrix object *)
Definition set_tree_length (p : pdm) (v : Z) : pdm := mkPdm v (p_num_edges p) (p_dist p) (p_steps p) (p_mrca p) (p_mapped p) (p_pairs p) (p_log p).
Definition set_num_edges (p : pdm) (v : Z) : pdm := mkPdm (p_tree_length p) v (p_dist p) (p_steps p) (p_mrca p) (p_mapped p) (p_pairs p) (p_log p).
Definition set_dist (p : pdm) (v : tbl Z) : pdm := mkPdm (p_tree_length p) (p_num_edges p) v (p_steps p) (p_mrca p) (p_mapped p) (p_pairs p) (p_log p).
Definition set_steps (p : pdm) (v : tbl Z) : pdm := mkPdm (p_tree_length p) (p_num_edges p) (p_dist p) v (p_mrca p) (p_mapped p) (p_pairs p) (p_log p).
Definition set_mrca (p : pdm) (v : tbl Z) : pdm := mkPdm (p_tree_length p) (p_num_edges p) (p_dist p) (p_steps p) v (p_mapped p) (p_pairs p) (p_log p).
Definition set_mapped (p : pdm) (v : list Z) : pdm := mkPdm (p_tree_length p) (p_num_edges p) (p_dist p) (p_steps p) (p_mrca p) v (p_pairs p) (p_log p).
Definition set_pairs (p : pdm) (v : list (Z * Z)) : pdm := mkPdm (p_tree_length p) (p_num_edges p) (p_dist p) (p_steps p) (p_mrca p) (p_mapped p) v (p_log p).
(* self.clear(): every modelled attribute reset (the ghost log of the hand model is not an attribute) *)
Definition py_clear (p : pdm) : pdm := mkPdm 0 0 [] [] [] [] [] (p_log p).

(* the set of frozenset([a, b]) *)
Definition pairs_add (a b : Z) (l : list (Z * Z)) : list (Z * Z) := if pair_mem a b l then l else l ++ [(a, b)].

(* x += y with y possibly None: TypeError *)
Definition py_add_opt (x : Z) (y : option Z) : res Z := match y with Some v => Ok (x + v) | None => Err TypeErr end.
(* try: <r> except TypeError: pass  -- keeps the old value *)
Definition py_except_type_error {A} (r : res A) (old : A) : res A :=
  match r with Err TypeErr => Ok old | _ => r end.

Definition py_div (x y : Q) : res Q := if Qeq_bool y 0 then Err OtherErr else Ok (x / y)%Q.

(* for x in l: body *)
Definition py_for {A S} (l : list A) (body : A -> S -> res S) (s : S) : res S :=
  fold_left (fun r x => bind r (body x)) l (Ok s).
Definition py_enumerate {A} (l : list A) : list (Z * A) := combine (map Z.of_nat (seq 0 (length l))) l.
Definition py_slice_from {A} (l : list A) (i : Z) : list A := skipn (Z.to_nat i) l.
Definition py_len {A} (l : list A) : Z := Z.of_nat (length l).
Definition dict_keys {V} (d : dict V) : list Z := map fst d.
(* sum(l) of a list of numbers; l[i] for a literal i >= 0 (IndexError) *)
Definition py_sum (l : list Z) : Z := fold_left Z.add l 0.
Definition py_index {A} (l : list A) (i : Z) : res A :=
  match nth_error l (Z.to_nat i) with Some x => Ok x | None => Err IndexErr end.

(* for k in <dict of the object state>: the keys present when the loop starts, in order; the dict is
   re-read from the state before every fetch (also the one that ends the loop) and a changed size is
   RuntimeError("dictionary changed size during iteration") = OtherErr.  (No translated statement
   deletes from a dict, and replacing a value keeps the key's position, so while the size is unchanged
   the keys still to come are the ones listed at the start.) *)
Fixpoint py_for_dict_go {S V} (get : S -> dict V) (n : nat) (ks : list Z) (body : Z -> S -> res S) (s : S) : res S :=
  if Nat.eqb (length (get s)) n then
    match ks with
    | [] => Ok s
    | k :: r => match body k s with Ok s' => py_for_dict_go get n r body s' | Err e => Err e | OutOfFuel => OutOfFuel end
    end
  else Err OtherErr.
Definition py_for_dict {S V} (get : S -> dict V) (body : Z -> S -> res S) (s : S) : res S :=
  py_for_dict_go get (length (get s)) (dict_keys (get s)) body s.
(* the row object T[k] (only used after T[k] has been evaluated successfully) *)
Definition row_of {V} (k : Z) (T : tbl V) : dict V := match dget k T with Some r => r | None => [] end.

(* while True: ... on fuel; a step either returns or continues *)
Inductive loop_step (S R : Type) := LContinue (s : S) | LReturn (r : R).
Arguments LContinue {S R}. Arguments LReturn {S R}.
Fixpoint py_loop {S R} (fuel : nat) (step : S -> loop_step S R) (s : S) : res R :=
  match fuel with
  | O => OutOfFuel
  | Datatypes.S f => match step s with LReturn r => Ok r | LContinue s' => py_loop f step s' end
  end.
(* next(it) on an iterator over a list: the remaining elements *)
Definition py_next {A} (it : list A) : option (A * list A) := match it with [] => None | x :: r => Some (x, r) end.
