(* C01 model (definitions only): Tree.encode_bipartitions, Bipartition construction and predicates,
   Tree.from_split_bitmasks, on the shared rose trees of Model/Tree.v.

   Transcribed from src/dendropy/datamodel/treemodel/_tree.py (encode_bipartitions,
   collapse_basal_bifurcation, from_split_bitmasks, is_compatible_with_bipartition),
   _edge.py (Edge.collapse), _bipartition.py (__init__, compile_split_bitmask, is_* methods),
   taxonmodel.py (taxon_bitmask, all_taxa_bitmask).  The bit functions are the generated ones of
   Gen/BitFns.v. *)
From Coq Require Import ZArith List Bool.
From DV Require Import Model.PyPrims Model.Tree Gen.BitFns.
Import ListNotations.
Open Scope Z_scope.

(* ---------------------------------------------------------------------------------------- *)
(* small helpers                                                                             *)

(* Python truthiness of Tree._is_rooted (None / False / True) *)
Definition is_true (r : option bool) : bool :=
  match r with Some true => true | _ => false end.

Definition nkids (t : tree) : Z := Z.of_nat (length (t_kids t)).

Definition set_len (e : option Z) (t : tree) : tree :=
  match t with T i x l _ ks => T i x l e ks end.

(* collapse_basal_bifurcation:
     if to_del_edge.length is not None:
         if to_keep.edge.length is None: to_keep.edge.length = to_del_edge.length
         else: to_keep.edge.length += to_del_edge.length *)
Definition add_len (keep del : option Z) : option Z :=
  match del with
  | None => keep
  | Some d => match keep with None => Some d | Some k => Some (k + d) end
  end.

(* unifurcation suppression inside encode_bipartitions:
     if head.edge.length is not None:
         if child.edge.length is None: child.edge.length = head.edge.length
         else: child.edge.length += head.edge.length *)
Definition merge_len (head child : option Z) : option Z :=
  match head with
  | None => child
  | Some h => match child with None => Some h | Some c => Some (c + h) end
  end.

(* TaxonNamespace.taxon_bitmask: 1 << accession_index *)
Definition taxon_bitmask (acc : Z -> Z) (x : Z) : Z := Z.shiftl 1 (acc x).

Fixpoint lookup (l : list (Z * Z)) (k : Z) : Z :=
  match l with
  | [] => -1
  | (a, b) :: r => if Z.eqb a k then b else lookup r k
  end.

(* ---------------------------------------------------------------------------------------- *)
(* Tree.collapse_basal_bifurcation (+ Edge.collapse); returns the new tree and whether the
   collapse happened (only then is_rooted is set to False)                                   *)

Definition collapse_basal (t : tree) : tree * bool :=
  match t with
  | T i x l e [c0; c1] =>
    if 2 <=? nkids c1 then
      (* to_keep = c0, to_del = c1: children of c1 take c1's place *)
      (T i x l e (set_len (add_len (t_len c0) (t_len c1)) c0 :: t_kids c1), true)
    else if 2 <=? nkids c0 then
      (T i x l e (t_kids c0 ++ [set_len (add_len (t_len c1) (t_len c0)) c1]), true)
    else (t, false)
  | _ => (t, false)
  end.

(* ---------------------------------------------------------------------------------------- *)
(* the post-order pass of encode_bipartitions.
   enc_node t = (what stands in t's place afterwards, its leafset mask,
                 post-order list of (node id, leafset mask) of the retained edges below and
                 including it) *)

Definition enc_visit (acc : Z -> Z) (i : Z) (x l e : option Z) (rs : list (tree * Z * list (Z * Z)))
  : tree * Z * list (Z * Z) :=
  let entries := concat (map snd rs) in
  match rs with
  | [] =>
    (* num_children == 0: taxon_bitmask of the leaf's taxon, 0 without taxon *)
    let m := match x with Some tx => taxon_bitmask acc tx | None => 0 end in
    (T i x l e [], m, [(i, m)])
  | [r1] =>
    (* num_children == 1: node removed, child takes its place with merged edge length;
       no bipartition, no entry in tree_edges *)
    let c' := fst (fst r1) in
    (set_len (merge_len e (t_len c')) c', snd (fst r1), entries)
  | _ =>
    (* for child in child_nodes: leafset_bitmask |= child.edge.bipartition._leafset_bitmask *)
    let m := fold_left Z.lor (map (fun r => snd (fst r)) rs) 0 in
    (T i x l e (map (fun r => fst (fst r)) rs), m, entries ++ [(i, m)])
  end.

Fixpoint enc_node (acc : Z -> Z) (t : tree) : tree * Z * list (Z * Z) :=
  match t with
  | T i x l e ks => enc_visit acc i x l e (map (enc_node acc) ks)
  end.

(* Bipartition.compile_split_bitmask as called by _compile_(im)mutable_bipartition_for_edge *)
Definition compile_split (rooted : option bool) (tree_mask ls : Z) : Z :=
  if Z.eqb tree_mask 0 then 0      (* `if tree_leafset_bitmask:` false; _tree_leafset_bitmask is None: early return, split stays 0 *)
  else if is_true rooted then ls
  else py_normalize_bitmask ls tree_mask (py_least_significant_set_bit tree_mask).

Record enc_result : Type := mkEnc {
  r_tree : tree;                      (* structure afterwards *)
  r_rooted : option bool;             (* Tree.is_rooted afterwards *)
  r_edges : list (Z * (Z * Z));       (* post-order (node id, (leafset, split)) of the tree's edges *)
  r_enc : list (Z * Z)                (* bipartition_encoding: (leafset, split) in list order *)
}.

Definition encode (acc : Z -> Z) (rooted : option bool) (t : tree) : enc_result :=
  let '(t1, rooted1) :=
    if negb (is_true rooted) && (nkids t =? 2) then
      let '(t', changed) := collapse_basal t in
      (t', if changed then Some false else rooted)
    else (t, rooted) in
  let '(t2, _, entries) := enc_node acc t1 in
  (* tree_leafset_bitmask = self.seed_node.edge.bipartition._leafset_bitmask *)
  let tree_mask := snd (last entries (0, 0)) in
  let edges := map (fun e => (fst e, (snd e, compile_split rooted1 tree_mask (snd e)))) entries in
  mkEnc t2 rooted1 edges (map snd edges).

(* ---------------------------------------------------------------------------------------- *)
(* encode_bipartitions(suppress_unifurcations=su, collapse_unrooted_basal_bifurcation=cb).
   su = false: a node with one child is treated like any inner node (kept, gets a bipartition whose
   leafset is its child's); cb = false: the basal bifurcation is left alone.                        *)

Definition enc_visit_f (su : bool) (acc : Z -> Z) (i : Z) (x l e : option Z)
  (rs : list (tree * Z * list (Z * Z))) : tree * Z * list (Z * Z) :=
  if su then enc_visit acc i x l e rs
  else
    match rs with
    | [] =>
      let m := match x with Some tx => taxon_bitmask acc tx | None => 0 end in
      (T i x l e [], m, [(i, m)])
    | _ =>
      let m := fold_left Z.lor (map (fun r => snd (fst r)) rs) 0 in
      (T i x l e (map (fun r => fst (fst r)) rs), m, concat (map snd rs) ++ [(i, m)])
    end.

Fixpoint enc_node_f (su : bool) (acc : Z -> Z) (t : tree) : tree * Z * list (Z * Z) :=
  match t with
  | T i x l e ks => enc_visit_f su acc i x l e (map (enc_node_f su acc) ks)
  end.

Definition encode_f (su cb : bool) (acc : Z -> Z) (rooted : option bool) (t : tree) : enc_result :=
  let '(t1, rooted1) :=
    if cb && negb (is_true rooted) && (nkids t =? 2) then
      let '(t', changed) := collapse_basal t in
      (t', if changed then Some false else rooted)
    else (t, rooted) in
  let '(t2, _, entries) := enc_node_f su acc t1 in
  let tree_mask := snd (last entries (0, 0)) in
  let edges := map (fun e => (fst e, (snd e, compile_split rooted1 tree_mask (snd e)))) entries in
  mkEnc t2 rooted1 edges (map snd edges).

(* ---------------------------------------------------------------------------------------- *)
(* Bipartition(leafset_bitmask=a, tree_leafset_bitmask=f, is_rooted=r)  for f <> 0:
   (leafset, split) after the compile in __init__                                            *)

Definition mk_bip (a f : Z) (r : option bool) : Z * Z :=
  let ls := Z.land a f in
  (ls, if is_true r then ls else py_normalize_bitmask ls f (py_least_significant_set_bit f)).

Definition bip_is_trivial (split fill : Z) : bool := py_is_trivial_bitmask split fill.

Definition bip_is_compatible_with (split1 split2 fill1 : Z) : bool :=
  py_is_compatible_bitmasks split1 split2 fill1.

(* is_compatible_with(int): an int is normalised like the split of the Bipartition built from it
   when self is not rooted (and a lowest relevant bit is known: fill <> 0) *)
Definition bip_is_compatible_with_int (r1 : option bool) (split1 other fill1 : Z) : bool :=
  let m2 := if negb (is_true r1)
            then py_normalize_bitmask other fill1 (py_least_significant_set_bit fill1) else other in
  py_is_compatible_bitmasks split1 m2 fill1.

Definition bip_is_nested_within (r1 : option bool) (b1 b2 : Z * Z) (fill1 : Z) (other_masked : bool) : bool :=
  let m1 := if is_true r1 then fst b1 else snd b1 in
  let m2 := if is_true r1 then fst b2 else snd b2 in
  let m2 := if other_masked then m2 else Z.land fill1 m2 in
  Z.eqb (Z.land m1 m2) m1.

Definition bip_is_leafset_nested_within (leafset1 other fill1 : Z) : bool :=
  let m2 := Z.land fill1 other in
  Z.eqb (Z.land m2 leafset1) leafset1.

(* Tree.is_compatible_with_bipartition(b, is_bipartitions_updated=True) on an encoded tree *)
Definition tree_is_compatible_with (enc_splits : list Z) (fill s : Z) : bool :=
  if existsb (Z.eqb s) enc_splits then true
  else forallb (fun b => py_is_compatible_bitmasks b s fill) enc_splits.

(* ---------------------------------------------------------------------------------------- *)
(* Tree.from_split_bitmasks.  Working trees carry the leafset mask stored on each edge.      *)

Inductive mtree : Type :=
| M (mask : Z) (taxon : option Z) (kids : list mtree).

Definition m_mask (t : mtree) : Z := match t with M m _ _ => m end.
Definition m_kids (t : mtree) : list mtree := match t with M _ _ k => k end.

(* the encoded star tree as a working tree: masks are read from the encoding by node id *)
Fixpoint to_mtree (masks : list (Z * Z)) (t : tree) : mtree :=
  match t with
  | T i x _ _ ks => M (lookup masks i) (match ks with [] => x | _ => None end) (map (to_mtree masks) ks)
  end.

Definition all_taxa_bitmask (count : Z) : Z := Z.shiftl 1 count - 1.

(* the filter / de-normalisation loop producing split_bitmasks_to_add *)
Definition splits_to_add (rooted : option bool) (all : Z) (splits : list Z) : list Z :=
  flat_map (fun s =>
    let m := Z.land s all in
    if negb (Z.eqb m all) && negb (Z.eqb (Z.land (m - 1) m) 0) then
      if is_true rooted then [m]
      else if negb (Z.eqb (Z.land 1 m) 0) then [Z.land (Z.lnot m) all] else [m]
    else []) splits.

Definition hits (s : Z) (c : mtree) : bool := negb (Z.eqb (Z.land (m_mask c) s) 0).
Definition covers (s : Z) (c : mtree) : bool := Z.eqb (Z.land s (m_mask c)) s.

(* insertion of one split below the root: `lb` is the least significant set bit of `s`.
   The code climbs from the leaf lb to the first node whose mask covers s; on masks that grow
   towards the root this is the deepest node on the root-to-leaf path that covers s. *)
Fixpoint insert_split (s lb : Z) (t : mtree) : mtree :=
  match t with
  | M m x ks =>
    if existsb (fun c => hits lb c && covers s c) ks then
      M m x (map (fun c => if hits lb c && covers s c then insert_split s lb c else c) ks)
    else if Z.eqb m s then t                      (* already in tree *)
    else
      let sel := filter (hits s) ks in
      let new_mask := fold_left Z.lor (map m_mask sel) 0 in
      if Z.eqb new_mask s then
        M m x (filter (fun c => negb (hits s c)) ks ++ [M new_mask None sel])
      else t                                      (* incompatible: nothing changes *)
  end.

Definition add_split (t : mtree) (s : Z) : mtree :=
  if negb (Z.eqb (Z.land s (m_mask t)) s) then t  (* not inside the root's leafset: skipped *)
  else insert_split s (py_least_significant_set_bit s) t.

(* ns: the namespace members in order as (taxon id, accession index); count: _current_accession_count *)
Definition star (ns : list (Z * Z)) : tree :=
  T 0 None None None
    (map (fun p => T (1 + fst p) (Some (fst p)) None None []) ns).

Definition from_splits (ns : list (Z * Z)) (count : Z) (rooted : option bool) (splits : list Z) : mtree :=
  let r := encode (lookup ns) rooted (star ns) in
  let t0 := to_mtree (map (fun e => (fst e, fst (snd e))) (r_edges r)) (r_tree r) in
  fold_left add_split (splits_to_add rooted (all_taxa_bitmask count) splits) t0.

Fixpoint mtree_eqb (a b : mtree) : bool :=
  match a, b with
  | M m x ks, M m' x' ks' =>
    Z.eqb m m' && oz_eqb x x' &&
    (fix go (p q : list mtree) : bool :=
       match p, q with
       | [], [] => true
       | a1 :: r1, b1 :: r2 => mtree_eqb a1 b1 && go r1 r2
       | _, _ => false
       end) ks ks'
  end.

(* ---------------------------------------------------------------------------------------- *)
(* correspondence cases                                                                      *)

Definition ob_eqb (a b : option bool) : bool := option_eqb Bool.eqb a b.
Definition zz_eqb (a b : Z * Z) : bool := Z.eqb (fst a) (fst b) && Z.eqb (snd a) (snd b).
Definition zzz_eqb (a b : Z * (Z * Z)) : bool := Z.eqb (fst a) (fst b) && zz_eqb (snd a) (snd b).

Definition enc_result_eqb (a b : enc_result) : bool :=
  tree_eqb (r_tree a) (r_tree b) && ob_eqb (r_rooted a) (r_rooted b) &&
  list_eqb zzz_eqb (r_edges a) (r_edges b) && list_eqb zz_eqb (r_enc a) (r_enc b).

(* observation of the static functions on a mask triple *)
Record bits_obs : Type := mkBits {
  o_lsb : Z; o_popcount : Z; o_norm : Z; o_trivial : bool; o_trivial_leafset : bool; o_compat : bool
}.

Definition bits_run (a b f : Z) : bits_obs :=
  mkBits (py_least_significant_set_bit a) (py_num_set_bits a)
         (py_normalize_bitmask a f (py_least_significant_set_bit f))
         (py_is_trivial_bitmask a f) (py_is_trivial_leafset a) (py_is_compatible_bitmasks a b f).

Definition bits_obs_eqb (x y : bits_obs) : bool :=
  Z.eqb (o_lsb x) (o_lsb y) && Z.eqb (o_popcount x) (o_popcount y) && Z.eqb (o_norm x) (o_norm y) &&
  Bool.eqb (o_trivial x) (o_trivial y) && Bool.eqb (o_trivial_leafset x) (o_trivial_leafset y) &&
  Bool.eqb (o_compat x) (o_compat y).

(* observation of two Bipartition objects built from (a, f, r) and (b, f, r) *)
Record bip_obs : Type := mkBip {
  p_b1 : Z * Z; p_b2 : Z * Z;
  p_trivial : bool; p_compat : bool; p_compat_int : bool;
  p_nested : bool; p_nested_masked : bool; p_leafset_nested : bool; p_leafset_nested_int : bool
}.

Definition bip_run (a b f : Z) (r : option bool) : bip_obs :=
  let b1 := mk_bip a f r in
  let b2 := mk_bip b f r in
  mkBip b1 b2 (bip_is_trivial (snd b1) f) (bip_is_compatible_with (snd b1) (snd b2) f)
        (bip_is_compatible_with_int r (snd b1) b f)
        (bip_is_nested_within r b1 b2 f false) (bip_is_nested_within r b1 b2 f true)
        (bip_is_leafset_nested_within (fst b1) (fst b2) f) (bip_is_leafset_nested_within (fst b1) b f).

Definition bip_obs_eqb (x y : bip_obs) : bool :=
  zz_eqb (p_b1 x) (p_b1 y) && zz_eqb (p_b2 x) (p_b2 y) &&
  Bool.eqb (p_trivial x) (p_trivial y) && Bool.eqb (p_compat x) (p_compat y) &&
  Bool.eqb (p_compat_int x) (p_compat_int y) &&
  Bool.eqb (p_nested x) (p_nested y) && Bool.eqb (p_nested_masked x) (p_nested_masked y) &&
  Bool.eqb (p_leafset_nested x) (p_leafset_nested y) &&
  Bool.eqb (p_leafset_nested_int x) (p_leafset_nested_int y).

Inductive case : Type :=
(* encode_bipartitions(suppress_unifurcations=su, collapse_unrooted_basal_bifurcation=cb) once
   (twice = false) or two times in a row (twice = true) on tree t with
   accession map acc; probes: masks a for which Bipartition(leafset_bitmask=a,
   tree_leafset_bitmask=<tree mask>, is_rooted=<rooted>) was handed to is_compatible_with_bipartition *)
| CEnc (su cb : bool) (acc : list (Z * Z)) (rooted : option bool) (t : tree) (twice : bool)
       (expected : enc_result) (probes : list (Z * bool))
| CBits (a b f : Z) (expected : bits_obs)
| CBip (a b f : Z) (r : option bool) (expected : bip_obs)
| CFrom (ns : list (Z * Z)) (count : Z) (rooted : option bool) (splits : list Z) (expected : mtree).

Definition enc_run (su cb : bool) (acc : list (Z * Z)) (rooted : option bool) (t : tree) (twice : bool) : enc_result :=
  let r := encode_f su cb (lookup acc) rooted t in
  if twice then encode_f su cb (lookup acc) (r_rooted r) (r_tree r) else r.

Definition probe_run (r : enc_result) (a : Z) : bool :=
  let fill := fst (last (r_enc r) (0, 0)) in
  let b := mk_bip a fill (r_rooted r) in
  tree_is_compatible_with (map snd (r_enc r)) fill (snd b).

Definition case_ok (c : case) : bool :=
  match c with
  | CEnc su cb acc rooted t twice expected probes =>
    let r := enc_run su cb acc rooted t twice in
    enc_result_eqb r expected &&
    forallb (fun p => Bool.eqb (probe_run r (fst p)) (snd p)) probes
  | CBits a b f expected => bits_obs_eqb (bits_run a b f) expected
  | CBip a b f r expected => bip_obs_eqb (bip_run a b f r) expected
  | CFrom ns count rooted splits expected => mtree_eqb (from_splits ns count rooted splits) expected
  end.

(* what the model computes, for replays *)
Inductive shown : Type :=
| SEnc (r : enc_result) (probes : list bool)
| SBits (o : bits_obs)
| SBip (o : bip_obs)
| SFrom (t : mtree).

Definition case_show (c : case) : shown :=
  match c with
  | CEnc su cb acc rooted t twice _ probes =>
    let r := enc_run su cb acc rooted t twice in SEnc r (map (fun p => probe_run r (fst p)) probes)
  | CBits a b f _ => SBits (bits_run a b f)
  | CBip a b f r _ => SBip (bip_run a b f r)
  | CFrom ns count rooted splits _ => SFrom (from_splits ns count rooted splits)
  end.
