(* C19: executable model of the row/column operations of
   dendropy.datamodel.charmatrixmodel.CharacterMatrix
   (hand transcription of charmatrixmodel.py; tied to the source by the correspondence
   check py/dv/c19.py which runs the real methods and this model on the same histories).

   Taxa, matrices, namespaces are object identities (Z).  A cell is a Z: the index of the
   state's symbol in the matrix's alphabet, or the value itself for continuous matrices;
   Python `None` (the default fill value of `pack`) is -1.
   `_taxon_sequence_map` is an insertion-ordered association list (Python dict):
   `d[k] = v` keeps the position of an existing key and appends a new one.
   Every method below copies sequences (`character_sequence_type(other_seq)` makes a new
   sequence object holding the same values), so rows are values here; a sequence extended by
   *itself* (`m.extend_sequences(m)`, `m.extend_matrix(m)`) is doubled, because
   CharacterDataSequence.extend materialises its argument first (`list(character_values)`;
   that this is what the source does is part of the translator tie, Gen/CharMatrix.v).
   Labels are ids (Z).  `lower` (str.lower: `character_subsets` is an OrderedCaselessDict),
   `suffix l i` ("%s_%03d" % (l, i)) and `locus i` ("locus%03d" % i) are section variables. *)
From Coq Require Import ZArith List Bool.
From DV Require Import Model.PyPrims.
Import ListNotations.
Open Scope Z_scope.

Definition tid := Z.
Definition lbl := Z.
Definition cell := Z.
Definition mid := Z.
Definition nsid := Z.
Definition row := list cell.
Definition rows := list (tid * row).
Definition subsets := list (lbl * list Z).

Definition zlen {A} (l : list A) : Z := Z.of_nat (length l).
Definition memb (t : Z) (l : list Z) : bool := existsb (Z.eqb t) l.

(* ---- Python dict as insertion-ordered association list ---- *)
Fixpoint aget {V} (k : Z) (l : list (Z * V)) : option V :=
  match l with
  | [] => None
  | (k', v) :: r => if Z.eqb k k' then Some v else aget k r
  end.

Definition ahas {V} (k : Z) (l : list (Z * V)) : bool :=
  match aget k l with Some _ => true | None => false end.

(* d[k] = v *)
Fixpoint aput {V} (k : Z) (v : V) (l : list (Z * V)) : list (Z * V) :=
  match l with
  | [] => [(k, v)]
  | (k', v') :: r => if Z.eqb k k' then (k, v) :: r else (k', v') :: aput k v r
  end.

(* del d[k]  (caller has checked presence) *)
Fixpoint adel {V} (k : Z) (l : list (Z * V)) : list (Z * V) :=
  match l with
  | [] => []
  | (k', v') :: r => if Z.eqb k k' then r else (k', v') :: adel k r
  end.

(* range(a, a + n) *)
Definition zrange (a n : Z) : list Z := map (fun i => a + Z.of_nat i) (seq 0 (Z.to_nat n)).

Record matrix := mkM {
  m_ns : nsid;                  (* taxon_namespace (identity) *)
  m_label : option lbl;         (* label *)
  m_rows : rows;                (* _taxon_sequence_map *)
  m_subs : subsets              (* character_subsets: label -> character_indices (ascending) *)
}.

Definition set_rows (m : matrix) (rs : rows) : matrix := mkM (m_ns m) (m_label m) rs (m_subs m).
Definition set_subs (m : matrix) (ss : subsets) : matrix := mkM (m_ns m) (m_label m) (m_rows m) ss.

(* ---- sequences ---- *)

(* fill:  while len(v) < size: v.append(value)  /  v.insert(0, value) *)
Definition pad (v : cell) (size : Z) (append : bool) (r : row) : row :=
  let k := Z.to_nat (size - zlen r) in
  if append then r ++ repeat v k else repeat v k ++ r.

(* export_character_indices:
     for cell_idx in range(len(vec)-1, -1, -1): if cell_idx not in indices: del vec[cell_idx]
   i = position of the head of r in the original vector *)
Fixpoint select_from (idx : list Z) (i : Z) (r : row) : row :=
  match r with
  | [] => []
  | c :: r' => if memb i idx then c :: select_from idx (i + 1) r' else select_from idx (i + 1) r'
  end.

(* ---- iteration over a matrix: in NAMESPACE order, restricted to taxa that have a row ---- *)
(* items():  for t in self.taxon_namespace: if t in self._taxon_sequence_map: yield t, map[t] *)
Fixpoint items (T : list tid) (rs : rows) : rows :=
  match T with
  | [] => []
  | t :: T' => match aget t rs with Some r => (t, r) :: items T' rs | None => items T' rs end
  end.

(* vector_size: len of the FIRST INSERTED sequence, 0 for a matrix without sequences *)
Definition vector_size (rs : rows) : Z :=
  match rs with [] => 0 | (_, r) :: _ => zlen r end.

(* max_sequence_size:  max_len = 0; for k in self: if len(self[k]) > max_len: max_len = ... *)
Definition max_sequence_size (T : list tid) (rs : rows) : Z :=
  fold_left (fun mx p => if Z.gtb (zlen (snd p)) mx then zlen (snd p) else mx) (items T rs) 0.

(* ---- keys:  _resolve_key ---- *)
Inductive key :=
| KIdx (i : Z)          (* integer: index into the namespace *)
| KLab (t : tid)        (* the label string of taxon t (labels are unique in the harness) *)
| KTax (t : tid).       (* a Taxon object *)

Definition resolve_key (T : list tid) (k : key) : res tid :=
  match k with
  | KIdx i =>
    if Z.ltb (Z.abs i) (zlen T) then
      match nth_error T (Z.to_nat (if Z.ltb i 0 then zlen T + i else i)) with
      | Some t => Ok t
      | None => Err IndexErr
      end
    else Err IndexErr
  | KLab t => if memb t T then Ok t else Err KeyErr
  | KTax t => Ok t
  end.

(* ---- methods on one matrix; T = the taxa of its namespace in namespace order ---- *)

Definition new_sequence (T : list tid) (m : matrix) (t : tid) (vals : row) : res matrix :=
  if ahas t (m_rows m) then Err ValueErr
  else if negb (memb t T) then Err ValueErr
  else Ok (set_rows m (aput t vals (m_rows m))).

(* __getitem__: creates an empty sequence when there is none *)
Definition getitem (T : list tid) (m : matrix) (k : key) : res (matrix * row) :=
  match resolve_key T k with
  | Ok t =>
    match aget t (m_rows m) with
    | Some r => Ok (m, r)
    | None => match new_sequence T m t [] with
              | Ok m' => Ok (m', [])
              | Err e => Err e
              | OutOfFuel => OutOfFuel
              end
    end
  | Err e => Err e
  | OutOfFuel => OutOfFuel
  end.

Definition setitem (T : list tid) (m : matrix) (k : key) (vals : row) : res matrix :=
  match resolve_key T k with
  | Ok t => if negb (memb t T) then Err ValueErr else Ok (set_rows m (aput t vals (m_rows m)))
  | Err e => Err e
  | OutOfFuel => OutOfFuel
  end.

(* fill: every sequence reached by `for k in self` is padded in place; returns size *)
Definition fill_size (T : list tid) (m : matrix) (size : option Z) : Z :=
  match size with Some s => s | None => max_sequence_size T (m_rows m) end.

Definition fill_rows (T : list tid) (v : cell) (size : Z) (append : bool) (rs : rows) : rows :=
  map (fun p => (fst p, if memb (fst p) T then pad v size append (snd p) else snd p)) rs.

Definition fill (T : list tid) (m : matrix) (v : cell) (size : option Z) (append : bool) : matrix * Z :=
  let s := fill_size T m size in
  (set_rows m (fill_rows T v s append (m_rows m)), s).

(* fill_taxa:  for taxon in self.taxon_namespace: if taxon not in self: self[taxon] = CharacterDataSequence() *)
Definition fill_taxa_rows (T : list tid) (rs : rows) : rows :=
  fold_left (fun s t => if ahas t s then s else aput t [] s) T rs.

Definition fill_taxa (T : list tid) (m : matrix) : matrix := set_rows m (fill_taxa_rows T (m_rows m)).

Definition pack (T : list tid) (m : matrix) (v : cell) (size : option Z) (append : bool) : matrix * Z :=
  fill T (fill_taxa T m) v size append.

(* the row algebra:  for taxon in other_matrix._taxon_sequence_map: ... *)
Definition add_rows (s o : rows) : rows :=
  fold_left (fun s p => if ahas (fst p) s then s else aput (fst p) (snd p) s) o s.

Definition replace_rows (s o : rows) : rows :=
  fold_left (fun s p => if ahas (fst p) s then aput (fst p) (snd p) s else s) o s.

Definition update_rows (s o : rows) : rows :=
  fold_left (fun s p => aput (fst p) (snd p) s) o s.

Definition extend_rows (addnew : bool) (s o : rows) : rows :=
  fold_left (fun s p => match aget (fst p) s with
                        | None => if addnew then aput (fst p) (snd p) s else s
                        | Some r => aput (fst p) (r ++ snd p) s
                        end) o s.

Definition extend_matrix_rows (s o : rows) : rows :=
  fold_left (fun s p => match aget (fst p) s with
                        | Some r => aput (fst p) (r ++ snd p) s
                        | None => aput (fst p) (snd p) s
                        end) o s.

(* if other_matrix.taxon_namespace is not self.taxon_namespace: raise TaxonNamespaceIdentityError (a ValueError) *)
Definition same_ns (self other : matrix) : bool := Z.eqb (m_ns other) (m_ns self).

Definition add_sequences (self other : matrix) : res matrix :=
  if negb (same_ns self other) then Err ValueErr
  else Ok (set_rows self (add_rows (m_rows self) (m_rows other))).

Definition replace_sequences (self other : matrix) : res matrix :=
  if negb (same_ns self other) then Err ValueErr
  else Ok (set_rows self (replace_rows (m_rows self) (m_rows other))).

Definition update_sequences (self other : matrix) : res matrix :=
  if negb (same_ns self other) then Err ValueErr
  else Ok (set_rows self (update_rows (m_rows self) (m_rows other))).

Definition extend_sequences (self other : matrix) (addnew : bool) : res matrix :=
  if negb (same_ns self other) then Err ValueErr
  else Ok (set_rows self (extend_rows addnew (m_rows self) (m_rows other))).

Definition extend_matrix (self other : matrix) : res matrix :=
  if negb (same_ns self other) then Err ValueErr
  else Ok (set_rows self (extend_matrix_rows (m_rows self) (m_rows other))).

(* remove_sequences: for taxon in taxa: del map[taxon]   (KeyError leaves the earlier deletions done) *)
Fixpoint remove_rows (rs : rows) (ts : list tid) : rows * option err :=
  match ts with
  | [] => (rs, None)
  | t :: r => if ahas t rs then remove_rows (adel t rs) r else (rs, Some KeyErr)
  end.

Definition discard_rows (rs : rows) (ts : list tid) : rows :=
  fold_left (fun s t => if ahas t s then adel t s else s) ts rs.

(* keep_sequences: to_keep = set(taxa); for taxon in tuple(keys): if taxon not in to_keep: del *)
Definition keep_rows (rs : rows) (ts : list tid) : rows :=
  filter (fun p => memb (fst p) ts) rs.

(* export_character_indices: deep copy (same namespace and taxa, same label), subsets cleared,
   every sequence reached by clone.values() loses the cells whose index is not selected *)
Definition export_rows (T : list tid) (idx : list Z) (rs : rows) : rows :=
  map (fun p => (fst p, if memb (fst p) T then select_from idx 0 (snd p) else snd p)) rs.

Definition export_character_indices (T : list tid) (m : matrix) (idx : list Z) : matrix :=
  mkM (m_ns m) (m_label m) (export_rows T idx (m_rows m)) [].

Section WithLabels.
Variable lower : lbl -> lbl.
Variable suffix : lbl -> Z -> lbl.
Variable locus : Z -> lbl.
(* `label in character_subsets` (caseless) *)
Definition has_key (l : lbl) (ss : subsets) : bool :=
  existsb (fun p => Z.eqb (lower (fst p)) (lower l)) ss.

Fixpoint find_sub (l : lbl) (ss : subsets) : option (list Z) :=
  match ss with
  | [] => None
  | (l', idx) :: r => if Z.eqb (lower l') (lower l) then Some idx else find_sub l r
  end.

(* new_character_subset / add_character_subset *)
Definition new_character_subset (m : matrix) (l : lbl) (idx : list Z) : res matrix :=
  if has_key l (m_subs m) then Err ValueErr
  else Ok (set_subs m (m_subs m ++ [(l, idx)])).

Definition export_character_subset (T : list tid) (m : matrix) (l : lbl) : res matrix :=
  match find_sub l (m_subs m) with
  | None => Err KeyErr
  | Some idx => Ok (export_character_indices T m idx)
  end.

(* the free-name loop of concatenate, as written now:
     cs_label = new_label; i = 2
     while cs_label in concatenated_chars.character_subsets:
         cs_label = "%s_%03d" % (new_label, i); i += 1            *)
Fixpoint free_name (fuel : nat) (ss : subsets) (new_label cs_label : lbl) (i : Z) : res lbl :=
  match fuel with
  | O => OutOfFuel
  | S f => if has_key cs_label ss then free_name f ss new_label (suffix new_label i) (i + 1)
           else Ok cs_label
  end.

(* HISTORY (before the fix for F12): the loop body assigned `label`, not `cs_label`:
     while cs_label in ...:  label = "%s_%03d" % (new_label, i); i += 1
   kept only to prove that it diverged; not used by the model of the current code. *)
Fixpoint old_free_name (fuel : nat) (ss : subsets) (new_label cs_label label : lbl) (i : Z) : res lbl :=
  match fuel with
  | O => OutOfFuel
  | S f => if has_key cs_label ss then old_free_name f ss new_label cs_label (suffix new_label i) (i + 1)
           else Ok cs_label
  end.

Definition free_name_fuel (ss : subsets) : nat := S (S (length ss)).

(* body of `for cidx, cm in enumerate(char_matrices)`; acc = concatenated_chars *)
Fixpoint concat_loop (T : list tid) (ns0 : nsid) (nseqs : Z) (cms : list matrix) (cidx : Z)
         (acc : matrix) (pos : Z) : res matrix :=
  match cms with
  | [] => Ok acc
  | cm :: rest =>
    if negb (Z.eqb (m_ns cm) ns0) then Err ValueErr
    else if negb (Z.eqb (zlen (m_rows cm)) (zlen T)) then Err ValueErr
    else if negb (Z.eqb (zlen (m_rows cm)) nseqs) then Err ValueErr
    else
      match T with
      | [] => Err IndexErr                        (* cm[0] -> _resolve_key(0): abs(0) < 0 fails *)
      | t0 :: _ =>
        match aget t0 (m_rows cm) with
        | None => Err AssertErr                   (* cm[0] would create a sequence in the argument;
                                                     impossible for well-formed matrices
                                                     (Proofs: concat_first_row_present) *)
        | Some r0 =>
          if negb (forallb (fun p => Z.eqb (zlen (snd p)) (zlen r0)) (items T (m_rows cm))) then Err ValueErr
          else
            match extend_matrix acc cm with
            | Ok acc1 =>
              let new_label := match m_label cm with None => locus cidx | Some l => l end in
              match free_name (free_name_fuel (m_subs acc1)) (m_subs acc1) new_label new_label 2 with
              | Ok cs_label =>
                let w := vector_size (m_rows cm) in
                match new_character_subset acc1 cs_label (zrange pos w) with
                | Ok acc2 => concat_loop T ns0 nseqs rest (cidx + 1) acc2 (pos + w)
                | Err e => Err e
                | OutOfFuel => OutOfFuel
                end
              | Err e => Err e
              | OutOfFuel => OutOfFuel
              end
            | Err e => Err e
            | OutOfFuel => OutOfFuel
            end
        end
      end
  end.

(* cls.concatenate(char_matrices); taxa_of = members of a namespace *)
Definition concatenate (taxa_of : nsid -> list tid) (cms : list matrix) : res matrix :=
  match cms with
  | [] => Err IndexErr
  | c0 :: _ =>
    concat_loop (taxa_of (m_ns c0)) (m_ns c0) (zlen (m_rows c0)) cms 0 (mkM (m_ns c0) None [] []) 0
  end.

(* what a reader delivers for a matrix written out in iteration order without a title:
   the same rows in namespace order, no label, no subsets (the I/O itself is C09/C13) *)
Definition as_read (taxa_of : nsid -> list tid) (m : matrix) : matrix :=
  mkM (m_ns m) None (items (taxa_of (m_ns m)) (m_rows m)) [].

(* ---- the world: namespaces (fixed), matrices by id in creation order ---- *)
Record world := mkW {
  w_nss : list (nsid * list tid);
  w_ms : list (mid * matrix);
  w_next : mid
}.

Definition taxa_of (w : world) (n : nsid) : list tid :=
  match aget n (w_nss w) with Some T => T | None => [] end.

Definition upd (w : world) (m : mid) (mm : matrix) : world :=
  mkW (w_nss w) (aput m mm (w_ms w)) (w_next w).

Definition add_new (w : world) (mm : matrix) : world :=
  mkW (w_nss w) (w_ms w ++ [(w_next w, mm)]) (w_next w + 1).

Inductive op :=
| Concat (ids : list mid)
| ConcatRead (ids : list mid)
| ExportIdx (m : mid) (idx : list Z)
| ExportSub (m : mid) (l : lbl)
| Fill (m : mid) (v : cell) (size : option Z) (append : bool)
| FillTaxa (m : mid)
| Pack (m : mid) (v : cell) (size : option Z) (append : bool)
| AddSeqs (m o : mid)
| ReplaceSeqs (m o : mid)
| UpdateSeqs (m o : mid)
| ExtendSeqs (m o : mid) (addnew : bool)
| ExtendMatrix (m o : mid)
| RemoveSeqs (m : mid) (ts : list tid)
| DiscardSeqs (m : mid) (ts : list tid)
| KeepSeqs (m : mid) (ts : list tid)
| NewSeq (m : mid) (t : tid) (vals : row)
| SetItem (m : mid) (k : key) (vals : row)
| GetItem (m : mid) (k : key)
| NewSubset (m : mid) (l : lbl) (idx : list Z).

Inductive out :=
| OUnit
| ORow (r : row)
| OInt (z : Z)
| ONew (m : mid)
| OErr (e : err).

Definition lift (w : world) (m : mid) (r : res matrix) (o : out) : world * out :=
  match r with
  | Ok mm => (upd w m mm, o)
  | Err e => (w, OErr e)
  | OutOfFuel => (w, OErr Hang)
  end.

Definition lift_new (w : world) (r : res matrix) : world * out :=
  match r with
  | Ok mm => (add_new w mm, ONew (w_next w))
  | Err e => (w, OErr e)
  | OutOfFuel => (w, OErr Hang)
  end.

Fixpoint get_all (ms : list (mid * matrix)) (ids : list mid) : option (list matrix) :=
  match ids with
  | [] => Some []
  | i :: r => match aget i ms, get_all ms r with
              | Some m, Some l => Some (m :: l)
              | _, _ => None
              end
  end.

(* the matrix the operation is a method of (None: class methods / exports create a new one) *)
Definition receiver (o : op) : option mid :=
  match o with
  | Concat _ | ConcatRead _ | ExportIdx _ _ | ExportSub _ _ => None
  | Fill m _ _ _ | FillTaxa m | Pack m _ _ _ | AddSeqs m _ | ReplaceSeqs m _ | UpdateSeqs m _
  | ExtendSeqs m _ _ | ExtendMatrix m _ | RemoveSeqs m _ | DiscardSeqs m _ | KeepSeqs m _
  | NewSeq m _ _ | SetItem m _ _ | GetItem m _ | NewSubset m _ _ => Some m
  end.

Definition bad_id : world -> world * out := fun w => (w, OErr OtherErr).

Definition with1 (w : world) (m : mid) (f : list tid -> matrix -> world * out) : world * out :=
  match aget m (w_ms w) with
  | Some mm => f (taxa_of w (m_ns mm)) mm
  | None => bad_id w
  end.

Definition with2 (w : world) (m o : mid) (f : matrix -> matrix -> world * out) : world * out :=
  match aget m (w_ms w), aget o (w_ms w) with
  | Some mm, Some mo => f mm mo
  | _, _ => bad_id w
  end.

Definition step (w : world) (o : op) : world * out :=
  match o with
  | Concat ids =>
    match get_all (w_ms w) ids with
    | Some cms => lift_new w (concatenate (taxa_of w) cms)
    | None => bad_id w
    end
  | ConcatRead ids =>
    match get_all (w_ms w) ids with
    | Some cms => lift_new w (concatenate (taxa_of w) (map (as_read (taxa_of w)) cms))
    | None => bad_id w
    end
  | ExportIdx m idx => with1 w m (fun T mm => lift_new w (Ok (export_character_indices T mm idx)))
  | ExportSub m l => with1 w m (fun T mm => lift_new w (export_character_subset T mm l))
  | Fill m v size append =>
    with1 w m (fun T mm => let '(mm', s) := fill T mm v size append in (upd w m mm', OInt s))
  | FillTaxa m => with1 w m (fun T mm => (upd w m (fill_taxa T mm), OUnit))
  | Pack m v size append =>
    with1 w m (fun T mm => let '(mm', _) := pack T mm v size append in (upd w m mm', OUnit))
  | AddSeqs m o => with2 w m o (fun mm mo => lift w m (add_sequences mm mo) OUnit)
  | ReplaceSeqs m o => with2 w m o (fun mm mo => lift w m (replace_sequences mm mo) OUnit)
  | UpdateSeqs m o => with2 w m o (fun mm mo => lift w m (update_sequences mm mo) OUnit)
  | ExtendSeqs m o addnew =>
    with2 w m o (fun mm mo => lift w m (extend_sequences mm mo addnew) OUnit)
  | ExtendMatrix m o =>
    with2 w m o (fun mm mo => lift w m (extend_matrix mm mo) OUnit)
  | RemoveSeqs m ts =>
    with1 w m (fun T mm => let '(rs, e) := remove_rows (m_rows mm) ts in
                           (upd w m (set_rows mm rs), match e with None => OUnit | Some x => OErr x end))
  | DiscardSeqs m ts => with1 w m (fun T mm => (upd w m (set_rows mm (discard_rows (m_rows mm) ts)), OUnit))
  | KeepSeqs m ts => with1 w m (fun T mm => (upd w m (set_rows mm (keep_rows (m_rows mm) ts)), OUnit))
  | NewSeq m t vals => with1 w m (fun T mm => lift w m (new_sequence T mm t vals) (ORow vals))
  | SetItem m k vals => with1 w m (fun T mm => lift w m (setitem T mm k vals) OUnit)
  | GetItem m k =>
    with1 w m (fun T mm => match getitem T mm k with
                           | Ok (mm', r) => (upd w m mm', ORow r)
                           | Err e => (w, OErr e)
                           | OutOfFuel => (w, OErr Hang)
                           end)
  | NewSubset m l idx => with1 w m (fun T mm => lift w m (new_character_subset mm l idx) OUnit)
  end.

Definition run_world (w : world) (ops : list op) : world :=
  fold_left (fun w o => fst (step w o)) ops w.

End WithLabels.

(* ---- comparison with the implementation's observation (cases.v) ---- *)
Definition zl_eqb := list_eqb Z.eqb.
Definition row_eqb (a b : tid * row) : bool := Z.eqb (fst a) (fst b) && zl_eqb (snd a) (snd b).
Definition sub_eqb (a b : lbl * list Z) : bool := Z.eqb (fst a) (fst b) && zl_eqb (snd a) (snd b).

Definition matrix_eqb (a b : matrix) : bool :=
  Z.eqb (m_ns a) (m_ns b) && option_eqb Z.eqb (m_label a) (m_label b)
  && list_eqb row_eqb (m_rows a) (m_rows b) && list_eqb sub_eqb (m_subs a) (m_subs b).

Definition idm_eqb (a b : mid * matrix) : bool := Z.eqb (fst a) (fst b) && matrix_eqb (snd a) (snd b).

Definition out_eqb (a b : out) : bool :=
  match a, b with
  | OUnit, OUnit => true
  | ORow x, ORow y => zl_eqb x y
  | OInt x, OInt y => Z.eqb x y
  | ONew x, ONew y => Z.eqb x y
  | OErr x, OErr y => err_eqb x y
  | _, _ => false
  end.

(* matrices of `after` that are new or differ from their state in `before`
   (every matrix is compared, so an argument the implementation modified shows up) *)
Definition delta (before after : list (mid * matrix)) : list (mid * matrix) :=
  filter (fun p => match aget (fst p) before with
                   | Some m => negb (matrix_eqb m (snd p))
                   | None => true
                   end) after.

Definition tbl1 (t : list (Z * Z)) (dflt : Z -> Z) (x : Z) : Z :=
  match aget x t with Some y => y | None => dflt x end.

Definition tbl2 (t : list (Z * list (Z * Z))) (l i : Z) : Z :=
  match aget l t with
  | Some r => match aget i r with Some y => y | None => -(1000000 + 1000 * l + i) end
  | None => -(1000000 + 1000 * l + i)
  end.

Record case := mkCase {
  c_lower : list (lbl * lbl);                    (* str.lower on the label pool *)
  c_suffix : list (lbl * list (Z * lbl));        (* "%s_%03d" % (l, i) on the pool *)
  c_locus : list (Z * lbl);                      (* "locus%03d" % i *)
  c_nss : list (nsid * list tid);
  c_init : list (mid * matrix);
  c_ops : list op;
  c_expected : list (out * list (mid * matrix))  (* per step: result, matrices that changed *)
}.

Definition case_step (c : case) := step (tbl1 (c_lower c) (fun x => x)) (tbl2 (c_suffix c)) (tbl1 (c_locus c) (fun i => -(2000000 + i))).

Definition case_world (c : case) : world := mkW (c_nss c) (c_init c) (zlen (c_init c)).

Fixpoint run_trace (c : case) (w : world) (ops : list op) : list (out * list (mid * matrix)) :=
  match ops with
  | [] => []
  | o :: r => let '(w', x) := case_step c w o in (x, delta (w_ms w) (w_ms w')) :: run_trace c w' r
  end.

Definition case_run (c : case) := run_trace c (case_world c) (c_ops c).

Definition trace_eqb (a b : out * list (mid * matrix)) : bool :=
  out_eqb (fst a) (fst b) && list_eqb idm_eqb (snd a) (snd b).

Definition case_ok (c : case) : bool := list_eqb trace_eqb (case_run c) (c_expected c).
