(* C02 correspondence cases: concrete instance of Model/Newick.v and the `case` record.

   Edge lengths are carried as their numeral text (L := str): the writer side gets
   "{}".format(edge.length) computed by the harness (Python's float formatting is outside the
   anchored code), the reader side gets Python's float(token) as a table token -> repr(float)
   (None = ValueError) for every token that follows a ':' in the text.
   str.lower is character-wise ASCII lower-casing plus a table for the non-ASCII letters the
   harness uses (the harness checks that str.lower is character-wise on its strings). *)
From Coq Require Import ZArith List Bool.
From DV Require Import Model.PyPrims Gen.CharClasses Model.Tokenizer Model.Newick.
Import ListNotations.
Open Scope Z_scope.

Definition lower_char (tbl : list (Z * Z)) (c : Z) : Z :=
  if (65 <=? c) && (c <=? 90) then c + 32
  else match find (fun p => fst p =? c) tbl with Some p => snd p | None => c end.

Definition lower_with (tbl : list (Z * Z)) (s : str) : str := map (lower_char tbl) s.

Definition parse_len_with (tbl : list (str * option str)) (tok : str) : option str :=
  match assoc tok tbl with Some r => r | None => None end.

Definition ntree_s := ntree str.
Definition ptree_s := ptree str.

Fixpoint ptree_eqb (a b : ptree_s) : bool :=
  match a, b with
  | PN x l e c ks, PN x' l' e' c' ks' =>
    option_eqb Nat.eqb x x' && option_eqb str_eqb l l' && option_eqb str_eqb e e'
    && list_eqb str_eqb c c' &&
    (fix go (p q : list ptree_s) : bool :=
       match p, q with
       | [], [] => true
       | a1 :: r1, b1 :: r2 => ptree_eqb a1 b1 && go r1 r2
       | _, _ => false
       end) ks ks'
  end.

Definition obool_eqb (a b : option bool) : bool := option_eqb Bool.eqb a b.

Definition pr_eqb (a b : ptree_result str) : bool :=
  obool_eqb (pr_is_rooted a) (pr_is_rooted b)
  && list_eqb str_eqb (pr_comments a) (pr_comments b)
  && ptree_eqb (pr_tree a) (pr_tree b).

Definition read_result := res (list (ptree_result str) * list str).

Definition read_result_eqb (a b : read_result) : bool :=
  res_eqb (fun x y => list_eqb pr_eqb (fst x) (fst y) && list_eqb str_eqb (snd x) (snd y)) a b.

(* writer flags in the order of Newick.wopts (the taxon-token function is given as a table) *)
Record case : Type := mkCase {
  c_lower : list (Z * Z);
  c_floats : list (str * option str);
  (* writer side; c_trees = [] means: reader-only case *)
  c_wflags : list bool;      (* suppress_leaf_taxon_labels; suppress_leaf_node_labels;
                                suppress_internal_taxon_labels; suppress_internal_node_labels;
                                suppress_rooting; suppress_edge_lengths; unquoted_underscores;
                                preserve_spaces *)
  c_tokmap : list (str * str);
  c_trees : list (option bool * ntree_s);
  c_written : str;           (* what the implementation wrote *)
  (* reader side *)
  c_ropts : ropts;
  c_ns0 : list str;          (* labels of the namespace read into *)
  c_text : str;
  c_read : read_result       (* what the implementation delivered *)
}.

Definition nthb (l : list bool) (i : nat) : bool := nth i l false.

Definition case_wopts (c : case) : wopts :=
  let f := c_wflags c in
  mkWopts (nthb f 0) (nthb f 1) (nthb f 2) (nthb f 3) (nthb f 4) (nthb f 5) (nthb f 6) (nthb f 7)
          (fun l => match assoc l (c_tokmap c) with Some t => t | None => l end).

Definition case_write (c : case) : str :=
  write_tree_list str (fun x => x) (case_wopts c) (c_trees c).

Definition case_read (c : case) : read_result :=
  read_newick str (parse_len_with (c_floats c)) (lower_with (c_lower c)) (c_ropts c) (c_ns0 c) (c_text c).

Definition case_ok (c : case) : bool :=
  (is_nil (c_trees c) || (Nat.eqb (length (c_wflags c)) 8 && str_eqb (case_write c) (c_written c)))
  && read_result_eqb (case_read c) (c_read c).

(* diagnostics *)
Definition case_show (c : case) := (case_write c, case_read c).
