(* C15, object level: run-time library of the generated mutator code (Gen/TraversalsObj.v).

   Hand-written and fixed: the (trusted) meaning py/dv/gen_traversals_obj.py gives to the Python
   statements of Node.child_nodes / clear_child_nodes / add_child / set_child_nodes /
   _set_parent_node and Tree._set_seed_node AS TO WHICH LIST OBJECT is read, copied or mutated
   in place.  Nodes and list objects are named by integers; a store maps

     node id   -> (the id of the list object in x._child_nodes, x._parent_node)
     list id   -> its current contents (node ids)

   so two attributes / variables holding the SAME list object are distinguishable from two equal
   lists, and an in-place mutation is seen through every reference.

     x._child_nodes              o_child_list x        (the list OBJECT)
     x._parent_node              o_get_parent x
     x._parent_node = p          o_set_parent x p
     list(l)                     l_copy l              (a NEW list object with the same contents)
     l.clear()                   l_clear l             (in place)
     l.append(y)                 l_append l y          (in place)
     l.remove(y)                 l_remove l y          (in place, first occurrence; ValueError)
     y in l / y not in l         l_mem l y             (Node.__eq__ is identity)
     for y in l: body            l_contents l, then mfor (snapshot at loop entry: exact as long as
                                 the body does not mutate l itself)
     try: S except ValueError: pass     mtry_value S
     t._seed_node = x            t_set_seed t x   (trees are indices into the list of live trees) *)
From Coq Require Import ZArith List Bool.
From DV Require Import Model.PyPrims.
Import ListNotations.
Open Scope Z_scope.

Record nrec : Type := mkN { n_kids : Z; n_parent : option Z }.

Record store : Type := mkS {
  s_nodes : list (Z * nrec);        (* node id -> record *)
  s_lists : list (Z * list Z);      (* list object id -> contents *)
  s_next : Z;                       (* ids >= s_next name no list object yet *)
  s_trees : list Z;                 (* tree index -> seed node id *)
  s_held : list Z                   (* list objects the caller holds (results of child_nodes()) *)
}.

Fixpoint alookup {A} (k : Z) (l : list (Z * A)) : option A :=
  match l with
  | [] => None
  | (k', v) :: r => if Z.eqb k k' then Some v else alookup k r
  end.

Fixpoint aset {A} (k : Z) (v : A) (l : list (Z * A)) : list (Z * A) :=
  match l with
  | [] => [(k, v)]
  | (k', v') :: r => if Z.eqb k k' then (k, v) :: r else (k', v') :: aset k v r
  end.

Definition M (A : Type) : Type := store -> res (A * store).
Definition ret {A} (a : A) : M A := fun s => Ok (a, s).
Definition raise {A} (e : err) : M A := fun _ => Err e.
Definition mbind {A B} (m : M A) (f : A -> M B) : M B :=
  fun s => match m s with Ok (a, s') => f a s' | Err e => Err e | OutOfFuel => OutOfFuel end.

Definition node_of (s : store) (x : Z) : option nrec := alookup x (s_nodes s).
Definition list_of (s : store) (l : Z) : option (list Z) := alookup l (s_lists s).

Definition set_lists (s : store) (ls : list (Z * list Z)) : store :=
  mkS (s_nodes s) ls (s_next s) (s_trees s) (s_held s).
Definition set_nodes (s : store) (ns : list (Z * nrec)) : store :=
  mkS ns (s_lists s) (s_next s) (s_trees s) (s_held s).

Definition o_child_list (x : Z) : M Z :=
  fun s => match node_of s x with Some r => Ok (n_kids r, s) | None => Err AttrErr end.

Definition o_get_parent (x : Z) : M (option Z) :=
  fun s => match node_of s x with Some r => Ok (n_parent r, s) | None => Err AttrErr end.

Definition o_set_parent (x : Z) (p : option Z) : M unit :=
  fun s => match node_of s x with
           | Some r => Ok (tt, set_nodes s (aset x (mkN (n_kids r) p) (s_nodes s)))
           | None => Err AttrErr
           end.

Definition l_contents (l : Z) : M (list Z) :=
  fun s => match list_of s l with Some c => Ok (c, s) | None => Err TypeErr end.

Definition l_put (l : Z) (c : list Z) : M unit :=
  fun s => match list_of s l with
           | Some _ => Ok (tt, set_lists s (aset l c (s_lists s)))
           | None => Err TypeErr
           end.

(* list(l): allocates the next list object *)
Definition l_copy (l : Z) : M Z :=
  fun s => match list_of s l with
           | Some c => Ok (s_next s, mkS (s_nodes s) (s_lists s ++ [(s_next s, c)]) (s_next s + 1) (s_trees s) (s_held s))
           | None => Err TypeErr
           end.

Definition l_clear (l : Z) : M unit := l_put l [].
Definition l_append (l : Z) (y : Z) : M unit := mbind (l_contents l) (fun c => l_put l (c ++ [y])).

Definition memZ (y : Z) (c : list Z) : bool := existsb (Z.eqb y) c.
Definition l_mem (l : Z) (y : Z) : M bool := mbind (l_contents l) (fun c => ret (memZ y c)).

Fixpoint remove_first (y : Z) (c : list Z) : list Z :=
  match c with
  | [] => []
  | x :: r => if Z.eqb y x then r else x :: remove_first y r
  end.

Definition l_remove (l : Z) (y : Z) : M unit :=
  mbind (l_contents l) (fun c => if memZ y c then l_put l (remove_first y c) else raise ValueErr).

(* try: m  except ValueError: pass      (m's effects before the raise are kept: none here, l.remove
   raises before it mutates) *)
Definition mtry_value (m : M unit) : M unit :=
  fun s => match m s with Err ValueErr => Ok (tt, s) | r => r end.

Fixpoint mfor (xs : list Z) (body : Z -> M unit) : M unit :=
  match xs with
  | [] => ret tt
  | x :: r => mbind (body x) (fun _ => mfor r body)
  end.

Definition t_set_seed (t : Z) (x : option Z) : M unit :=
  fun s => match x with
           | Some n =>
             if Z.ltb t 0 then Err IndexErr else
             if Z.ltb t (Z.of_nat (length (s_trees s)))
             then Ok (tt, mkS (s_nodes s) (s_lists s) (s_next s)
                              (firstn (Z.to_nat t) (s_trees s) ++ n :: skipn (S (Z.to_nat t)) (s_trees s)) (s_held s))
             else if Z.eqb t (Z.of_nat (length (s_trees s)))      (* a Tree object being constructed *)
             then Ok (tt, mkS (s_nodes s) (s_lists s) (s_next s) (s_trees s ++ [n]) (s_held s))
             else Err IndexErr
           | None => Err OtherErr      (* trees without a seed node are outside this model *)
           end.

Definition opt_is (o : option Z) (y : Z) : bool := match o with Some x => Z.eqb x y | None => false end.
