(* C05, wave 6: hand model of the DECORATION part of SplitDistributionSummarizer
   (configure with its defaults, _decorate, node labels, the support / age_* / length_* fields
   written per node and per edge), over the functions of C05Model.v (get_freqs, calc_summaries,
   support_of) and the value vocabulary of C05GenPrims4.v.  Definitions only.
   Gen/SplitDistDeco.v (generated from the source on every run) is proved equal to it in
   Proofs/C05GenDeco.v; the correspondence run (py/dv/c05_deco.py, dcase_ok) compares it with the
   real library after every summarize_splits_on_tree call. *)
From Coq Require Import ZArith QArith Qabs Qreduction List Bool String.
From DV Require Import Model.PyPrims Gen.BitFns Model.C05Model Model.C05Spec Model.C05Model2
     Model.C05GenPrims Model.C05GenPrims2 Model.C05GenPrims4.
Import ListNotations.
Open Scope Z_scope.

(* ---------------------------------------------------------------- configure *)
Definition stats_fields : list string := ["mean"; "median"; "sd"; "hpd95"; "quant_5_95"; "range"]%string.
Definition age_fields : list string := map (fun f => ("age_" ++ f)%string) stats_fields.
Definition length_fields : list string := map (fun f => ("length_" ++ f)%string) stats_fields.
Definition all_fields : list string := ("support"%string :: age_fields) ++ length_fields.

(* the three attributes configure sets per field: "<f>_attr_name", "<f>_annotation_name" (default: f),
   "is_<f>_annotation_dynamic" (default: True) *)
Definition field_dyn (kw : skw) (f : string) : list (string * dynv) :=
  [((f ++ "_attr_name")%string, py_sdict_get (kw_dyn kw) (f ++ "_attr_name")%string (DvStr f));
   ((f ++ "_annotation_name")%string, py_sdict_get (kw_dyn kw) (f ++ "_annotation_name")%string (DvStr f));
   (("is_" ++ f ++ "_annotation_dynamic")%string,
    py_sdict_get (kw_dyn kw) ("is_" ++ f ++ "_annotation_dynamic")%string (DvBool true))].

Definition dflt {A} (o : option A) (d : A) : A := match o with Some x => x | None => d end.

(* SplitDistributionSummarizer( **kw) and .configure( **kw): every option with its default *)
Definition configure (kw : skw) : dopts :=
  mkDopts (dflt (kw_set_edge_lengths kw) ELNone)
          (dflt (kw_add_support_as_node_attribute kw) true)
          (dflt (kw_add_support_as_node_annotation kw) true)
          (dflt (kw_set_support_as_node_label kw) None)
          (dflt (kw_add_node_age_summaries_as_node_attributes kw) true)
          (dflt (kw_add_node_age_summaries_as_node_annotations kw) true)
          (dflt (kw_add_edge_length_summaries_as_edge_attributes kw) true)
          (dflt (kw_add_edge_length_summaries_as_edge_annotations kw) true)
          (dflt (kw_support_label_decimals kw) 4)
          (dflt (kw_support_as_percentages kw) false)
          (dflt (kw_support_label_compose_fn kw) None)
          ["support"%string] stats_fields
          [("hpd95", DEmptyList); ("quant_5_95", DEmptyList); ("range", DEmptyList)]%string
          age_fields length_fields all_fields
          (flat_map (field_dyn kw) all_fields)
          (dflt (kw_minimum_edge_length kw) None)
          (dflt (kw_error_on_negative_edge_lengths kw) false).

(* ---------------------------------------------------------------- _decorate *)
Record fnames := mkFn { fn_attr : string; fn_annot : string; fn_dynamic : bool }.

(* what _decorate does to one object once the names are known:
     set_attribute  -> setattr(target, attr, value)
     set_annotation -> every annotation called annot is dropped and ONE is added: bound to the
                       attribute when the attribute was set and the field is dynamic, else carrying
                       the value *)
Definition decorate_with (nm : fnames) (t : deco) (v : dval) (sa sn : bool) : deco :=
  let t1 := if sa then py_setattr t (fn_attr nm) v else t in
  if sn then
    let t2 := py_annotations_drop t1 (fn_annot nm) in
    if sa && fn_dynamic nm then py_add_bound_attribute t2 (fn_attr nm) (fn_annot nm)
    else py_add_new t2 (fn_annot nm) v
  else t1.

(* the names are looked up on the summarizer (AttributeError when configure never set them); the
   dynamic flag only when both flags are set *)
Definition decorate (o : dopts) (t : deco) (f : string) (v : dval) (sa sn : bool) : res deco :=
  bind (py_getattr_str o (py_format1 "{}_attr_name" f)) (fun a =>
  bind (py_getattr_str o (py_format1 "{}_annotation_name" f)) (fun n =>
  if sa && sn
  then bind (py_getattr_truth o (py_format1 "is_{}_annotation_dynamic" f)) (fun d =>
       Ok (decorate_with (mkFn a n d) t v true true))
  else Ok (decorate_with (mkFn a n false) t v sa sn))).

(* ---------------------------------------------------------------- field values *)
(* the entry of the summary dict of one split under a statistics field name *)
Definition summary_field (sm : summary) (f : string) (nodata : dval) : dval :=
  if String.eqb f "mean" then DFloat (s_mean sm)
  else if String.eqb f "median" then DFloat (s_median sm)
  else if String.eqb f "sd" then DSqrt (s_var sm)
  else if String.eqb f "range" then DPair (s_min sm) (s_max sm)
  else if String.eqb f "hpd95" then DOpaque f
  else if String.eqb f "quant_5_95" then DOpaque f
  else if String.eqb f "var" then match s_var sm with Some v => DFloat v | None => DSqrt None end
  else nodata.

(* value decorated for statistics field f of split s: the no-data value (0.0, or [] for the
   interval fields) when the split has no summary *)
Definition field_value (tbl : list (Z * summary)) (nodata : list (string * dval)) (s : Z) (f : string) : dval :=
  let nd := py_sdict_get nodata f (DFloat 0) in
  match aget s tbl with Some sm => summary_field sm f nd | None => nd end.

Fixpoint decorate_fields (o : dopts) (tbl : list (Z * summary)) (s : Z) (sa sn : bool)
         (fs : list (string * string)) (t : deco) : res deco :=
  match fs with
  | [] => Ok t
  | (fieldname, stat) :: r =>
    bind (decorate o t fieldname (field_value tbl (d_no_data_values o) s stat) sa sn)
         (fun t' => decorate_fields o tbl s sa sn r t')
  end.

(* node.label = "{:.{places}f}".format(support, places=support_label_decimals), or the user's
   function of the support *)
Definition label_of (o : dopts) (sup : Q) : res dlabel :=
  match d_support_label_compose_fn o with
  | Some _ => Ok (LComposed sup)
  | None => py_label_format sup (d_support_label_decimals o)
  end.

Definition nonempty {A} (l : list A) : bool := match l with [] => false | _ => true end.

(* one node: support (scaled by 100 under support_as_percentages), label, age_* on the node,
   length_* on the edge; the summary loops run only when a flag asks for them AND the table is
   not empty *)
Definition deco_node (o : dopts) (ftbl : list (Z * Q)) (lsum asum : list (Z * summary)) (n : dnode) : res dnode :=
  let s := dn_split n in
  let sup := support_of ftbl (d_sopts o) s in
  bind (decorate o (dn_node n) "support" (DFloat sup)
                 (d_add_support_as_node_attribute o) (d_add_support_as_node_annotation o)) (fun nd =>
  bind (if truthy (d_set_support_as_node_label o)
        then bind (label_of o sup) (fun l => Ok (Some l)) else Ok (dn_label n)) (fun lb =>
  bind (if (d_add_node_age_summaries_as_node_attributes o || d_add_node_age_summaries_as_node_annotations o)
           && nonempty asum
        then decorate_fields o asum s (d_add_node_age_summaries_as_node_attributes o)
                             (d_add_node_age_summaries_as_node_annotations o)
                             (zip (d_node_age_summaries_fieldnames o) (d_summary_stats_fieldnames o)) nd
        else Ok nd) (fun nd' =>
  bind (if (d_add_edge_length_summaries_as_edge_attributes o || d_add_edge_length_summaries_as_edge_annotations o)
           && nonempty lsum
        then decorate_fields o lsum s (d_add_edge_length_summaries_as_edge_attributes o)
                             (d_add_edge_length_summaries_as_edge_annotations o)
                             (zip (d_edge_length_summaries_fieldnames o) (d_summary_stats_fieldnames o)) (dn_edge n)
        else Ok (dn_edge n)) (fun ed' =>
  Ok (mkDn s nd' ed' lb))))).

Fixpoint mapM {A B} (f : A -> res B) (l : list A) : res (list B) :=
  match l with
  | [] => Ok []
  | x :: r => bind (f x) (fun y => bind (mapM f r) (fun ys => Ok (y :: ys)))
  end.

(* the decoration view of summarize_splits_on_tree on the nodes in preorder *)
Definition deco_tree (d : sd) (o : dopts) (t : list dnode) : sd * res (list dnode) :=
  let asum := calc_summaries (nages d) in
  let lsum := calc_summaries (elens d) in
  let '(d', ftbl) := get_freqs d in
  (d', mapM (deco_node o ftbl lsum asum) t).

(* ---------------------------------------------------------------- correspondence case *)
(* one distribution filled with the trees, one target tree (its split bitmasks in preorder, as the
   library encoded them); summarize_splits_on_tree(target, ** kw) is called once per element of
   dc_calls ON THE SAME TARGET (so later calls meet the attributes and annotations of earlier
   ones); after every call the harness reads, per node, the instance attributes written on the
   node and on its edge (everything outside a fresh object's attributes and outside `age`), the
   annotations in order, and node.label. *)
Record dcase := mkDcase {
  dc_cfg : config;
  dc_trees : list tree_in;
  dc_target : list Z;
  dc_calls : list skw;
  dc_expected : list (res (list dnode))
}.

Definition dval_close (m ob : dval) : bool :=
  match m, ob with
  | DFloat a, DFloat b => q_close_rel tol9 a b
  | DNone, DNone => true
  | DPair a b, DPair a' b' => Qeq_bool a a' && Qeq_bool b b'
  | DEmptyList, DEmptyList => true
  | DSqrt None, DSqrt None => true
  (* the harness hands over the observed sd as DSqrt (Some sd): compare sd^2 with the variance *)
  | DSqrt (Some v), DSqrt (Some s) => q_close_rel tol9 v (s * s)%Q
  | DOpaque f, DOpaque g => String.eqb f g
  (* a plain number under an sd field (the no-data value 0.0): the harness files every value of an
     sd field as DSqrt (Some value) *)
  | DFloat a, DSqrt (Some s) => q_close_rel tol9 a s
  | _, _ => false
  end.

Definition annot_close (m ob : annot) : bool :=
  String.eqb (an_name m) (an_name ob)
  && option_eqb String.eqb (an_bound m) (an_bound ob)
  && option_eqb dval_close (an_value m) (an_value ob).

Definition deco_close (m ob : deco) : bool :=
  list_eqb (fun x y => String.eqb (fst x) (fst y) && dval_close (snd x) (snd y)) (dc_attrs m) (dc_attrs ob)
  && list_eqb annot_close (dc_annots m) (dc_annots ob).

(* labels: exact, except where the exact support lies half-way between two decimals (the binary64
   value computed by the library then usually lies strictly on one side): there the label of the
   other neighbour is accepted too (alt_label) *)
Definition alt_label (o : dopts) (sup : Q) : option dlabel :=
  match d_support_label_compose_fn o with
  | Some _ => None
  | None =>
    let p := d_support_label_decimals o in
    let x := (Qabs sup * inject_Z (10 ^ p))%Q in
    if truthy (d_set_support_as_node_label o) && (0 <=? p) && round_is_tie x
    then let fl := Qnum x / Zpos (Qden x) in
         Some (LStr (fixed_string (Qle_bool 0 sup) (if Z.even fl then fl + 1 else fl) p))
    else None
  end.

Definition label_eqb (m ob : option dlabel) : bool :=
  match m, ob with
  | None, None => true
  | Some (LStr a), Some (LStr b) => String.eqb a b
  | Some (LComposed a), Some (LComposed b) => q_close_rel tol9 a b
  | _, _ => false
  end.

Definition label_close (alt m ob : option dlabel) : bool :=
  label_eqb m ob || match alt with Some _ => label_eqb alt ob | None => false end.

Definition dnode_close (alt : option dlabel) (m ob : dnode) : bool :=
  Z.eqb (dn_split m) (dn_split ob) && deco_close (dn_node m) (dn_node ob)
  && deco_close (dn_edge m) (dn_edge ob) && label_close alt (dn_label m) (dn_label ob).

Fixpoint nodes_close (alts : list (option dlabel)) (a b : list dnode) : bool :=
  match a, b with
  | [], [] => true
  | x :: r, y :: s => dnode_close (match alts with h :: _ => h | [] => None end) x y
                      && nodes_close (match alts with _ :: t => t | [] => [] end) r s
  | _, _ => false
  end.

Definition dres_close (m : res (list dnode) * list (option dlabel)) (ob : res (list dnode)) : bool :=
  match fst m, ob with
  | Ok a, Ok b => nodes_close (snd m) a b
  | Err e, Err e' => err_eqb e e'
  | _, _ => false
  end.

(* the calls in order; a failing call leaves the nodes as they were *)
Fixpoint dcase_run_from (d : sd) (nodes : list dnode) (calls : list skw)
  : list (res (list dnode) * list (option dlabel)) :=
  match calls with
  | [] => []
  | kw :: r =>
    let o := configure kw in
    let '(d', out) := deco_tree d o nodes in
    let ftbl := snd (get_freqs d) in
    (out, map (fun n => alt_label o (support_of ftbl (d_sopts o) (dn_split n))) nodes)
      :: dcase_run_from d' (match out with Ok ns => ns | _ => nodes end) r
  end.

Definition dcase_run (c : dcase) :=
  dcase_run_from (count_trees (dc_cfg c) sd_empty (dc_trees c))
                 (map (fun s => mkDn s deco_empty deco_empty None) (dc_target c)) (dc_calls c).

Fixpoint all2 {A B} (f : A -> B -> bool) (a : list A) (b : list B) : bool :=
  match a, b with
  | [], [] => true
  | x :: r, y :: s => f x y && all2 f r s
  | _, _ => false
  end.

Definition dcase_ok (c : dcase) : bool := all2 dres_close (dcase_run c) (dc_expected c).
