(* C16 - executable model of dendropy.model.parsimony (fitch_down_pass, fitch_up_pass,
   parsimony_score) and CharacterMatrix.taxon_state_sets_map, plus the specification side
   (assignments, changes, Sankoff cost).  Definitions only; proofs are in Proofs/C16*.v.

   State sets are Z bitmasks over fundamental state indexes (bit i set <-> state i in the set);
   Python `a.intersection(b)` = Z.land, `a.union(a, b)` = Z.lor, `if inter:` = (inter <> 0).
   A state-set list (one set per character) is `list Z`.
   The node attribute `state_sets` lives in a store  node id -> list Z  (absent = no attribute),
   which persists between calls on the same tree object: this is what makes histories expressible. *)
From Coq Require Import ZArith List Bool.
From DV Require Import Model.PyPrims Model.Tree.
Import ListNotations.
Open Scope Z_scope.

Definition ssl := list Z.

(* ---------- finite maps as association lists (first match wins) ---------- *)
Fixpoint lookup {A} (k : Z) (l : list (Z * A)) : option A :=
  match l with
  | [] => None
  | (k', v) :: r => if Z.eqb k k' then Some v else lookup k r
  end.

Definition store := list (Z * ssl).                 (* node id -> state_sets attribute *)
Definition st_set (s : store) (k : Z) (v : ssl) : store := (k, v) :: s.   (* setattr *)

(* taxon_state_sets_map: taxon -> list of state sets, in the iteration order of the matrix *)
Definition matrix := list (Z * ssl).

(* ---------- CharacterMatrix.taxon_state_sets_map ----------
   alphabet: per state symbol (index into the alphabet) the pair
     (fundamental_indexes, fundamental_indexes_with_gaps_as_missing) as bitmasks.
   A character matrix is taxon -> list of symbol indexes. *)
Definition alphabet := list (Z * Z).
Definition cmatrix := list (Z * list Z).

Definition sym_set (al : alphabet) (gaps_as_missing : bool) (c : Z) : Z :=
  match nth_error al (Z.to_nat c) with
  | Some (f, g) => if gaps_as_missing then g else f
  | None => 0
  end.

Definition taxon_state_sets_map (al : alphabet) (gaps_as_missing : bool) (cm : cmatrix) : matrix :=
  map (fun row => (fst row, map (sym_set al gaps_as_missing) (snd row))) cm.

(* ---------- fitch_down_pass ---------- *)
Record pst := mkP { p_store : store; p_score : Z; p_sbc : option (list Z) }.

(* an exception leaves the store (node attributes) and the caller's score_by_character_list
   as mutated so far; the local `score` is lost *)
Inductive outcome := Done (p : pst) | Fail (p : pst) (e : err).

Definition map_get (m : matrix) (taxon : option Z) : option ssl :=
  match taxon with None => None | Some x => lookup x m end.

(* _retrieve_state_sets_from_attr *)
Definition get_ss (m : option matrix) (st : store) (nd : tree) : store * res ssl :=
  match lookup (t_id nd) st with
  | Some v => (st, Ok v)
  | None =>
    match m with
    | None => (st, Err TypeErr)                     (* None[n.taxon] *)
    | Some mm =>
      match map_get mm (t_taxon nd) with
      | None => (st, Err KeyErr)
      | Some v => (st_set st (t_id nd) v, Ok v)
      end
    end
  end.

Fixpoint list_add_at (l : list Z) (n : nat) (w : Z) : option (list Z) :=
  match l, n with
  | [], _ => None
  | x :: r, O => Some ((x + w) :: r)
  | x :: r, S k => match list_add_at r k w with Some r' => Some (x :: r') | None => None end
  end.

(* for n, ssp in enumerate(zip(left_ssl, right_ssl)): ...     (result is built in reverse) *)
Fixpoint char_loop (w : option (list Z)) (n : nat) (l r : ssl) (acc : ssl) (score : Z)
         (sbc : option (list Z)) : (ssl * Z * option (list Z)) * option err :=
  match l, r with
  | ls :: l', rs :: r' =>
    let inter := Z.land ls rs in
    if negb (Z.eqb inter 0) then char_loop w (S n) l' r' (inter :: acc) score sbc
    else
      match (match w with None => Some 1 | Some ws => nth_error ws n end) with
      | None => ((rev acc, score, sbc), Some IndexErr)           (* weights[n] *)
      | Some wt =>
        let score' := score + wt in
        let acc' := Z.lor ls rs :: acc in
        match sbc with
        | None => char_loop w (S n) l' r' acc' score' None
        | Some sl =>
          match list_add_at sl n wt with
          | None => ((rev acc', score', sbc), Some IndexErr)     (* score_by_character_list[n] *)
          | Some sl' => char_loop w (S n) l' r' acc' score' (Some sl')
          end
        end
      end
  | _, _ => ((rev acc, score, sbc), None)
  end.

(* the `while True:` loop over right_c and the remaining children *)
Fixpoint kids_loop (m : option matrix) (w : option (list Z)) (nd : tree) (left_ssl : ssl)
         (right_c : tree) (remaining : list tree) (p : pst) : outcome :=
  match get_ss m (p_store p) right_c with
  | (st, Err e) => Fail (mkP st (p_score p) (p_sbc p)) e
  | (st, OutOfFuel) => Fail (mkP st (p_score p) (p_sbc p)) OtherErr
  | (st, Ok right_ssl) =>
    match char_loop w O left_ssl right_ssl [] (p_score p) (p_sbc p) with
    | ((_, sc, sb), Some e) => Fail (mkP st sc sb) e
    | ((result, sc, sb), None) =>
      match remaining with
      | [] => Done (mkP (st_set st (t_id nd) result) sc sb)
      | c :: rest => kids_loop m w nd result c rest (mkP st sc sb)
      end
    end
  end.

(* body of `for nd in postorder_node_iter:` *)
Definition node_step (m : option matrix) (w : option (list Z)) (p : pst) (nd : tree) : outcome :=
  match t_kids nd with
  | [] =>
    match m with
    | Some mm =>
      match map_get mm (t_taxon nd) with
      | None => Fail p KeyErr
      | Some v => Done (mkP (st_set (p_store p) (t_id nd) v) (p_score p) (p_sbc p))
      end
    | None =>
      match get_ss None (p_store p) nd with
      | (st, Ok _) => Done (mkP st (p_score p) (p_sbc p))
      | (st, Err e) => Fail (mkP st (p_score p) (p_sbc p)) e
      | (st, OutOfFuel) => Fail (mkP st (p_score p) (p_sbc p)) OtherErr
      end
    end
  | [_] => Fail p ValueErr                          (* left_c, right_c = c[:2] *)
  | left_c :: right_c :: remaining =>
    match get_ss m (p_store p) left_c with
    | (st, Err e) => Fail (mkP st (p_score p) (p_sbc p)) e
    | (st, OutOfFuel) => Fail (mkP st (p_score p) (p_sbc p)) OtherErr
    | (st, Ok left_ssl) => kids_loop m w nd left_ssl right_c remaining (mkP st (p_score p) (p_sbc p))
    end
  end.

Fixpoint run_nodes (m : option matrix) (w : option (list Z)) (nodes : list tree) (p : pst) : outcome :=
  match nodes with
  | [] => Done p
  | nd :: rest =>
    match node_step m w p nd with
    | Done p' => run_nodes m w rest p'
    | f => f
    end
  end.

(* fitch_down_pass(tree.postorder_node_iter(), "state_sets", m, w, sbc)
   `sbc_given`: a (fresh, empty) list is passed as score_by_character_list *)
Definition fitch_down_pass (m : option matrix) (w : option (list Z)) (sbc_given : bool)
           (st : store) (t : tree) : outcome :=
  if sbc_given then
    match m with
    | None => Fail (mkP st 0 (Some [])) AttrErr               (* None.values() *)
    | Some [] => Fail (mkP st 0 (Some [])) IndexErr           (* list(...)[0] *)
    | Some ((_, row0) :: _) =>
      run_nodes m w (postorder t) (mkP st 0 (Some (repeat 0 (length row0))))
    end
  else run_nodes m w (postorder t) (mkP st 0 None).

(* ---------- fitch_up_pass ---------- *)
(* up-pass final set of one character *)
Definition final_set (par cur l r : Z) : Z :=
  let dpi := Z.land par cur in
  if Z.eqb dpi par then dpi
  else if Z.eqb (Z.land l r) 0 then Z.lor par cur
  else Z.lor (Z.lor (Z.land par l) (Z.land par r)) cur.

Fixpoint zip4 (a b c d : ssl) : ssl :=
  match a, b, c, d with
  | x :: a', y :: b', z :: c', u :: d' => final_set x y z u :: zip4 a' b' c' d'
  | _, _, _, _ => []
  end.

(* getattr(child, name) with the taxon_state_sets_map fall-back (`if not map: raise`) *)
Definition up_get (m : option matrix) (st : store) (nd : tree) : res ssl :=
  match lookup (t_id nd) st with
  | Some v => Ok v
  | None =>
    match m with
    | None | Some [] => Err AttrErr
    | Some mm => match map_get mm (t_taxon nd) with Some v => Ok v | None => Err KeyErr end
    end
  end.

Definition attr_get (st : store) (nd : tree) : res ssl :=
  match lookup (t_id nd) st with Some v => Ok v | None => Err AttrErr end.

(* preorder walk carrying the parent; returns the store and an error if one was raised *)
Fixpoint up_walk (m : option matrix) (parent : option tree) (t : tree) (st : store) {struct t}
  : store * option err :=
  match t with
  | T i x lb e ks =>
    let here : store * option err :=
      match ks, parent with
      | [], _ => (st, None)
      | _, None => (st, None)
      | [lc; rc], Some p =>
        match up_get m st lc with
        | Err er => (st, Some er) | OutOfFuel => (st, Some OtherErr)
        | Ok lss =>
          match up_get m st rc with
          | Err er => (st, Some er) | OutOfFuel => (st, Some OtherErr)
          | Ok rss =>
            match attr_get st p with
            | Err er => (st, Some er) | OutOfFuel => (st, Some OtherErr)
            | Ok pss =>
              match attr_get st t with
              | Err er => (st, Some er) | OutOfFuel => (st, Some OtherErr)
              | Ok css => (st_set st i (zip4 pss css lss rss), None)
              end
            end
          end
        end
      | _, Some _ => (st, Some AssertErr)                     (* assert(len(c) == 2) *)
      end in
    match here with
    | (st1, Some er) => (st1, Some er)
    | (st1, None) =>
      (fix go (l : list tree) (s : store) : store * option err :=
         match l with
         | [] => (s, None)
         | k :: r =>
           match up_walk m (Some t) k s with
           | (s', Some er) => (s', Some er)
           | (s', None) => go r s'
           end
         end) ks st1
    end
  end.

Definition fitch_up_pass (m : option matrix) (st : store) (t : tree) : store * option err :=
  up_walk m None t st.

(* ---------- the calls of a history ---------- *)
Inductive api :=
| ParsimonyScore (same_namespace : bool)   (* treescore.parsimony_score(tree, chars, gaps_as_missing, weights, sbc) *)
| DownPass (with_map : bool)               (* fitch_down_pass(tree.postorder_node_iter(), taxon_state_sets_map=map|None, ...) *)
| UpPass (with_map : bool).                (* fitch_up_pass(tree.preorder_node_iter(), taxon_state_sets_map=map|None) *)

Record call := mkCall {
  k_api : api;
  k_alpha : alphabet;
  k_gam : bool;
  k_chars : cmatrix;
  k_weights : option (list Z);
  k_sbc : bool }.

(* what the harness observes after a call: result, the score_by_character_list passed in,
   and getattr(node, "state_sets", None) of every node in preorder *)
Record obs := mkObs { o_res : res Z; o_sbc : option (list Z); o_attrs : list (option ssl) }.

Definition dump (st : store) (t : tree) : list (option ssl) :=
  map (fun n => lookup (t_id n) st) (preorder t).

Definition call_map (c : call) : matrix := taxon_state_sets_map (k_alpha c) (k_gam c) (k_chars c).

Definition outcome_obs (o : outcome) (t : tree) : store * obs :=
  match o with
  | Done p => (p_store p, mkObs (Ok (p_score p)) (p_sbc p) (dump (p_store p) t))
  | Fail p e => (p_store p, mkObs (Err e) (p_sbc p) (dump (p_store p) t))
  end.

Definition run_call (t : tree) (st : store) (c : call) : store * obs :=
  let sb0 := if k_sbc c then Some [] else None in
  match k_api c with
  | ParsimonyScore false => (st, mkObs (Err ValueErr) sb0 (dump st t))   (* TaxonNamespaceIdentityError *)
  | ParsimonyScore true =>
    outcome_obs (fitch_down_pass (Some (call_map c)) (k_weights c) (k_sbc c) st t) t
  | DownPass wm =>
    outcome_obs (fitch_down_pass (if wm then Some (call_map c) else None) (k_weights c) (k_sbc c) st t) t
  | UpPass wm =>
    match fitch_up_pass (if wm then Some (call_map c) else None) st t with
    | (st', None) => (st', mkObs (Ok 0) None (dump st' t))
    | (st', Some e) => (st', mkObs (Err e) None (dump st' t))
    end
  end.

Fixpoint run_history (t : tree) (st : store) (cs : list call) : list obs :=
  match cs with
  | [] => []
  | c :: r => let '(st', o) := run_call t st c in o :: run_history t st' r
  end.

(* the score (or error) and per-character list of one scoring call: what the property speaks about *)
Definition result_of (o : obs) : res Z * option (list Z) := (o_res o, o_sbc o).

(* ---------- correspondence case ---------- *)
(* a run: a tree object (fresh store), the indexes of the calls made on it in order, and the
   observations expected after each *)
Record run := mkRun { r_tree : tree; r_calls : list nat; r_expected : list obs;
                      r_maps : list matrix (* observed taxon_state_sets_map per call *) }.
Record case := mkCase { c_calls : list call; c_runs : list run }.

Definition ssl_eqb := list_eqb Z.eqb.
Definition obs_eqb (a b : obs) : bool :=
  res_eqb Z.eqb (o_res a) (o_res b) &&
  option_eqb (list_eqb Z.eqb) (o_sbc a) (o_sbc b) &&
  list_eqb (option_eqb ssl_eqb) (o_attrs a) (o_attrs b).

Definition matrix_eqb (a b : matrix) : bool :=
  list_eqb (fun x y => Z.eqb (fst x) (fst y) && ssl_eqb (snd x) (snd y)) a b.

Definition dummy_call := mkCall (UpPass false) [] true [] None false.

Definition run_calls (c : case) (r : run) : list call :=
  map (fun i => nth i (c_calls c) dummy_call) (r_calls r).

Definition run_model (c : case) (r : run) : list obs := run_history (r_tree r) [] (run_calls c r).

Definition run_ok (c : case) (r : run) : bool :=
  list_eqb obs_eqb (run_model c r) (r_expected r) &&
  list_eqb matrix_eqb (map call_map (run_calls c r)) (r_maps r) &&
  forallb (fun i => Nat.ltb i (length (c_calls c))) (r_calls r).

Definition case_ok (c : case) : bool := forallb (run_ok c) (c_runs c).
Definition case_show (c : case) := map (run_model c) (c_runs c).

(* =====================================================================================
   Specification side (one character)
   ===================================================================================== *)

(* Fitch set and score of a subtree for one character; `ls` gives the state set of a leaf
   from its taxon.  Children beyond the second are folded in sequentially, as in the code. *)
Definition fcomb (a b : Z * Z) : Z * Z :=
  let i := Z.land (fst a) (fst b) in
  if Z.eqb i 0 then (Z.lor (fst a) (fst b), snd a + snd b + 1) else (i, snd a + snd b).

Fixpoint fitch1 (ls : option Z -> Z) (t : tree) : Z * Z :=
  match t with
  | T _ x _ _ ks =>
    match ks with
    | [] => (ls x, 0)
    | k0 :: r => fold_left (fun acc k => fcomb acc (fitch1 ls k)) r (fitch1 ls k0)
    end
  end.

Definition fitch_set ls t := fst (fitch1 ls t).
Definition fitch_score ls t := snd (fitch1 ls t).

(* every internal node has exactly two children *)
Fixpoint binary (t : tree) : Prop :=
  match t with
  | T _ _ _ _ ks =>
    match ks with
    | [] => True
    | [a; b] => binary a /\ binary b
    | _ => False
    end
  end.

Fixpoint binaryb (t : tree) : bool :=
  match t with
  | T _ _ _ _ ks =>
    match ks with
    | [] => true
    | [a; b] => binaryb a && binaryb b
    | _ => false
    end
  end.

(* An assignment of a state to every node of a tree: a state-labelled copy of its shape. *)
Inductive atree := AT (s : Z) (kids : list atree).
Definition a_state (a : atree) := match a with AT s _ => s end.

Definition neq01 (a b : Z) : Z := if Z.eqb a b then 0 else 1.

(* number of edges whose two ends carry different states *)
Fixpoint changes (a : atree) : Z :=
  match a with
  | AT s ks => fold_right (fun k acc => neq01 s (a_state k) + changes k + acc) 0 ks
  end.

(* `a` assigns a state to exactly the nodes of `t`, and each leaf's state lies in its set *)
Fixpoint fits (ls : option Z -> Z) (a : atree) (t : tree) : Prop :=
  match a, t with
  | AT s aks, T _ x _ _ ks =>
    match ks with
    | [] => aks = [] /\ Z.testbit (ls x) s = true
    | _ =>
      (fix go (l1 : list atree) (l2 : list tree) : Prop :=
         match l1, l2 with
         | [], [] => True
         | a1 :: r1, t1 :: r2 => fits ls a1 t1 /\ go r1 r2
         | _, _ => False
         end) aks ks
    end
  end.

(* all states used lie in 0 .. n-1 *)
Fixpoint in_range (n : Z) (a : atree) : Prop :=
  match a with
  | AT s ks => 0 <= s < n /\
               (fix go (l : list atree) : Prop := match l with [] => True | k :: r => in_range n k /\ go r end) ks
  end.

(* Sankoff DP over states 0 .. n-1, with values in Z + infinity *)
Inductive ext := Fin (z : Z) | Inf.
Definition eplus (a b : ext) : ext := match a, b with Fin x, Fin y => Fin (x + y) | _, _ => Inf end.
Definition emin (a b : ext) : ext :=
  match a, b with Fin x, Fin y => Fin (Z.min x y) | Fin x, Inf => Fin x | Inf, b => b end.
Definition ele (a b : ext) : Prop :=
  match a, b with Fin x, Fin y => x <= y | _, Inf => True | Inf, Fin _ => False end.

(* min over u in {0..n-1} of g u *)
Fixpoint emin_upto (n : nat) (g : Z -> ext) : ext :=
  match n with O => Inf | S k => emin (emin_upto k g) (g (Z.of_nat k)) end.

(* cost n ls t s = least number of changes in the subtree t over assignments with states in
   0..n-1 that give the root of t the state s (Inf if there is none) *)
Fixpoint cost (n : nat) (ls : option Z -> Z) (t : tree) (s : Z) : ext :=
  match t with
  | T _ x _ _ ks =>
    match ks with
    | [] => if Z.testbit (ls x) s then Fin 0 else Inf
    | _ => fold_right (fun k acc =>
             eplus (emin_upto n (fun u => eplus (cost n ls k u) (Fin (neq01 s u)))) acc) (Fin 0) ks
    end
  end.

(* leaf sets are non-empty subsets of {0..n-1} *)
Fixpoint leaves_ok (n : nat) (ls : option Z -> Z) (t : tree) : Prop :=
  match t with
  | T _ x _ _ ks =>
    match ks with
    | [] => 0 < ls x < 2 ^ Z.of_nat n
    | _ => (fix go (l : list tree) : Prop := match l with [] => True | k :: r => leaves_ok n ls k /\ go r end) ks
    end
  end.

(* column i of a state-set map, as a function of the leaf's taxon *)
Definition column (m : matrix) (i : nat) (x : option Z) : Z :=
  match map_get m x with Some row => nth i row 0 | None => 0 end.

(* the matrix has a row of exactly k sets for the taxon of every leaf of t *)
Fixpoint covers (m : matrix) (k : nat) (t : tree) : Prop :=
  match t with
  | T _ x _ _ ks =>
    match ks with
    | [] => exists row, map_get m x = Some row /\ length row = k
    | _ => (fix go (l : list tree) : Prop := match l with [] => True | c :: r => covers m k c /\ go r end) ks
    end
  end.

Definition weight_at (w : option (list Z)) (i : nat) : Z :=
  match w with None => 1 | Some ws => nth i ws 0 end.

Definition weights_ok (w : option (list Z)) (k : nat) : Prop :=
  match w with None => True | Some ws => (k <= length ws)%nat end.

Fixpoint zsum (l : list Z) : Z := match l with [] => 0 | x :: r => x + zsum r end.

(* ---------- re-rooting ---------- *)
(* Two rooted binary trees display the same unrooted leaf-labelled tree when one is obtained from
   the other by swapping children anywhere and moving the root across an adjacent internal node:
   (L,(M,R)) <-> ((L,M),R).  Ids, labels, lengths and taxa of internal nodes do not matter. *)
Inductive swap_eq : tree -> tree -> Prop :=
| sw_leaf : forall i x l e i' l' e', swap_eq (T i x l e []) (T i' x l' e' [])
| sw_same : forall i x l e i' x' l' e' a b a' b',
    swap_eq a a' -> swap_eq b b' -> swap_eq (T i x l e [a; b]) (T i' x' l' e' [a'; b'])
| sw_swap : forall i x l e i' x' l' e' a b a' b',
    swap_eq a a' -> swap_eq b b' -> swap_eq (T i x l e [a; b]) (T i' x' l' e' [b'; a']).

Inductive reroot_eq : tree -> tree -> Prop :=
| rr_swap : forall t t', swap_eq t t' -> reroot_eq t t'
| rr_move : forall i x l e j y lb f i' x' l' e' j' y' lb' f' L M R,
    reroot_eq (T i x l e [L; T j y lb f [M; R]]) (T i' x' l' e' [T j' y' lb' f' [L; M]; R])
| rr_sym : forall a b, reroot_eq a b -> reroot_eq b a
| rr_trans : forall a b c, reroot_eq a b -> reroot_eq b c -> reroot_eq a c.

(* moving the root onto the edge above the node reached by a path of child indexes
   (0 = first child, anything else = second child); binary trees *)
Fixpoint reroot_at (fuel : nat) (p : list nat) (t : tree) : tree :=
  match fuel with
  | O => t
  | S fu =>
    match p, t with
    | a :: ((_ :: _) as q), T i x l e [c0; c1] =>
      let '(near, far) := match a with O => (c0, c1) | _ => (c1, c0) end in
      match near with
      | T j y lb f [n0; n1] =>
        (* the root moves into `near`: the next step goes into n0 or n1 *)
        match q with
        | O :: _ => reroot_at fu q (T i x l e [n0; T j y lb f [n1; far]])
        | _ => reroot_at fu (O :: tl q) (T i x l e [n1; T j y lb f [n0; far]])
        end
      | _ => t
      end
    | _, _ => t
    end
  end.
