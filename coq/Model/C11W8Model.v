(* C11, wave 8: the history language of Model/C11W7Model.v extended by REFUSED calls that come from a keyword
   the API does not know:  BadKw o  is the call o issued with one more keyword argument,
   unify_taxa_by_labels=True (the documented keyword is unify_taxa_by_label).
     - Tree / TreeList / CharacterMatrix .migrate_taxon_namespace / .reconstruct_taxon_namespace and
       DataSet.unify_taxon_namespaces have closed signatures: Python raises TypeError before the body runs;
     - TreeList.append / insert take **kwargs and hand them on:
           def _import_tree_to_taxon_namespace(self, tree, taxon_import_strategy="migrate", **kwargs):
               if tree.taxon_namespace is not self.taxon_namespace:
                   if taxon_import_strategy == "migrate":
                       tree.migrate_taxon_namespace(taxon_namespace=self.taxon_namespace, **kwargs)   <- TypeError here,
                   elif taxon_import_strategy == "add": ...                                            nothing done yet
                   else: raise ValueError(...)
       so the keyword is looked at only on the 'migrate' branch of a tree under ANOTHER namespace; in every
       other case the call is the plain call.
   (The other refused calls of the wave-8 histories - unknown taxon_import_strategy strings, namespace
   arguments that are not the container's own / the attached one, trees that are not members, indices out of
   range, taxa outside the namespace - were operations of C11Model from the start.)
   Definitions only. *)
From Coq Require Import List Bool Arith ZArith.
From DV Require Import Model.PyPrims Model.C11Model Model.C11W7Model.
Import ListNotations.
Open Scope nat_scope.

Inductive op8 :=
| Op7 (o : op7)
| BadKw (o : op7).

Definition is_badarg (r : out) : bool := match r with OBadArg => true | _ => false end.
Definition is_err (r : out) : bool := match r with OErr _ => true | _ => false end.

(* does the keyword reach Tree.migrate_taxon_namespace? *)
Definition kw_reaches_migrate (st : state) (l tr : oid) (s : strat) : bool :=
  negb (Nat.eqb (t_ns (gettree st tr)) (l_ns (getlist st l)))
  && match s with SMigrate _ => true | _ => false end.

(* None: not a call the histories issue with the extra keyword; Some true: TypeError; Some false: the
   keyword is never looked at *)
Definition kw_refused (st : state) (o : op7) : option bool :=
  match o with
  | Base (Append l tr s) => Some (kw_reaches_migrate st l tr s)
  | Base (Insert l _ tr s) => Some (kw_reaches_migrate st l tr s)
  | AppendM l tr s _ => Some (kw_reaches_migrate st l tr s)
  | InsertM l _ tr s _ => Some (kw_reaches_migrate st l tr s)
  | Base (MigrateTree _ _ _) | Base (ReconstructTree _ _) | Base (MigrateList _ _ _) | Base (ReconstructList _ _)
  | Base (MigrateMat _ _ _) | Base (ReconstructMat _ _) | Base (Unify _ _ _) => Some true
  | MigrateTreeM _ _ _ _ | ReconstructTreeM _ _ _ | MigrateListM _ _ _ _ | ReconstructListM _ _ _
  | MigrateMatM _ _ _ _ | ReconstructMatM _ _ _ => Some true
  | _ => None
  end.

Section WithLower.
Variable lower : lbl -> lbl.

Definition step8 (x : xstate) (o : op8) : xstate * out :=
  match o with
  | Op7 o => step7 lower x o
  | BadKw o =>
    match kw_refused (x_st x) o with
    | None => (x, OBadArg)
    | Some r =>
      let '(x1, y) := step7 lower x o in
      if is_badarg y then (x, OBadArg)
      else if r then (x, OErr TypeErr)
      else (x1, y)
    end
  end.

Fixpoint run8 (x : xstate) (ops : list op8) : list (out * dump7_t) :=
  match ops with
  | [] => []
  | o :: r => let '(x', y) := step8 x o in (y, dump7 x') :: run8 x' r
  end.

Definition run_state8 (x : xstate) (ops : list op8) : xstate :=
  fold_left (fun s o => fst (step8 s o)) ops x.

(* the usage discipline: that of the call without the extra keyword *)
Definition disciplined8 (x : xstate) (o : op8) : bool :=
  match o with Op7 o | BadKw o => disciplined7 x o end.

Fixpoint hist_ok8 (x : xstate) (ops : list op8) : bool :=
  match ops with
  | [] => true
  | o :: r => disciplined8 x o && negb (is_recon (snd (step8 x o))) && hist_ok8 (fst (step8 x o)) r
  end.

(* ---- the calls of the histories that the API documents to refuse, and that the library refuses before it
   has touched anything.  NOT in the class (the model says why): SetItem with an index out of range (the tree
   is imported first), reader errors (ParseErr in the middle of a source; a case-sensitivity keyword that
   contradicts the namespace is noticed by DataSet.read after the new tree list was made), Unify. ---- *)
Definition refusal_class (o : op8) : bool :=
  match o with
  | BadKw _ => true
  | Op7 (Base b) =>
    match b with
    | Append _ _ _ | Insert _ _ _ _ | NewTreeIn _ _ _ | Pop _ _ | Remove _ _ | ArrayAdd _ _ | NewSeq _ _
    | SetRow _ _ | DsNewList _ _ | DsNewMat _ _ => true
    | _ => false
    end
  | Op7 (AppendM _ _ _ _) | Op7 (InsertM _ _ _ _ _) => true
  | _ => false
  end.

End WithLower.

Record case8 := mkCase8 {
  c8_lower : list (lbl * lbl);
  c8_ops : list op8;
  c8_expected : list (out * dump7_t)
}.

Definition case_run8 (c : case8) := run8 (tbl_lower (c8_lower c)) x_init (c8_ops c).

Definition case_ok8 (c : case8) : bool := list_eqb step7_eqb (case_run8 c) (c8_expected c).
