(* C06: TreeArray.read_from_files - several tree SOURCES read in one pass with a per-source burn-in
   (keyword tree_offset; SumTrees --burnin).

   The tree yielder (Tree.yield_from_files) is an INPUT of the model: the sequence of
   (tree_yielder.current_file_index, tree) pairs it delivers.  A source that holds no tree
   (NEXUS file with only a TAXA block, empty TREES block) contributes no pair, so the file index
   may skip values.  `read_loop` is the hand transcription of the loop

       current_source_index = None
       current_tree_offset = None
       for tree_idx, tree in enumerate(tree_yielder):
           current_yielder_index = tree_yielder.current_file_index
           if current_source_index != current_yielder_index:
               current_source_index = current_yielder_index
               current_tree_offset = 0
           if current_tree_offset >= target_tree_offset:
               self.add_tree(tree=tree, is_bipartitions_updated=False)
           current_tree_offset += 1

   (`None >= n` and `None + 1` raise TypeError; they are unreachable, which is a theorem, not a
   definition).  The translator py/dv/gen_treearray.py produces Gen.TreeArrayGen.gen_read_from_files
   from the source; Proofs/C06GenRead.v proves it equal to `read_from_files_v true`.

   `vu` selects the form of add_tree as in C06Model.step_v (true: undefined rooting is treated as
   unrooted, the form the working tree has). *)
From Coq Require Import ZArith List Bool.
From DV Require Import Model.PyPrims Model.C06Model.
Import ListNotations.
Open Scope Z_scope.

Definition add_tree_v (vu : bool) (t : tarr) (x : trec) : tarr * option terr :=
  (if vu then add_tree_r else add_tree) t x None.

(* add_tree for every tree of a list, the first exception ends it *)
Fixpoint add_all_v (vu : bool) (t : tarr) (xs : list trec) : tarr * option terr :=
  match xs with
  | [] => (t, None)
  | x :: r => match add_tree_v vu t x with
              | (t', None) => add_all_v vu t' r
              | (t', Some e) => (t', Some e)
              end
  end.

(* the loop; csi = current_source_index, cto = current_tree_offset *)
Fixpoint read_loop (vu : bool) (t : tarr) (off : Z) (csi cto : option Z) (ys : list (Z * trec))
  : tarr * option terr :=
  match ys with
  | [] => (t, None)
  | (fi, x) :: r =>
    let csi' := if negb (oz_eqb csi (Some fi)) then Some fi else csi in
    let cto' := if negb (oz_eqb csi (Some fi)) then Some 0 else cto in
    match cto' with
    | None => (t, Some (EPy TypeErr))
    | Some k =>
      if k >=? off then
        match add_tree_v vu t x with
        | (t', None) => read_loop vu t' off csi' (Some (k + 1)) r
        | (t', Some e) => (t', Some e)
        end
      else read_loop vu t off csi' (Some (k + 1)) r
    end
  end.

Definition read_from_files_v (vu : bool) (t : tarr) (off : Z) (ys : list (Z * trec)) : tarr * option terr :=
  read_loop vu t off None None ys.

(* what the yielder delivers for sources number i, i+1, ... holding the given trees *)
Fixpoint yield_from (i : Z) (srcs : list (list trec)) : list (Z * trec) :=
  match srcs with
  | [] => []
  | s :: r => map (pair i) s ++ yield_from (i + 1) r
  end.

(* the naive definition of the burn-in: the first `off` trees of EACH source are dropped *)
Definition drop_burnin (off : Z) (srcs : list (list trec)) : list (list trec) :=
  map (skipn (Z.to_nat off)) srcs.

(* a worker process / a caller reading the sources one call at a time:
   read_from_files(files=[source], tree_offset=off) for each source, the first exception ends it *)
Fixpoint read_each_v (vu : bool) (t : tarr) (off : Z) (srcs : list (list trec)) : tarr * option terr :=
  match srcs with
  | [] => (t, None)
  | s :: r => match read_from_files_v vu t off (yield_from 0 [s]) with
              | (t', None) => read_each_v vu t' off r
              | (t', Some e) => (t', Some e)
              end
  end.

(* ------------------------------------------------------------------------------------ *)
(* Comparison with the implementation (cases.v)                                          *)
(* ------------------------------------------------------------------------------------ *)

(* the configuration of the array, tree_offset, the (file index, tree) pairs the real yielder
   delivered on the sources, the trees of every source as read on its own, the array of the
   implementation after read_from_files(files=<all sources>, tree_offset=off), and the array built
   by the harness from the naive definition (every source on its own, first `off` trees dropped,
   add_tree one by one) *)
Record rfcase := mkRfCase {
  rf_cfg : cfg;
  rf_off : Z;
  rf_yielded : list (Z * trec);
  rf_sources : list (list trec);
  rf_serial : est;
  rf_naive : est
}.

Definition rfcase_ok_v (vu : bool) (c : rfcase) : bool :=
  (* the yielder's file indices are those of "source after source, tree-less sources contribute nothing" *)
  list_eqb Z.eqb (map fst (rf_yielded c)) (map fst (yield_from 0 (rf_sources c)))
  && match read_from_files_v vu (new_cfg (rf_cfg c)) (rf_off c) (rf_yielded c),
           add_all_v vu (new_cfg (rf_cfg c)) (concat (drop_burnin (rf_off c) (rf_sources c))),
           read_each_v vu (new_cfg (rf_cfg c)) (rf_off c) (rf_sources c) with
     | (t1, None), (t2, None), (t3, None) =>
       state_eqb t1 (rf_serial c) && state_eqb t2 (rf_serial c) && state_eqb t2 (rf_naive c)
       && state_eqb t3 (rf_serial c)
     | _, _, _ => false
     end.

Definition rfcase_ok := rfcase_ok_v false.
