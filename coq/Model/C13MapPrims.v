(* C13 (wave 6): run-time library of the generated file Gen/RoutesMapper.v (py/dv/gen_routes_mapper.py), the
   compiled methods of class NexusTaxonSymbolMapper (dataio/nexusprocessing.py).

   PYTHON VALUES
     str                     str = list Z
     Taxon                   nat            its position in the TaxonNamespace it belongs to (as in Model/C13Model.v)
     Taxon | None            option nat
     TaxonNamespace          nsobj          the labels of its members in order, and its attribute is_mutable
     dict (str keys)         pdict V        ASSOCIATION LIST, the assignment history, most recent assignment first:
                                            d[k] = v conses (k, v); d[k] returns the value of the first pair whose
                                            key equals k, KeyError (None) when there is none.  This is Python's dict for
                                            the operations offered here (get / set / clear); iteration order, len() and
                                            deletion are NOT offered - the compiled class uses none of them on its maps.
     CaseInsensitiveDict     pdict V        utility/container.py: __setitem__ stores under key.lower(), __getitem__ looks
                                            up key.lower(): the same list with LOWER-CASED keys (cid_set / cid_get)
     NexusTaxonSymbolMapper  mobj           its attributes; self._taxon_namespace is a REFERENCE to a namespace object that
                                            the reader holds too: the record carries the object's state (mo_ns), and
                                            whoever calls a compiled method reads the namespace back from the result
   Reading with case_sensitive = False only (every tree route; the other branch is folded away by the compiler as in
   Gen/Routes.v), so token_taxon_map and label_taxon_map are CaseInsensitiveDicts. *)
From Coq Require Import ZArith List Bool.
From DV Require Import Model.PyPrims Model.C13Model.
Import ListNotations.

Definition pdict (V : Type) : Type := list (str * V).
Definition d_empty {V : Type} : pdict V := [].                                   (* {} ; container.CaseInsensitiveDict() *)
Definition d_clear {V : Type} (d : pdict V) : pdict V := [].                     (* d.clear() *)
Definition d_set {V : Type} (d : pdict V) (k : str) (v : V) : pdict V := (k, v) :: d.          (* d[k] = v *)
Definition d_get {V : Type} (d : pdict V) (k : str) : option V := assoc k d.     (* d[k]; None = KeyError *)

(* a TaxonNamespace object as the mapper sees it *)
Definition nsobj : Type := (list str * bool)%type.
Definition nso_taxa (o : nsobj) : list str := fst o.
Definition nso_mutable (o : nsobj) : bool := snd o.

Record mobj : Type := mkMobj {
  mo_ns : option nsobj;            (* self._taxon_namespace (None before _set_taxon_namespace) *)
  mo_orig : option bool;           (* self.taxon_namespace_original_mutability_state *)
  mo_token : pdict nat;            (* self.token_taxon_map    (CaseInsensitiveDict) *)
  mo_label : pdict nat;            (* self.label_taxon_map    (CaseInsensitiveDict) *)
  mo_number : pdict nat;           (* self.number_taxon_map *)
  mo_number_label : pdict str;     (* self.number_taxon_label_map (written, never read) *)
  mo_by_number : bool              (* self.enable_lookup_by_taxon_number *)
}.
(* the object before __init__ has assigned anything (reading an attribute then would be an AttributeError; the
   compiled __init__ assigns every attribute before it reads one - the proofs do not depend on these defaults) *)
Definition mo_blank : mobj := mkMobj None None [] [] [] [] false.
(* self.<attr> = v *)
Definition set_mo_ns (o : mobj) (v : option nsobj) : mobj :=
  mkMobj v (mo_orig o) (mo_token o) (mo_label o) (mo_number o) (mo_number_label o) (mo_by_number o).
Definition set_mo_orig (o : mobj) (v : option bool) : mobj :=
  mkMobj (mo_ns o) v (mo_token o) (mo_label o) (mo_number o) (mo_number_label o) (mo_by_number o).
Definition set_mo_token (o : mobj) (v : pdict nat) : mobj :=
  mkMobj (mo_ns o) (mo_orig o) v (mo_label o) (mo_number o) (mo_number_label o) (mo_by_number o).
Definition set_mo_label (o : mobj) (v : pdict nat) : mobj :=
  mkMobj (mo_ns o) (mo_orig o) (mo_token o) v (mo_number o) (mo_number_label o) (mo_by_number o).
Definition set_mo_number (o : mobj) (v : pdict nat) : mobj :=
  mkMobj (mo_ns o) (mo_orig o) (mo_token o) (mo_label o) v (mo_number_label o) (mo_by_number o).
Definition set_mo_number_label (o : mobj) (v : pdict str) : mobj :=
  mkMobj (mo_ns o) (mo_orig o) (mo_token o) (mo_label o) (mo_number o) v (mo_by_number o).
Definition set_mo_by_number (o : mobj) (v : bool) : mobj :=
  mkMobj (mo_ns o) (mo_orig o) (mo_token o) (mo_label o) (mo_number o) (mo_number_label o) v.

(* the namespace object behind self._taxon_namespace (an AttributeError on None is not reached: every compiled
   method dereferences it only after _set_taxon_namespace) *)
Definition mo_nso (o : mobj) : nsobj := match mo_ns o with Some n => n | None => ([], false) end.
(* self._taxon_namespace.is_mutable = b     (b = None counts as false: `if not self.is_mutable`) *)
Definition mo_set_mutable (o : mobj) (b : option bool) : mobj :=
  set_mo_ns o (Some (nso_taxa (mo_nso o), match b with Some x => x | None => false end)).
Definition ob_is_none {A : Type} (x : option A) : bool := match x with None => true | Some _ => false end.

Section MapPrims.
Variable lower : str -> str.

(* CaseInsensitiveDict: d[k] = v ; d[k] *)
Definition cid_set {V : Type} (d : pdict V) (k : str) (v : V) : pdict V := (lower k, v) :: d.
Definition cid_get {V : Type} (d : pdict V) (k : str) : option V := assoc (lower k) d.
(* container.CaseInsensitiveDict(<a CaseInsensitiveDict>): update() with its items, i.e. the same associations *)
Definition cid_copy {V : Type} (d : pdict V) : pdict V := d.
(* <TaxonNamespace>.label_taxon_map() of a case-insensitive namespace (taxonmodel.py):
   d = CaseInsensitiveDict(); for t in self._taxa: d[t.label] = t *)
Definition nso_label_taxon_map (n : nsobj) : pdict nat :=
  fold_left (fun d p => cid_set d (snd p) (fst p)) (enum_from O (nso_taxa n)) d_empty.
(* enumerate(<TaxonNamespace>): (idx, taxon); taxon.label *)
Definition nso_enumerate (n : nsobj) : list (nat * str) := enum_from O (nso_taxa n).
(* <TaxonNamespace>.new_taxon(label): ImmutableTaxonNamespaceError (a TypeError) unless is_mutable; else a new
   member at the end *)
Definition nso_new_taxon (n : nsobj) (label : str) : res (nat * nsobj) :=
  if nso_mutable n then Ok (length (nso_taxa n), (nso_taxa n ++ [label], nso_mutable n)) else Err TypeErr.
(* str(n) for a non-negative int *)
Definition py_str_nat (n : nat) : str := dec_of_nat n.
End MapPrims.
