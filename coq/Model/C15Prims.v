(* C15: run-time library of the generated traversal machines (Gen/Traversals.v).

   This file is hand-written and fixed: it is the (trusted) meaning given by the translator
   py/dv/gen_traversals.py to the Python primitives the traversal code uses:

     Python list  l            Coq list, index 0 first
     l.pop()                   py_pop_last  (None <-> IndexError: pop from empty list)
     l.pop(0)                  py_pop_first
     l.extend(xs)              py_extend l xs   = l ++ xs
     l.append(x)               py_append l x    = l ++ [x]
     reversed(l)               py_reversed l    = rev l
     l[i]                      py_index l i     (negative i counts from the end; None <-> IndexError)
     len(l)                    py_len l : Z
     truth value of a list     negb (py_is_empty l)
     l.sort(key=k, reverse=r)  py_sort_by k r l  (stable; reverse=True keeps the order of equal keys)
     generator object          gres O : the yields produced, then normal end / exception / fuel
     `while` loop              step function into sres, iterated by run with explicit fuel
     the object graph          record objgraph: the attributes the code reads *)
From Coq Require Import ZArith List Bool.
From DV Require Import Model.PyPrims.
Import ListNotations.
Open Scope Z_scope.

(* ---- the part of the object graph the traversal code reads ---- *)
Record objgraph : Type := {
  gnode : Type;
  gedge : Type;
  attr_child_nodes : gnode -> list gnode;     (* x._child_nodes *)
  attr_parent_node : gnode -> option gnode;   (* x._parent_node   (None = Python None) *)
  attr_edge : gnode -> gedge;                (* x._edge  (= x.edge, checked by the translator) *)
  attr_head_node : gedge -> gnode;           (* e._head_node *)
  attr_age : gnode -> Z;                    (* x.age at the time of the call *)
  obj_is : gnode -> gnode -> bool            (* a is b *)
}.

(* ---- Python lists ---- *)
Definition py_is_empty {A} (l : list A) : bool := match l with [] => true | _ => false end.

Definition py_pop_first {A} (l : list A) : option (A * list A) :=
  match l with [] => None | x :: r => Some (x, r) end.

Definition py_pop_last {A} (l : list A) : option (A * list A) :=
  match rev l with [] => None | x :: r => Some (x, rev r) end.

Definition py_extend {A} (l xs : list A) : list A := l ++ xs.
Definition py_append {A} (l : list A) (x : A) : list A := l ++ [x].
Definition py_reversed {A} (l : list A) : list A := rev l.
Definition py_list {A} (l : list A) : list A := l.      (* list(l): a copy; values are immutable here *)
Definition py_len {A} (l : list A) : Z := Z.of_nat (length l).

Definition py_index {A} (l : list A) (i : Z) : option A :=
  if Z.ltb i 0 then
    (if Z.ltb (py_len l + i) 0 then None else nth_error l (Z.to_nat (py_len l + i)))
  else nth_error l (Z.to_nat i).

Definition py_is_none {A} (o : option A) : bool := match o with None => true | Some _ => false end.
Definition py_is_some {A} (o : option A) : bool := match o with None => false | Some _ => true end.

(* stable sort by an integer key.  sort(reverse=True) is "descending, ties in original order". *)
Fixpoint py_insert {A} (key : A -> Z) (reverse : bool) (x : A) (l : list A) : list A :=
  match l with
  | [] => [x]
  | y :: r =>
    if (if reverse then Z.leb (key y) (key x) else Z.leb (key x) (key y))
    then x :: y :: r
    else y :: py_insert key reverse x r
  end.

Fixpoint py_sort_by {A} (key : A -> Z) (reverse : bool) (l : list A) : list A :=
  match l with
  | [] => []
  | x :: r => py_insert key reverse x (py_sort_by key reverse r)
  end.

(* ---- generator results ---- *)
Inductive gres (O : Type) : Type :=
| GDone (out : list O)                (* yielded out, then StopIteration *)
| GRaise (out : list O) (e : err)     (* yielded out, then raised e *)
| GFuel.                              (* the model ran out of fuel: never a normal value *)
Arguments GDone {O} _.
Arguments GRaise {O} _ _.
Arguments GFuel {O}.

Definition gprepend {O} (o : list O) (g : gres O) : gres O :=
  match g with
  | GDone r => GDone (o ++ r)
  | GRaise r e => GRaise (o ++ r) e
  | GFuel => GFuel
  end.

Definition gcons {O} (x : O) (g : gres O) : gres O := gprepend [x] g.

(* statement sequence: first a, then (if a ended normally) b *)
Definition gseq {O} (a b : gres O) : gres O :=
  match a with
  | GDone o => gprepend o b
  | _ => a
  end.

(* [x for x in G] consumed completely before anything else happens *)
Definition gbind {O P} (a : gres O) (k : list O -> gres P) : gres P :=
  match a with
  | GDone o => k o
  | GRaise _ e => GRaise [] e
  | GFuel => GFuel
  end.

(* for v in G: <body yielding (body v)> *)
Definition gflat_map {O P} (body : O -> list P) (a : gres O) : gres P :=
  match a with
  | GDone o => GDone (flat_map body o)
  | GRaise o e => GRaise (flat_map body o) e
  | GFuel => GFuel
  end.

Definition gbind_res {O A} (a : gres O) (k : list O -> res A) : res A :=
  match a with
  | GDone o => k o
  | GRaise _ e => Err e
  | GFuel => OutOfFuel
  end.

(* ---- while loops ---- *)
Inductive sres (S O : Type) : Type :=
| SStop (out : list O)                   (* guard false, or break *)
| SNext (s : S) (out : list O)           (* one iteration done *)
| SRaise (out : list O) (e : err).
Arguments SStop {S O} _.
Arguments SNext {S O} _ _.
Arguments SRaise {S O} _ _.

Fixpoint run {S O} (step : S -> sres S O) (fuel : nat) (s : S) : gres O :=
  match fuel with
  | O => GFuel
  | Datatypes.S n =>
    match step s with
    | SStop out => GDone out
    | SNext s' out => gprepend out (run step n s')
    | SRaise out e => GRaise out e
    end
  end.
