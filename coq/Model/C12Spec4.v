(* C12, sixth wave: the PRIVACY hypothesis of deepcopy_isomorphism_strict, as executable predicates.

   A deep copy with pre-seeded memo never enters the SEEDED REGION - what the memo seeds (the namespace and its
   taxa, for scoped copies) and the atomic objects (StateAlphabet, StateIdentity) reach - other than through a
   seed or an atomic object, PROVIDED nothing outside the region refers to an inner object of the region.  Then
   no object is both copied and shared.  Likewise an owned `_item_list` / `_item_set` is rebuilt (never copied
   generically) provided only its annotation set refers to it.

   private_region_ok h seeds reg root   (reg: any list of objects)
       - reg contains every seed and every atomic object,
       - reg is closed under references,
       - an object outside reg refers into reg at seeds and atomic objects only (or at a tuple of immutable
         values, e.g. CPython's singleton `()`),
       - the root is outside reg, or is itself a seed or an atomic object.
   private_ok h seeds root = private_region_ok with reg := everything reachable from the seeds and the atomic
   objects (reach_list).  The closure is CHECKED, not assumed from reach_list, so the theorems need no lemma
   about the traversal.
   conts_private_ok h : the two containers of an owned annotation set are referred to by the attributes
   `_item_list` / `_item_set` of AnnotationSet objects only (with wf_heap3s / wf_heap4: by their own set only). *)
From Coq Require Import ZArith List Bool Lia.
From DV Require Import Model.PyPrims Model.C12Model Model.C12Spec2 Model.C12Spec3.
Import ListNotations.
Open Scope Z_scope.

Fixpoint atomics_go (i : Z) (l : list obj) : list Z :=
  match l with
  | [] => []
  | ob :: r => (if kind_eqb (okind ob) KAtomic then [i] else []) ++ atomics_go (i + 1) r
  end.

Definition atomics (h : heap) : list Z := atomics_go 0 h.

Definition seeded_region (h : heap) (seeds : list Z) : list Z := reach_list h (seeds ++ atomics h).

Definition entry_ok (h : heap) (seeds : list Z) (o : Z) : bool := memz o seeds || is_atomic h o.

(* a tuple of immutable values only, e.g. CPython's singleton `()`: one object that annotations inside and
   outside the region may both hold; copying it is invisible (tuples are the stated exception of
   single-valuedness anyway) and it refers to nothing *)
Definition prim_tuple (h : heap) (o : Z) : bool :=
  match hget h o with
  | Some ob => kind_eqb (okind ob) KTuple && forallb (fun e => is_prim (fst e) && is_prim (snd e)) (obody ob)
  | None => false
  end.

Definition private_region_ok (h : heap) (seeds reg : list Z) (root : Z) : bool :=
  forallb (fun o => memz o reg) seeds
  && forallbi (fun o ob => negb (kind_eqb (okind ob) KAtomic) || memz o reg) 0 h
  && forallbi (fun o ob => forallb (fun r => if memz o reg then memz r reg
                                            else negb (memz r reg) || entry_ok h seeds r || prim_tuple h r)
                                   (body_refs (obody ob))) 0 h
  && (negb (memz root reg) || entry_ok h seeds root).

Definition private_ok (h : heap) (seeds : list Z) (root : Z) : bool :=
  private_region_ok h seeds (seeded_region h seeds) root.

(* the _item_list / _item_set objects of the owned annotation sets *)
Definition owned_inner (h : heap) : list Z :=
  flat_map (fun ob => if is_annk (okind ob)
                      then match bget (obody ob) NM_ANN with
                           | Some (R sx) =>
                             match hget h sx with
                             | Some sxo => refs_of (match bget (obody sxo) NM_ILIST with Some v => [v] | None => [] end)
                                           ++ refs_of (match bget (obody sxo) NM_ISET with Some v => [v] | None => [] end)
                             | None => []
                             end
                           | _ => []
                           end
                      else []) h.

Definition conts_private_ok (h : heap) : bool :=
  let inner := owned_inner h in
  forallb (fun ob => forallb (fun e => negb (is_ref_in inner (fst e))
                                       && (negb (is_ref_in inner (snd e))
                                           || (kind_eqb (okind ob) KAnnSet
                                               && (val_eqb (fst e) NM_ILIST || val_eqb (fst e) NM_ISET))))
                             (obody ob)) h.

(* the privacy hypothesis of deepcopy_isomorphism_strict *)
Definition wf_heap5 (h : heap) (seeds : list Z) (root : Z) : bool :=
  private_ok h seeds root && conts_private_ok h && root_ok4 h root.

(* counted by the harness: the dumped heap satisfies every hypothesis of deepcopy_isomorphism_strict *)
Definition case_iso5_hyp (c : case) : bool :=
  match c_expect c with
  | ESkip _ => true
  | _ => case_iso4_hyp c && wf_heap5 (c_heap c) (route_seeds (c_heap c) (c_route c)) (c_root c)
  end.

(* the three parts separately (diagnostics: which part fails on a dumped heap) *)
Definition case_priv_region (c : case) : bool :=
  match c_expect c with
  | ESkip _ => true
  | _ => private_ok (c_heap c) (route_seeds (c_heap c) (c_route c)) (c_root c)
  end.

Definition case_priv_conts (c : case) : bool :=
  match c_expect c with ESkip _ => true | _ => conts_private_ok (c_heap c) end.
