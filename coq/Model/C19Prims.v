(* C19: run-time library of the translator py/dv/gen_charmatrix.py (Gen/CharMatrix.v).
   Each definition states the Python semantics the translator assumes for one construct; this file
   (with the translator itself) is the trusted part of the translator tie.

   A statement block denotes   St * res unit :  the values of the mutable variables when control
   leaves the block, and how it leaves: Ok tt = falls through / `continue`, Err e = exception e
   propagates (the mutations made so far stay), OutOfFuel = a `while` loop ran out of fuel. *)
From Coq Require Import ZArith List Bool.
From DV Require Import Model.PyPrims Model.C19Model.
Import ListNotations.
Open Scope Z_scope.

(* for x in xs: body      (xs evaluated once, before the loop) *)
Fixpoint for_each {A St : Type} (xs : list A) (body : A -> St -> St * res unit) (st : St) : St * res unit :=
  match xs with
  | [] => (st, Ok tt)
  | x :: r => match body x st with
              | (st', Ok _) => for_each r body st'
              | (st', Err e) => (st', Err e)
              | (st', OutOfFuel) => (st', OutOfFuel)
              end
  end.

(* for k in d: body   where the body adds or deletes keys of the very dict d it iterates:
   CPython's dict iterator raises RuntimeError("dictionary changed size during iteration") at the
   next step (also after the last element) when len(d) differs from its value at loop entry.
   size = len(d) as a function of the loop state, n0 = len(d) at entry. *)
Fixpoint for_each_live {A St : Type} (size : St -> Z) (n0 : Z) (xs : list A)
         (body : A -> St -> St * res unit) (st : St) : St * res unit :=
  match xs with
  | [] => (st, Ok tt)
  | x :: r => match body x st with
              | (st', Ok _) => if Z.eqb (size st') n0 then for_each_live size n0 r body st'
                               else (st', Err OtherErr)
              | (st', Err e) => (st', Err e)
              | (st', OutOfFuel) => (st', OutOfFuel)
              end
  end.

(* while cond: body *)
Fixpoint while_loop {St : Type} (fuel : nat) (cond : St -> bool) (body : St -> St * res unit) (st : St)
  : St * res unit :=
  match fuel with
  | O => (st, OutOfFuel)
  | S f => if cond st then
             match body st with
             | (st', Ok _) => while_loop f cond body st'
             | (st', Err e) => (st', Err e)
             | (st', OutOfFuel) => (st', OutOfFuel)
             end
           else (st, Ok tt)
  end.

(* ---- dict (insertion ordered; C19Model.aget / aput / adel / ahas) ---- *)
Definition py_dict_keys (d : rows) : list tid := map fst d.               (* iter(d), d.keys() *)
Definition py_dict_contains (k : tid) (d : rows) : bool := ahas k d.       (* k in d *)
Definition py_dict_get (k : tid) (d : rows) : res row :=                   (* d[k] *)
  match aget k d with Some v => Ok v | None => Err KeyErr end.
Definition py_dict_set (k : tid) (v : row) (d : rows) : rows := aput k v d. (* d[k] = v *)
Definition py_dict_del (k : tid) (d : rows) : res rows :=                  (* del d[k] *)
  if ahas k d then Ok (adel k d) else Err KeyErr.
Definition py_dict_len (d : rows) : Z := zlen d.

(* ---- sequences (the value list of a CharacterDataSequence) ---- *)
Definition py_seq_new (values : row) : row := values.    (* character_sequence_type(values): a NEW sequence with the same values *)
Definition py_seq_empty : row := [].                      (* CharacterDataSequence() *)
Definition py_seq_append (v : row) (x : cell) : row := v ++ [x].     (* v.append(x) *)
Definition py_seq_insert0 (v : row) (x : cell) : row := x :: v.      (* v.insert(0, x) *)

Fixpoint remove_nth {A} (n : nat) (l : list A) : list A :=
  match n, l with
  | _, [] => []
  | O, _ :: r => r
  | S k, x :: r => x :: remove_nth k r
  end.

(* del v[i]   (negative i counts from the end; IndexError outside) *)
Definition py_seq_del (v : row) (i : Z) : res row :=
  let n := zlen v in
  let j := if Z.ltb i 0 then n + i else i in
  if Z.leb 0 j && Z.ltb j n then Ok (remove_nth (Z.to_nat j) v) else Err IndexErr.

(* An ITERABLE argument of CharacterDataSequence.extend is either an independent sequence (`alias`
   false: its items are `arg`) or the receiver itself (`alias` true: m.extend_sequences(m)), whose
   __iter__ is a generator over the receiver's own, growing, value list. *)
(* list(it) *)
Definition py_list_of_iter (alias : bool) (self_values arg : row) : row := if alias then self_values else arg.
(* lst.extend(materialised list) *)
Definition py_list_extend (self_values arg : row) : row := self_values ++ arg.
(* lst.extend(it) with the iterable consumed while lst grows *)
Fixpoint extend_live (fuel : nat) (l : row) (i : nat) : res row :=
  match fuel with
  | O => OutOfFuel
  | S f => match nth_error l i with
           | None => Ok l
           | Some x => extend_live f (l ++ [x]) (S i)
           end
  end.
Definition py_list_extend_iter (alias : bool) (fuel : nat) (self_values arg : row) : res row :=
  if alias then extend_live fuel self_values 0 else Ok (self_values ++ arg).

(* ---- ranges, enumerate, indexing, sets ---- *)
Definition py_range2 (a b : Z) : list Z := zrange a (b - a).                       (* range(a, b) *)
Definition py_range_down (a b : Z) : list Z :=                                     (* range(a, b, -1) *)
  map (fun i => a - Z.of_nat i) (seq 0 (Z.to_nat (a - b))).
Fixpoint py_enumerate_from {A} (i : Z) (l : list A) : list (Z * A) :=
  match l with [] => [] | x :: r => (i, x) :: py_enumerate_from (i + 1) r end.
Definition py_enumerate {A} (l : list A) : list (Z * A) := py_enumerate_from 0 l.   (* enumerate(l) *)
Definition py_list_index {A} (l : list A) (i : Z) : res A :=                       (* l[i], i >= 0 *)
  if Z.ltb i 0 then Err IndexErr
  else match nth_error l (Z.to_nat i) with Some x => Ok x | None => Err IndexErr end.
Definition py_set (l : list Z) : list Z := l.                                      (* set(l): used for membership only *)
Definition py_set_contains (x : Z) (s : list Z) : bool := memb x s.

(* ---- CharacterMatrix (untranslated helpers the translated methods call) ---- *)
Definition mat_new (ns : nsid) : matrix := mkM ns None [] [].                      (* cls(taxon_namespace=ns) *)
Definition mat_clone (m : matrix) : matrix := m.                                   (* self.__class__(self): deep copy over the same namespace and taxa *)
Definition mat_len (m : matrix) : Z := zlen (m_rows m).                            (* len(m) *)
(* for t in m  /  m.values() walks self[t] for t in m  /  m.items() *)
Definition mat_iter (T : list tid) (m : matrix) : list tid := map fst (items T (m_rows m)).
Definition mat_items (T : list tid) (m : matrix) : list (tid * row) := items T (m_rows m).
Definition mat_contains (t : tid) (m : matrix) : bool := ahas t (m_rows m).        (* taxon in m *)
(* m[key] where the sequence exists.  (__getitem__ CREATES a sequence otherwise; the translated code
   never relies on that: the creating branch is answered AssertErr, as in C19Model.concat_loop.) *)
Definition mat_getitem_ro (T : list tid) (m : matrix) (k : key) : res row :=
  match resolve_key T k with
  | Ok t => match aget t (m_rows m) with Some r => Ok r | None => Err AssertErr end
  | Err e => Err e
  | OutOfFuel => OutOfFuel
  end.
(* writing back a sequence object that was obtained by m[k] and mutated in place *)
Definition mat_store (m : matrix) (t : tid) (v : row) : matrix := set_rows m (aput t v (m_rows m)).

Definition as_blk {St} (dflt : St) (r : res St) : St * res unit :=
  match r with Ok s => (s, Ok tt) | Err e => (dflt, Err e) | OutOfFuel => (dflt, OutOfFuel) end.
