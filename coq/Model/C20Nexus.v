(* C20: control skeleton of dataio/nexusreader.py (NexusReader as used by DataSet.get:
   exclude_chars = exclude_trees = False, no attached namespace, store_ignored_blocks = False),
   at token level on top of C02's Model/Tokenizer.v (character-level tokenizer) and Model/Newick.v
   (`pstate`, `advance`, `parse_tree_statement`).  Executable definitions only.

   Transcribed: _parse_nexus_stream (block dispatch), _parse_taxa_block, _parse_taxlabels_statement,
   _parse_title_statement, _parse_link_statement, _parse_characters_data_block,
   _parse_format_statement, _parse_dimensions_statement, _parse_matrix_statement,
   _process_discrete_matrix_data (non-interleaved), _read_character_states, _get_taxon,
   _get_taxon_namespace, _get_char_matrix, _parse_trees_block, _parse_translate_statement,
   _parse_tree_statement (-> Newick.v), the SETS/ASSUMPTIONS/CODONS branch, _parse_charset_statement,
   _parse_positions, _consume_to_end_of_block, NexusTokenizer.skip_to_semicolon.

   Every `while` of the skeleton takes its guard flags (does the guard test is_eof() / None) and the
   fetch primitive its body uses from the GENERATED record of that loop (Gen/ReaderLoops.v), looked
   up by function name and ordinal, so the behaviour at end of stream follows the source: changing
   `require_next_token_ucase` to `next_token_ucase` in a statement loop changes what this model does
   at end of stream.  A record that cannot be found, or whose primitive fetches are not all of one
   kind, yields `FNone` = "fetches nothing" (fail closed: the loop then spins until the fuel is gone).

   Payload is modelled where it decides the outcome: taxon namespaces (labels, case-insensitive
   matching), NTAX / NCHAR, symbol counting and symbol validity for DATATYPE=DNA, charset names.
   Constructs outside the model make the skeleton answer `RUnm` (unmodelled): interleaved or
   continuous matrices, data types other than DNA (except the empty-symbols STANDARD default, a
   defect site), multistate groups, SYMBOLS/MATCHCHAR/..., see `unmodelled_format_kw`.

   Python runtime functions are parameters: `upper`, `lower`, `dval` (decimal digit value),
   `sym_ok` (DNA symbol table), `is_float` (float() accepts the token). *)
From Coq Require Import String Ascii ZArith NArith List Bool.
From DV Require Import Model.PyPrims Gen.CharClasses Gen.ReaderLoops Model.Tokenizer Model.Newick Model.C20Model.
Import ListNotations.
Close Scope string_scope.
Open Scope list_scope.
Open Scope Z_scope.

Notation str := Tokenizer.str.

(* string literal -> code points *)
Definition s_of (s : string) : str := map (fun a => Z.of_N (N_of_ascii a)) (list_ascii_of_string s).

Definition seqb (a b : str) : bool := Tokenizer.str_eqb a b.

(* ------------------------------------------------------------------------------------------ *)
(* result monad with the extra outcome "outside the model"                                     *)
Inductive nr (A : Type) : Type :=
| ROk (a : A)
| RErr (e : err)
| RFuel                 (* loop budget exhausted: the reader hangs *)
| RUnm.                 (* construct not modelled *)
Arguments ROk {A} _.
Arguments RErr {A} _.
Arguments RFuel {A}.
Arguments RUnm {A}.

Definition nbind {A B} (r : nr A) (f : A -> nr B) : nr B :=
  match r with ROk a => f a | RErr e => RErr e | RFuel => RFuel | RUnm => RUnm end.
Notation "'dn' x <- r ;; k" := (nbind r (fun x => k)) (at level 200, x pattern, r at level 100, k at level 200).

Definition of_res {A} (r : res A) : nr A :=
  match r with Ok a => ROk a | Err e => RErr e | OutOfFuel => RFuel end.

(* ------------------------------------------------------------------------------------------ *)
(* the generated loop records                                                                  *)
Definition dummy_loop : loop :=
  mkLoop ""%string ""%string 0 0 ""%string false false false false false false [FNone] false false false false.

Definition find_loop (func : string) (ix : Z) : loop :=
  match filter (fun l => String.eqb (l_func l) func && (l_index l =? ix)) reader_loops with
  | l :: _ => l
  | [] => dummy_loop
  end.

Definition is_prim (f : fetch_kind) : bool :=
  match f with
  | FNextToken | FRequireNextToken | FNextTokenUcase | FRequireNextTokenUcase | FSkipToSemicolon | FGetNextChar => true
  | _ => false
  end.

Definition fetch_eqb (a b : fetch_kind) : bool :=
  match a, b with
  | FNextToken, FNextToken | FRequireNextToken, FRequireNextToken | FNextTokenUcase, FNextTokenUcase
  | FRequireNextTokenUcase, FRequireNextTokenUcase | FSkipToSemicolon, FSkipToSemicolon
  | FGetNextChar, FGetNextChar => true
  | _, _ => false
  end.

(* the one primitive all the primitive fetches of the loop body are, else FNone *)
Definition uniform_prim (l : loop) : fetch_kind :=
  match filter is_prim (fetches l) with
  | [] => FNone
  | k :: r => if forallb (fetch_eqb k) r then k else FNone
  end.

(* the k-th primitive fetch of the body in source order *)
Definition nth_prim (l : loop) (k : nat) : fetch_kind := nth k (filter is_prim (fetches l)) FNone.

Definition L_outer := find_loop "NexusReader._parse_nexus_stream" 1.
Definition L_scan_begin := find_loop "NexusReader._parse_nexus_stream" 2.
Definition L_sets := find_loop "NexusReader._parse_nexus_stream" 3.
Definition L_taxa := find_loop "NexusReader._parse_taxa_block" 1.
Definition L_taxlabels := find_loop "NexusReader._parse_taxlabels_statement" 1.
Definition L_link := find_loop "NexusReader._parse_link_statement" 1.
Definition L_chars := find_loop "NexusReader._parse_characters_data_block" 1.
Definition L_format := find_loop "NexusReader._parse_format_statement" 1.
Definition L_dims := find_loop "NexusReader._parse_dimensions_statement" 1.
Definition L_matrix := find_loop "NexusReader._process_discrete_matrix_data" 2.
Definition L_translate := find_loop "NexusReader._parse_translate_statement" 1.
Definition L_trees := find_loop "NexusReader._parse_trees_block" 1.
Definition L_tree_stmts := find_loop "NexusReader._parse_trees_block" 2.
Definition L_positions := find_loop "NexusReader._parse_positions" 1.
Definition L_consume := find_loop "NexusReader._consume_to_end_of_block" 1.
Definition L_states := find_loop "NexusReader._read_character_states" 1.
Definition L_skip := find_loop "NexusTokenizer.skip_to_semicolon" 1.

(* ------------------------------------------------------------------------------------------ *)
(* reader state                                                                                *)
Inductive dtype : Type := DStandardEmpty (* "standard", self._symbols == "" *) | DDna | DOther.

Record matrix : Type := mkMat {
  m_label : option str;              (* char_matrix.label (block TITLE) *)
  m_tns : nat;                       (* index of its namespace in _taxon_namespaces *)
  m_rows : list (nat * Z);           (* taxon index -> number of states read, in creation order *)
  m_sets : list str                  (* character subset names *)
}.

Record nstate : Type := mkN {
  n_ps : pstate;                     (* tokenizer state (shared with the Newick reader) *)
  n_pend : list token;               (* tokens pushed back by the hyphen-splitting of _parse_positions *)
  n_quoted : bool;                   (* is_token_quoted of the current token *)
  n_ntax : option Z;                 (* _file_specified_ntax *)
  n_nchar : option Z;                (* _file_specified_nchar *)
  n_tns : list (option str * list str);   (* _taxon_namespaces: (label, member labels) *)
  n_mats : list matrix;              (* _char_matrices *)
  n_trees : Z;                       (* number of trees read *)
  n_dtype : dtype;                   (* _data_type / _symbols *)
  n_interleave : bool
}.

Definition upd_ps (st : nstate) (ps : pstate) : nstate :=
  mkN ps (n_pend st) (n_quoted st) (n_ntax st) (n_nchar st) (n_tns st) (n_mats st) (n_trees st) (n_dtype st) (n_interleave st).
Definition upd_tok (st : nstate) (ps : pstate) (pend : list token) (q : bool) : nstate :=
  mkN ps pend q (n_ntax st) (n_nchar st) (n_tns st) (n_mats st) (n_trees st) (n_dtype st) (n_interleave st).
Definition upd_ntax (st : nstate) (v : option Z) : nstate :=
  mkN (n_ps st) (n_pend st) (n_quoted st) v (n_nchar st) (n_tns st) (n_mats st) (n_trees st) (n_dtype st) (n_interleave st).
Definition upd_nchar (st : nstate) (v : option Z) : nstate :=
  mkN (n_ps st) (n_pend st) (n_quoted st) (n_ntax st) v (n_tns st) (n_mats st) (n_trees st) (n_dtype st) (n_interleave st).
Definition upd_tns (st : nstate) (v : list (option str * list str)) : nstate :=
  mkN (n_ps st) (n_pend st) (n_quoted st) (n_ntax st) (n_nchar st) v (n_mats st) (n_trees st) (n_dtype st) (n_interleave st).
Definition upd_mats (st : nstate) (v : list matrix) : nstate :=
  mkN (n_ps st) (n_pend st) (n_quoted st) (n_ntax st) (n_nchar st) (n_tns st) v (n_trees st) (n_dtype st) (n_interleave st).
Definition upd_trees (st : nstate) (v : Z) : nstate :=
  mkN (n_ps st) (n_pend st) (n_quoted st) (n_ntax st) (n_nchar st) (n_tns st) (n_mats st) v (n_dtype st) (n_interleave st).
Definition upd_dtype (st : nstate) (v : dtype) : nstate :=
  mkN (n_ps st) (n_pend st) (n_quoted st) (n_ntax st) (n_nchar st) (n_tns st) (n_mats st) (n_trees st) v (n_interleave st).
Definition upd_interleave (st : nstate) (v : bool) : nstate :=
  mkN (n_ps st) (n_pend st) (n_quoted st) (n_ntax st) (n_nchar st) (n_tns st) (n_mats st) (n_trees st) (n_dtype st) v.

Definition n_eof (st : nstate) : bool := ps_eof (n_ps st).            (* is_eof() *)
Definition n_cur (st : nstate) : option str := ps_cur (n_ps st).      (* current_token *)

(* tokens still to be delivered: the measure of every termination argument *)
Definition n_left (st : nstate) : nat := length (n_pend st) + length (ps_toks (n_ps st)).

(* The recorded defect sites of the skeleton, each modelled in both forms: false = as in the
   current source, true = after the proposed minimal fix (the harness decides by replaying the
   site's witness document on the implementation). *)
Record nfix : Type := mkFix {
  fx_link : bool;             (* _parse_link_statement: `elif` + `else: token = require_next_token_ucase()` *)
  fx_positions : bool;        (* _parse_positions: `else: raise` for a token that is neither ALL nor a number *)
  fx_step0 : bool;            (* _parse_positions: a zero step is a parse error, not range()'s ValueError *)
  fx_empty : bool;            (* _parse_nexus_stream: first token fetched with require_next_token *)
  fx_taxlabels_eof : bool;    (* _parse_taxlabels_statement: first token fetched with require_next_token *)
  fx_taxlabels_nodims : bool; (* TAXLABELS without DIMENSIONS NTAX: no limit instead of `len(..) >= None` *)
  fx_tree_eof : bool;         (* _parse_tree_statement: `if tree is None: raise` *)
  fx_untitled : bool;         (* _get_char_matrix: `cm.label is not None and ...` *)
  fx_blockterm : bool;        (* _read_character_states: ';' in a non-interleaved row is a parse error *)
  fx_datatype : bool;         (* _parse_characters_data_block: default symbols "0123456789" *)
  fx_truncmatrix : bool;      (* _process_discrete_matrix_data: `if token != ';': raise` after the row loop *)
  fx_charsetdup : bool        (* _parse_charset_statement: repeated name is a parse error *)
}.

Definition nfix_none : nfix := mkFix false false false false false false false false false false false false.
Definition nfix_all : nfix := mkFix true true true true true true true true true true true true.

Section Nexus.
Variable upper : str -> str.
Variable lower : str -> str.
Variable dval : Z -> option Z.
Variable sym_ok : Z -> bool.
Variable is_float : str -> bool.
(* which form of each recorded defect site the working tree has (DESIGN 5.2) *)
Variable fx : nfix.
Let fix_link := fx_link fx.
Let fix_positions := fx_positions fx.
(* loop budget of every loop (each `while` starts with it) *)
Variable F : nat.

(* ------------------------------------------------------------------------------------------ *)
(* fetch primitives                                                                            *)

Inductive fetched : Type :=
| GotTok (st : nstate)        (* a token was delivered; it is n_cur *)
| GotEnd (st : nstate)        (* StopIteration *)
| GotErr (e : nr unit).       (* UnterminatedQuoteError / tokenizer-model fuel *)

(* Tokenizer.__next__ through the push-back list *)
Definition nadvance (st : nstate) : fetched :=
  match n_pend st with
  | t :: r =>
    let ps := n_ps st in
    GotTok (upd_tok st (set_tok ps (Some (t_text t)) (t_eof t) (ps_comments ps) (ps_toks ps) (ps_end ps)) r (t_quoted t))
  | [] =>
    match ps_toks (n_ps st) with
    | t :: _ =>
      match advance (n_ps st) with
      | AdvTok ps' => GotTok (upd_tok st ps' [] (t_quoted t))
      | _ => GotErr RFuel      (* unreachable: advance on a non-empty list delivers a token *)
      end
    | [] =>
      match advance (n_ps st) with
      | AdvStop ps' => GotEnd (upd_tok st ps' [] false)
      | AdvErr (Err e) => GotErr (RErr e)
      | _ => GotErr RFuel
      end
    end
  end.

Definition set_cur_n (st : nstate) (c : option str) : nstate := upd_ps st (set_cur (n_ps st) c).

(* next_token: None at end of stream *)
Definition next_token (st : nstate) : nr (option str * nstate) :=
  match nadvance st with
  | GotTok st' => ROk (n_cur st', st')
  | GotEnd st' => ROk (None, set_cur_n st' None)
  | GotErr e => match e with RErr x => RErr x | _ => RFuel end
  end.

(* require_next_token: UnexpectedEndOfStreamError (a DataParseError) at end of stream *)
Definition require_next_token (st : nstate) : nr (option str * nstate) :=
  match nadvance st with
  | GotTok st' => ROk (n_cur st', st')
  | GotEnd _ => RErr ParseErr
  | GotErr e => match e with RErr x => RErr x | _ => RFuel end
  end.

Definition ucase (r : nr (option str * nstate)) : nr (option str * nstate) :=
  dn p <- r ;;
  let '(t, st) := p in
  match t with
  | Some s => ROk (Some (upper s), set_cur_n st (Some (upper s)))
  | None => ROk (None, st)
  end.

Definition tok_is (t : option str) (s : string) : bool :=
  match t with Some x => seqb x (s_of s) | None => false end.
Definition is_none {A} (t : option A) : bool := match t with None => true | Some _ => false end.
Definition truthy (t : option str) : bool := match t with Some (_ :: _) => true | _ => false end.

(* skip_to_semicolon: token = next_token(); while token != ';' and not _cur_char == "" and token != None *)
Fixpoint skip_loop (fuel : nat) (tok : option str) (st : nstate) : nr nstate :=
  match fuel with
  | O => RFuel
  | S f =>
    if negb (tok_is tok ";")
       && (if guard_tests_cur_char L_skip then negb (n_eof st) else true)
       && (if guard_tests_none L_skip then negb (is_none tok) else true)
    then dn p <- (match uniform_prim L_skip with
                  | FNextToken => next_token st
                  | FRequireNextToken => require_next_token st
                  | _ => ROk (tok, st)
                  end) ;;
         skip_loop f (fst p) (snd p)
    else ROk st
  end.

Definition skip_to_semicolon (st : nstate) : nr nstate :=
  dn p <- next_token st ;; skip_loop F (fst p) (snd p).

(* a fetch as the generated record of a loop names it; FNone / anything else fetches nothing *)
Definition fetch (k : fetch_kind) (tok : option str) (st : nstate) : nr (option str * nstate) :=
  match k with
  | FNextToken => next_token st
  | FRequireNextToken => require_next_token st
  | FNextTokenUcase => ucase (next_token st)
  | FRequireNextTokenUcase => ucase (require_next_token st)
  | _ => ROk (tok, st)
  end.

Definition guard_extra (l : loop) (tok : option str) (st : nstate) : bool :=
  (if guard_tests_eof l then negb (n_eof st) else true)
  && (if guard_tests_none l then negb (is_none tok) else true).

Definition is_end (tok : option str) : bool := tok_is tok "END" || tok_is tok "ENDBLOCK".

(* ------------------------------------------------------------------------------------------ *)
(* _consume_to_end_of_block(token)                                                              *)
Fixpoint consume_loop (fuel : nat) (tok : option str) (st : nstate) : nr (option str * nstate) :=
  match fuel with
  | O => RFuel
  | S f =>
    if negb (is_end tok) && guard_extra L_consume tok st then
      dn st1 <- (match nth_prim L_consume 0 with FSkipToSemicolon => skip_to_semicolon st | _ => ROk st end) ;;
      dn p <- fetch (nth_prim L_consume 1) tok st1 ;;
      consume_loop f (fst p) (snd p)
    else ROk (tok, st)
  end.

Definition consume_to_end_of_block (tok : option str) (st : nstate) : nr (option str * nstate) :=
  let tok0 := if truthy tok then match tok with Some s => Some (upper s) | None => None end
              else Some (s_of "DUMMY") in
  consume_loop F tok0 st.

(* ------------------------------------------------------------------------------------------ *)
(* _parse_title_statement: current token is TITLE                                              *)
Definition parse_title (st : nstate) : nr (option str * nstate) :=
  dn p <- require_next_token st ;;
  let '(title, st1) := p in
  dn q <- require_next_token st1 ;;
  let '(sc, st2) := q in
  if tok_is sc ";" then ROk (title, st2) else RErr ParseErr.

(* ------------------------------------------------------------------------------------------ *)
(* _parse_link_statement -> (links['taxa'], links['characters'])                               *)
Definition link_item (st : nstate) : nr (option str * option str * nstate) :=
  (* token = next_token(); if token != "=": raise; token = next_token(); value = token; token = next_token() *)
  (* current form: the fetch primitive of the statement's first fetch, from the generated record
     (all its fetches are of that kind in the unrepaired source); repaired form: next_token *)
  let k := if fix_link then FNextToken else nth_prim L_link 0 in
  dn p <- fetch k None st ;;
  if negb (tok_is (fst p) "=") then RErr ParseErr
  else dn q <- fetch k None (snd p) ;;
       dn r <- fetch k None (snd q) ;;
       ROk (fst q, fst r, snd r).

Fixpoint link_loop (fuel : nat) (tok : option str) (st : nstate) (lt lc : option (option str))
  : nr (option (option str) * option (option str) * option str * nstate) :=
  match fuel with
  | O => RFuel
  | S f =>
    if negb (tok_is tok ";") && guard_extra L_link tok st then
      if fix_link then
        if tok_is tok "TAXA" then
          dn r <- link_item st ;; let '(v, t, st1) := r in link_loop f t st1 (Some v) lc
        else if tok_is tok "CHARACTERS" then
          dn r <- link_item st ;; let '(v, t, st1) := r in link_loop f t st1 lt (Some v)
        else
          dn p <- ucase (require_next_token st) ;; link_loop f (fst p) (snd p) lt lc
      else
        dn a <- (if tok_is tok "TAXA"
                 then dn r <- link_item st ;; let '(v, t, st1) := r in ROk (Some v, t, st1)
                 else ROk (lt, tok, st)) ;;
        let '(lt1, tok1, st1) := a in
        dn b <- (if tok_is tok1 "CHARACTERS"
                 then dn r <- link_item st1 ;; let '(v, t, st2) := r in ROk (Some v, t, st2)
                 else ROk (lc, tok1, st1)) ;;
        let '(lc1, tok2, st2) := b in
        link_loop f tok2 st2 lt1 lc1
    else ROk (lt, lc, tok, st)
  end.

(* links.get('taxa') / links.get('characters'): None when absent; a stored None stays None *)
Definition parse_link (st : nstate) : nr (option str * option str * nstate) :=
  dn p <- ucase (next_token st) ;;
  dn r <- link_loop F (fst p) (snd p) None None ;;
  let '(lt, lc, tok, st1) := r in
  let flat := fun (o : option (option str)) => match o with Some v => v | None => None end in
  ROk (flat lt, flat lc, st1).

(* ------------------------------------------------------------------------------------------ *)
(* _parse_dimensions_statement                                                                 *)
Definition all_digits (s : str) : bool :=
  match s with [] => false | _ => forallb (fun c => match dval c with Some _ => true | None => false end) s end.
Definition int_val (s : str) : Z := int_of dval s.

Definition tok_text (t : option str) : str := match t with Some s => s | None => [] end.

Fixpoint dims_loop (fuel : nat) (tok : option str) (st : nstate) : nr nstate :=
  match fuel with
  | O => RFuel
  | S f =>
    let k := uniform_prim L_dims in
    if negb (tok_is tok ";") && guard_extra L_dims tok st then
      dn st1 <-
        (if tok_is tok "NTAX" || tok_is tok "NCHAR" then
           let is_ntax := tok_is tok "NTAX" in
           dn p <- fetch k tok st ;;
           if tok_is (fst p) "=" then
             dn q <- fetch k tok (snd p) ;;
             match fst q with
             | None => RErr AttrErr                              (* token.isdigit() on None *)
             | Some v =>
               if all_digits v
               then ROk (if is_ntax then upd_ntax (snd q) (Some (int_val v)) else upd_nchar (snd q) (Some (int_val v)))
               else RErr ParseErr
             end
           else RErr ParseErr
         else if tok_is tok "BEGIN" then RErr ParseErr
         else ROk st) ;;
      dn p <- fetch k tok st1 ;;
      dims_loop f (fst p) (snd p)
    else ROk st
  end.

Definition parse_dimensions (st : nstate) : nr nstate :=
  dn p <- ucase (require_next_token st) ;; dims_loop F (fst p) (snd p).

(* ------------------------------------------------------------------------------------------ *)
(* _parse_format_statement                                                                     *)
Definition unmodelled_format_kw (tok : option str) : bool :=
  tok_is tok "SYMBOLS" || tok_is tok "MATCHCHAR" || tok_is tok "INTERLEAVE".

Fixpoint format_loop (fuel : nat) (tok : option str) (st : nstate) : nr nstate :=
  match fuel with
  | O => RFuel
  | S f =>
    let k := uniform_prim L_format in
    if negb (tok_is tok ";") && guard_extra L_format tok st then
      if unmodelled_format_kw tok then RUnm
      else if tok_is tok "DATATYPE" then
        dn p <- fetch k tok st ;;
        if tok_is (fst p) "=" then
          dn q <- fetch k tok (snd p) ;;
          let v := fst q in
          let dt := if tok_is v "DNA" || tok_is v "NUCLEOTIDES" then DDna else DOther in
          dn r <- fetch k tok (upd_dtype (snd q) dt) ;;
          format_loop f (fst r) (snd r)
        else RErr ParseErr
      else if tok_is tok "GAP" || tok_is tok "MISSING" then
        dn p <- fetch k tok st ;;
        if tok_is (fst p) "=" then
          dn q <- fetch k tok (snd p) ;;
          (* a gap / missing symbol other than the default changes the alphabet: not modelled *)
          if (tok_is tok "GAP" && negb (tok_is (fst q) "-")) || (tok_is tok "MISSING" && negb (tok_is (fst q) "?"))
          then RUnm
          else dn r <- fetch k tok (snd q) ;; format_loop f (fst r) (snd r)
        else RErr ParseErr
      else if tok_is tok "BEGIN" then RErr ParseErr
      else dn p <- fetch k tok st ;; format_loop f (fst p) (snd p)
    else ROk st
  end.

Definition parse_format (st : nstate) : nr nstate :=
  dn p <- ucase (require_next_token st) ;; format_loop F (fst p) (snd p).

(* ------------------------------------------------------------------------------------------ *)
(* taxon namespaces                                                                            *)
Definition label_eq (a b : str) : bool := seqb (lower a) (lower b).

Fixpoint find_label (l : str) (ns : list str) (i : nat) : option nat :=
  match ns with
  | [] => None
  | x :: r => if label_eq x l then Some i else find_label l r (S i)
  end.

Fixpoint set_nth {A} (l : list A) (i : nat) (v : A) : list A :=
  match l, i with
  | [], _ => []
  | _ :: r, O => v :: r
  | x :: r, S j => x :: set_nth r j v
  end.

Definition tns_labels (st : nstate) (i : nat) : list str :=
  match nth_error (n_tns st) i with Some (_, ls) => ls | None => [] end.

Definition tns_set_labels (st : nstate) (i : nat) (ls : list str) : nstate :=
  match nth_error (n_tns st) i with
  | Some (t, _) => upd_tns st (set_nth (n_tns st) i (t, ls))
  | None => st
  end.

(* _new_taxon_namespace(title) *)
Definition new_tns (st : nstate) (title : option str) : nat * nstate :=
  (length (n_tns st), upd_tns st (n_tns st ++ [(title, [])])).

(* _get_taxon_namespace(title) with the default (False) automatic-creation switches *)
Definition get_tns (st : nstate) (title : option str) : nr (nat * nstate) :=
  match title with
  | None =>
    match n_tns st with
    | [] => ROk (new_tns st None)
    | [_] => ROk (O, st)
    | _ => RErr ParseErr                                  (* LinkRequiredError *)
    end
  | Some t =>
    let hits := filter (fun p => match fst (snd p) with
                                 | Some l => seqb (upper l) (upper t)
                                 | None => false
                                 end) (enum_from O (n_tns st)) in
    match hits with
    | [(i, _)] => ROk (i, st)
    | _ => RErr ParseErr                                  (* UndefinedBlockError / MultipleBlockWithSameTitleError *)
    end
  end.

(* ------------------------------------------------------------------------------------------ *)
(* _parse_taxlabels_statement(taxon_namespace)                                                 *)
Fixpoint taxlabels_loop (fuel : nat) (tok : option str) (st : nstate) (ti : nat) : nr nstate :=
  match fuel with
  | O => RFuel
  | S f =>
    if negb (tok_is tok ";") && guard_extra L_taxlabels tok st then
      match tok with
      | None => RErr AttrErr                              (* label.lower() on None *)
      | Some label =>
        let ls := tns_labels st ti in
        dn st1 <-
          (match find_label label ls O with
           | Some _ => ROk st
           | None =>
             match n_ntax st with
             | None => if fx_taxlabels_nodims fx then ROk (tns_set_labels st ti (ls ++ [label]))
                       else RErr TypeErr                  (* len(taxon_namespace) >= None *)
             | Some n => if zlen ls >=? n then RErr ParseErr      (* TooManyTaxaError *)
                         else ROk (tns_set_labels st ti (ls ++ [label]))
             end
           end) ;;
        dn p <- fetch (uniform_prim L_taxlabels) tok st1 ;;
        taxlabels_loop f (fst p) (snd p) ti
      end
    else ROk st
  end.

Definition parse_taxlabels (st : nstate) (ti : nat) : nr nstate :=
  dn p <- (if fx_taxlabels_eof fx then require_next_token st else next_token st) ;;
  taxlabels_loop F (fst p) (snd p) ti.

(* ------------------------------------------------------------------------------------------ *)
(* _parse_taxa_block                                                                           *)
Fixpoint taxa_loop (fuel : nat) (tok : option str) (st : nstate) (tns : option nat) : nr nstate :=
  match fuel with
  | O => RFuel
  | S f =>
    if negb (is_end tok) && guard_extra L_taxa tok st then
      dn p <- fetch (uniform_prim L_taxa) tok st ;;
      let '(tok1, st1) := p in
      (* if TITLE: token = title.  The three `if`s are sequential: a title spelled DIMENSIONS or
         TAXLABELS falls into the next `if` *)
      dn a <- (if tok_is tok1 "TITLE"
               then dn r <- parse_title st1 ;;
                    let '(title, st2) := r in
                    let '(i, st3) := new_tns st2 title in ROk (title, st3, Some i)
               else ROk (tok1, st1, tns)) ;;
      let '(tok2, st2, tns2) := a in
      dn st3 <- (if tok_is tok2 "DIMENSIONS" then parse_dimensions st2 else ROk st2) ;;
      if tok_is tok2 "TAXLABELS" then
        let '(i, st4) := match tns2 with Some i => (i, st3) | None => new_tns st3 None end in
        dn st5 <- parse_taxlabels st4 i ;;
        taxa_loop f tok2 st5 (Some i)
      else taxa_loop f tok2 st3 tns2
    else ROk st
  end.

Definition parse_taxa_block (st : nstate) : nr nstate :=
  dn st1 <- skip_to_semicolon st ;;
  dn st2 <- taxa_loop F (Some []) st1 None ;;
  skip_to_semicolon st2.

(* ------------------------------------------------------------------------------------------ *)
(* MATRIX (discrete, not interleaved)                                                          *)

Definition last_mat (st : nstate) : option matrix :=
  match rev (n_mats st) with m :: _ => Some m | [] => None end.

Definition set_last_mat (st : nstate) (m : matrix) : nstate :=
  match rev (n_mats st) with
  | _ :: r => upd_mats st (rev r ++ [m])
  | [] => st
  end.

Fixpoint row_len_of (rows : list (nat * Z)) (t : nat) : option Z :=
  match rows with
  | [] => None
  | (i, n) :: r => if Nat.eqb i t then Some n else row_len_of r t
  end.

Fixpoint set_row (rows : list (nat * Z)) (t : nat) (n : Z) : list (nat * Z) :=
  match rows with
  | [] => [(t, n)]
  | (i, m) :: r => if Nat.eqb i t then (i, n) :: r else (i, m) :: set_row r t n
  end.

(* the characters of one token added to a row that holds n states:
   `first` = length of first_sequence_defined (None while the first row is being read) *)
Fixpoint add_chars (dt : dtype) (nchar : Z) (first : option Z) (cs : str) (n : Z) : nr Z :=
  match cs with
  | [] => ROk n
  | c :: r =>
    dn _ <- (if c =? 46 then                                     (* '.', the default MATCHCHAR *)
               match first with
               | None => RErr ParseErr                            (* TypeError caught -> NexusReaderError *)
               | Some fl => if n <? fl then ROk tt else RErr ParseErr     (* IndexError caught *)
               end
             else match dt with
                  | DStandardEmpty => RErr TypeErr                (* full_symbol_state_map is None *)
                  | DDna => if sym_ok c then ROk tt else RErr ParseErr    (* KeyError caught *)
                  | DOther => RUnm
                  end) ;;
    if n =? nchar then RErr ParseErr                              (* TooManyCharactersError *)
    else add_chars dt nchar first r (n + 1)
  end.

(* _read_character_states(vector with n states) -> new length.  `dt` is the data type of the matrix
   being read (it cannot change inside a MATRIX statement) *)
Fixpoint states_loop (fuel : nat) (dt : dtype) (nchar : Z) (first : option Z) (n : Z) (st : nstate) : nr (Z * nstate) :=
  match fuel with
  | O => RFuel
  | S f =>
    if n <? nchar then
      dn p <- fetch (nth_prim L_states 0) None st ;;
      let '(tok, st1) := p in
      if tok_is tok "{" || tok_is tok "(" then RUnm
      else if tok_is tok ";" then
        RErr (if fx_blockterm fx then ParseErr else OtherErr)     (* BlockTerminatedException escapes *)
      else match tok with
           | None => RErr TypeErr                                 (* `for c in None` *)
           | Some cs =>
             dn n1 <- add_chars dt nchar first cs n ;;
             states_loop f dt nchar first n1 st1
           end
    else ROk (n, st)
  end.

(* _get_taxon(taxon_namespace, label) *)
Definition get_taxon (st : nstate) (ti : nat) (label : str) : nr (nat * nstate) :=
  let ls := tns_labels st ti in
  match find_label label ls O with
  | Some i => ROk (i, st)
  | None =>
    let full := match n_ntax st with
                | None => false
                | Some n => negb (n =? 0) && negb (zlen ls <? n)
                end in
    if full then RErr ParseErr                                    (* TooManyTaxaError *)
    else ROk (length ls, tns_set_labels st ti (ls ++ [label]))
  end.

Fixpoint matrix_loop (fuel : nat) (dt : dtype) (nchar : Z) (tok : option str) (st : nstate) (first : option nat)
  : nr (option str * nstate) :=
  match fuel with
  | O => RFuel
  | S f =>
    if negb (tok_is tok ";") && guard_extra L_matrix tok st then
      match tok, last_mat st with
      | Some label, Some m =>
        dn r <- get_taxon st (m_tns m) label ;;
        let '(t, st1) := r in
        let n0 := match row_len_of (m_rows m) t with Some n => n | None => 0 end in
        (* char_block[taxon] creates the row *)
        let m1 := mkMat (m_label m) (m_tns m) (set_row (m_rows m) t n0) (m_sets m) in
        let firstlen := match first with
                        | Some ft => row_len_of (m_rows m1) ft
                        | None => None
                        end in
        dn q <- states_loop F dt nchar firstlen n0 (set_last_mat st1 m1) ;;
        let '(n1, st2) := q in
        let m2 := mkMat (m_label m) (m_tns m) (set_row (m_rows m1) t n1) (m_sets m) in
        let st3 := set_last_mat st2 m2 in
        let first' := match first with Some ft => Some ft | None => Some t end in
        if n1 <? nchar then RErr ParseErr
        else dn p <- fetch (nth_prim L_matrix 0) tok st3 ;;
             matrix_loop f dt nchar (fst p) (snd p) first'
      | _, _ => RUnm
      end
    else ROk (tok, st)
  end.

(* _parse_matrix_statement(block_title, link_title) *)
Definition parse_matrix (st : nstate) (block_title link_title : option str) : nr nstate :=
  match n_ntax st, n_nchar st with
  | Some nt, Some nc =>
    if (nt =? 0) || (nc =? 0) then RErr ParseErr
    else
      dn r <- get_tns st link_title ;;
      let '(ti, st1) := r in
      let st2 := upd_mats st1 (n_mats st1 ++ [mkMat block_title ti [] []]) in
      if n_interleave st2 then RUnm
      else match n_dtype st2 with
           | DOther => RUnm
           | dt =>
             (* on the repaired form the block start has given STANDARD its symbols: DStandardEmpty
                cannot reach a MATRIX *)
             if (match dt with DStandardEmpty => fx_datatype fx | _ => false end) then RUnm
             else dn p <- next_token st2 ;;
                  dn r <- matrix_loop F dt nc (fst p) (snd p) None ;;
                  if fx_truncmatrix fx && negb (tok_is (fst r) ";") then RErr ParseErr else ROk (snd r)
           end
  | _, _ => RErr ParseErr
  end.

(* _parse_characters_data_block *)
Fixpoint chars_loop (fuel : nat) (tok : option str) (st : nstate) (bt lt : option str) : nr nstate :=
  match fuel with
  | O => RFuel
  | S f =>
    if negb (is_end tok) && guard_extra L_chars tok st then
      dn p <- fetch (uniform_prim L_chars) tok st ;;
      let '(tok1, st1) := p in
      if tok_is tok1 "TITLE" then
        dn r <- parse_title st1 ;; chars_loop f tok1 (snd r) (fst r) lt
      else if tok_is tok1 "LINK" then
        dn r <- parse_link st1 ;; let '(l_taxa, _, st2) := r in chars_loop f tok1 st2 bt l_taxa
      else if tok_is tok1 "DIMENSIONS" then
        dn st2 <- parse_dimensions st1 ;; chars_loop f tok1 st2 bt lt
      else if tok_is tok1 "FORMAT" then
        dn st2 <- parse_format st1 ;; chars_loop f tok1 st2 bt lt
      else if tok_is tok1 "MATRIX" then
        dn st2 <- parse_matrix st1 bt lt ;; chars_loop f tok1 st2 bt lt
      else if tok_is tok1 "BEGIN" then RErr ParseErr
      else chars_loop f tok1 st1 bt lt
    else ROk st
  end.

Definition parse_characters_block (tok : option str) (st : nstate) : nr nstate :=
  dn st1 <- skip_to_semicolon st ;;
  let dt := match n_dtype st1 with
            | DOther => DOther
            | _ => if fx_datatype fx then DOther else DStandardEmpty
            end in
  dn st2 <- chars_loop F tok (upd_dtype st1 dt) None None ;;
  skip_to_semicolon st2.

(* ------------------------------------------------------------------------------------------ *)
(* TREES                                                                                       *)

Definition parse_len_unit (s : str) : option unit := if is_float s then Some tt else None.

(* _parse_translate_statement(taxon_namespace) -> mapper *)
Fixpoint translate_loop (fuel : nat) (st : nstate) (ti : nat) (m : mapper) : nr (mapper * nstate) :=
  match fuel with
  | O => RFuel
  | S f =>
    let k := uniform_prim L_translate in
    dn p <- fetch k None st ;;
    let '(ttok, st1) := p in
    if tok_is ttok ";" && negb (n_quoted st1) then RErr ParseErr
    else
      dn q <- fetch k None st1 ;;
      let '(tlabel, st2) := q in
      let ls := tns_labels st2 ti in
      dn r <- (match tlabel with
               | None =>
                 (* require_taxon(label=None): a taxon without label is created when the namespace
                    may grow (no TAXA block seen), else UndefinedTaxonError *)
                 match n_ntax st2 with Some _ => RErr ParseErr | None => ROk (None, st2) end
               | Some l =>
                 match find_label l ls O with
                 | Some i => ROk (Some i, st2)
                 | None =>
                   match n_ntax st2 with
                   | Some _ => RErr ParseErr                      (* ImmutableTaxonNamespaceError -> UndefinedTaxonError *)
                   | None => ROk (Some (length ls), tns_set_labels st2 ti (ls ++ [l]))
                   end
                 end
               end) ;;
      let '(taxon, st3) := r in
      let m1 := match taxon, tlabel with
                | Some i, Some l =>
                  let m0 := if Nat.ltb i (length (m_ns m)) then m else snd (mapper_new_taxon lower m l) in
                  add_translate_token lower m0 (match ttok with Some t => t | None => s_of "None" end) i
                | _, _ => m
                end in
      dn t <- fetch k None st3 ;;
      let '(tok, st4) := t in
      if negb (truthy tok) || tok_is tok ";" then ROk (m1, st4)
      else if negb (tok_is tok ",") then RErr ParseErr
      else translate_loop f st4 ti m1
  end.

Definition parse_translate (st : nstate) (ti : nat) : nr (mapper * nstate) :=
  translate_loop F st ti (new_mapper lower (tns_labels st ti) true false).

(* NexusReader._parse_tree_statement: one TREE statement.  The tree itself is parsed by the Newick
   reader model (Newick.v `parse_tree_statement`) on the shared tokenizer state. *)
Definition parse_tree_statement_nexus (st : nstate) (ti : nat) (m : mapper) : nr (mapper * nstate) :=
  dn p <- next_token st ;;
  dn p1 <- (if tok_is (fst p) "*" then next_token (snd p) else ROk p) ;;
  dn q <- next_token (snd p1) ;;
  if negb (tok_is (fst q) "=") then RErr ParseErr
  else
    dn r <- next_token (snd q) ;;
    let st1 := snd r in
    match n_pend st1 with
    | _ :: _ => RUnm
    | [] =>
      let ps := n_ps st1 in
      let ps1 := mkPS (ps_cur ps) (ps_eof ps) (ps_comments ps) (ps_toks ps) (ps_end ps)
                      (ps_nesting ps) (ps_complete ps) (ps_seen ps) m in
      dn res <- of_res (parse_tree_statement unit parse_len_unit lower default_ropts F ps1) ;;
      match res with
      | (None, _) => RErr (if fx_tree_eof fx then ParseErr else AttrErr)   (* tree.label = tree_name on None *)
      | (Some _, ps2) =>
        let m' := ps_map ps2 in
        ROk (m', upd_trees (tns_set_labels (upd_tok st1 ps2 [] false) ti (m_ns m')) (n_trees st1 + 1))
      end
    end.

(* the `while True` over consecutive TREE statements *)
Fixpoint tree_stmts_loop (fuel : nat) (st : nstate) (ti : nat) (m : mapper) : nr (option str * mapper * nstate) :=
  match fuel with
  | O => RFuel
  | S f =>
    dn r <- parse_tree_statement_nexus st ti m ;;
    let '(m1, st1) := r in
    if n_eof st1 || negb (truthy (n_cur st1)) then ROk (Some (s_of "TREE"), m1, st1)
    else
      let up := match n_cur st1 with Some s => Some (upper s) | None => None end in
      let st2 := set_cur_n st1 up in
      if negb (tok_is up "TREE") then ROk (up, m1, st2)
      else tree_stmts_loop f st2 ti m1
  end.

Fixpoint trees_loop (fuel : nat) (tok : option str) (st : nstate) (lt : option str) (tns : option nat)
         (m : option mapper) : nr nstate :=
  match fuel with
  | O => RFuel
  | S f =>
    if negb (is_end tok) && guard_extra L_trees tok st then
      dn p <- fetch (uniform_prim L_trees) tok st ;;
      let '(tok1, st1) := p in
      if tok_is tok1 "LINK" then
        dn r <- parse_link st1 ;; let '(l_taxa, _, st2) := r in trees_loop f tok1 st2 l_taxa tns m
      else if tok_is tok1 "TITLE" then
        dn r <- parse_title st1 ;; trees_loop f (Some []) (snd r) lt tns m
      else if tok_is tok1 "TRANSLATE" then
        dn a <- (match tns with Some i => ROk (i, st1) | None => get_tns st1 lt end) ;;
        let '(ti, st2) := a in
        dn r <- parse_translate st2 ti ;;
        trees_loop f (Some []) (snd r) lt (Some ti) (Some (fst r))
      else if tok_is tok1 "TREE" then
        dn a <- (match tns with Some i => ROk (i, st1) | None => get_tns st1 lt end) ;;
        let '(ti, st2) := a in
        let m0 := match m with Some x => x | None => new_mapper lower (tns_labels st2 ti) true false end in
        dn r <- tree_stmts_loop F st2 ti m0 ;;
        let '(tok2, m1, st3) := r in
        trees_loop f tok2 st3 lt (Some ti) (Some m1)
      else if tok_is tok1 "BEGIN" then RErr ParseErr
      else trees_loop f tok1 st1 lt tns m
    else ROk st
  end.

Definition parse_trees_block (tok : option str) (st : nstate) : nr nstate :=
  dn st1 <- skip_to_semicolon st ;;
  dn st2 <- trees_loop F tok st1 None None None ;;
  skip_to_semicolon st2.

(* ------------------------------------------------------------------------------------------ *)
(* SETS / ASSUMPTIONS / CODONS                                                                 *)

(* _get_char_matrix(title) -> index in _char_matrices *)
Fixpoint find_mats (mats : list matrix) (t : str) (i : nat) : nr (list nat) :=
  match mats with
  | [] => ROk []
  | m :: r =>
    match m_label m with
    | None => if fx_untitled fx then find_mats r t (S i)
              else RErr AttrErr                                   (* cm.label.upper() on None *)
    | Some l => dn rest <- find_mats r t (S i) ;;
                ROk (if seqb (upper l) (upper t) then i :: rest else rest)
    end
  end.

Definition get_char_matrix (st : nstate) (title : option str) : nr nat :=
  match title with
  | None => match n_mats st with [_] => ROk O | _ => RErr ParseErr end
  | Some t => dn hits <- find_mats (n_mats st) t O ;;
              match hits with [i] => ROk i | _ => RErr ParseErr end
  end.

(* hyphens are captured delimiters inside _parse_positions: an unquoted token is delivered in
   pieces; the pieces not yet delivered wait in n_pend *)
Fixpoint split_hyphen (s : str) (cur : str) : list str :=
  match s with
  | [] => match cur with [] => [] | _ => [rev cur] end
  | c :: r => if c =? 45
              then (match cur with [] => [] | _ => [rev cur] end) ++ [[45]] ++ split_hyphen r []
              else split_hyphen r (c :: cur)
  end.

Fixpoint pieces_to_tokens (ps : list str) (eof : bool) : list token :=
  match ps with
  | [] => []
  | [p] => [mkTok p false [] eof]
  | p :: r => mkTok p false [] false :: pieces_to_tokens r eof
  end.

Definition next_pos_token (st : nstate) : nr (option str * nstate) :=
  match n_pend st, ps_toks (n_ps st) with
  | [], t :: r =>
    if negb (t_quoted t) && zmem 45 (t_text t) && negb (seqb (t_text t) [45]) then
      let ps := n_ps st in
      let ps' := set_tok ps (ps_cur ps) (ps_eof ps) (ps_comments ps) r (ps_end ps) in
      next_token (upd_tok st ps' (pieces_to_tokens (split_hyphen (t_text t) []) (t_eof t)) (n_quoted st))
    else next_token st
  | _, _ => next_token st
  end.

(* set_hyphens_as_captured_delimiters(False): what is left of a split token is one token again *)
Definition rejoin_pending (st : nstate) : nstate :=
  match n_pend st with
  | [] => st
  | ts => upd_tok st (n_ps st)
                  [mkTok (flat_map t_text ts) false [] (match rev ts with t :: _ => t_eof t | [] => false end)]
                  (n_quoted st)
  end.

Definition pos_fetch (tok : option str) (st : nstate) : nr (option str * nstate) :=
  match uniform_prim L_positions with
  | FNextToken => next_pos_token st
  | FNone => ROk (tok, st)
  | _ => RUnm
  end.

(* result of the loop body: (bad = a position outside 1..max was appended, step-0 seen) *)
Fixpoint positions_loop (fuel : nat) (maxp : Z) (tok : option str) (st : nstate) (bad : bool) : nr (bool * nstate) :=
  match fuel with
  | O => RFuel
  | S f =>
    if negb (tok_is tok ";") && negb (tok_is tok ",") && guard_extra L_positions tok st then
      if negb (truthy tok) then ROk (bad, st)
      else
        let t := tok_text tok in
        if seqb (upper t) (s_of "ALL") then ROk (bad, st)
        else if all_digits t then
          let start := int_val t in
          dn p <- pos_fetch tok st ;;
          let '(tok1, st1) := p in
          if negb (truthy tok1) then ROk (bad || (start >? maxp), st1)
          else if tok_is tok1 "," || all_digits (tok_text tok1) || tok_is tok1 ";" then
            positions_loop f maxp tok1 st1 (bad || (start >? maxp))
          else if tok_is tok1 "-" then
            dn q <- pos_fetch tok1 st1 ;;
            let '(tok2, st2) := q in
            if negb (truthy tok2) then RErr ParseErr
            else if all_digits (tok_text tok2) || tok_is tok2 "." then
              dn r <- pos_fetch tok2 st2 ;;
              let '(tok3, st3) := r in
              if truthy tok3 && (tok_is tok3 "\" || tok_is tok3 "/") then
                dn u <- pos_fetch tok3 st3 ;;
                let '(tok4, st4) := u in
                if negb (truthy tok4) then RErr ParseErr
                else if negb (all_digits (tok_text tok4)) then RErr ParseErr
                else
                  dn v <- pos_fetch tok4 st4 ;;
                  if int_val (tok_text tok4) =? 0
                  then RErr (if fx_step0 fx then ParseErr else ValueErr)  (* range() arg 3 must not be zero *)
                  else positions_loop f maxp (fst v) (snd v) bad
              else positions_loop f maxp tok3 st3 bad
            else RErr ParseErr
          else RErr ParseErr
        else if fix_positions then RErr ParseErr
        else positions_loop f maxp tok st bad              (* no branch taken: nothing is fetched *)
    else ROk (bad, st)
  end.

Definition parse_positions (st : nstate) : nr nstate :=
  match n_nchar st with
  | None => RUnm
  | Some maxp =>
    dn p <- next_pos_token st ;;
    let '(tok, st1) := p in
    if n_eof st1 || negb (truthy tok) then RErr ParseErr
    else
      dn r <- positions_loop F maxp tok st1 false ;;
      let '(bad, st2) := r in
      if bad then RErr ParseErr else ROk (rejoin_pending st2)
  end.

(* _parse_charset_statement(block_title, link_title) *)
Definition parse_charset (st : nstate) (lt : option str) : nr nstate :=
  dn mi <- get_char_matrix st lt ;;
  dn p <- next_token st ;;
  let '(tok, st1) := p in
  if n_eof st1 || negb (truthy tok) then RErr ParseErr
  else
    dn q <- next_token st1 ;;
    let '(tok2, st2) := q in
    if negb (truthy tok2) then RErr ParseErr
    else if negb (tok_is tok2 "=") then RErr ParseErr
    else
      dn st3 <- parse_positions st2 ;;
      match nth_error (n_mats st3) mi with
      | None => RUnm
      | Some m =>
        let name := tok_text tok in
        if existsb (seqb name) (m_sets m)
        then RErr (if fx_charsetdup fx then ParseErr else ValueErr)   (* "Character subset .. already defined" *)
        else ROk (upd_mats st3 (set_nth (n_mats st3) mi (mkMat (m_label m) (m_tns m) (m_rows m) (name :: m_sets m))))
      end.

Fixpoint sets_loop (fuel : nat) (tok : option str) (st : nstate) (lt : option str) : nr nstate :=
  match fuel with
  | O => RFuel
  | S f =>
    if negb (is_end tok) && guard_extra L_sets tok st then
      dn p <- fetch (nth_prim L_sets 0) tok st ;;
      let '(tok1, st1) := p in
      if tok_is tok1 "TITLE" then
        dn r <- parse_title st1 ;; sets_loop f tok1 (snd r) lt
      else if tok_is tok1 "LINK" then
        dn r <- parse_link st1 ;; let '(_, l_chars, st2) := r in sets_loop f tok1 st2 l_chars
      else if tok_is tok1 "CHARSET" then
        dn st2 <- parse_charset st1 lt ;; sets_loop f tok1 st2 lt
      else if tok_is tok1 "BEGIN" then RErr ParseErr
      else sets_loop f tok1 st1 lt
    else ROk st
  end.

Definition parse_sets_block (tok : option str) (st : nstate) : nr nstate :=
  dn st1 <- skip_to_semicolon st ;;
  dn st2 <- sets_loop F tok st1 None ;;
  skip_to_semicolon st2.

(* ------------------------------------------------------------------------------------------ *)
(* _parse_nexus_stream                                                                         *)

Fixpoint scan_begin_loop (fuel : nat) (tok : option str) (st : nstate) : nr (option str * nstate) :=
  match fuel with
  | O => RFuel
  | S f =>
    if negb (tok_is tok "BEGIN") && guard_extra L_scan_begin tok st then
      dn p <- fetch (uniform_prim L_scan_begin) tok st ;; scan_begin_loop f (fst p) (snd p)
    else ROk (tok, st)
  end.

Fixpoint outer_loop (fuel : nat) (st : nstate) : nr nstate :=
  match fuel with
  | O => RFuel
  | S f =>
    if guard_extra L_outer (Some []) st then
      dn p <- ucase (next_token st) ;;
      dn q <- scan_begin_loop F (fst p) (snd p) ;;
      dn r <- ucase (next_token (snd q)) ;;
      let '(tok, st1) := r in
      dn st2 <-
        (if tok_is tok "TAXA" then parse_taxa_block st1
         else if tok_is tok "CHARACTERS" || tok_is tok "DATA" then parse_characters_block tok st1
         else if tok_is tok "TREES" then parse_trees_block tok st1
         else if tok_is tok "SETS" || tok_is tok "ASSUMPTIONS" || tok_is tok "CODONS" then parse_sets_block tok st1
         else if tok_is tok "BEGIN" then RErr ParseErr
         else dn c <- consume_to_end_of_block tok st1 ;; ROk (snd c)) ;;
      outer_loop f st2
    else ROk st
  end.

Definition init_nstate (toks : list token * tend) : nstate :=
  mkN (init_pstate toks (new_mapper lower [] true false)) [] false None None [] [] 0 DStandardEmpty false.

Definition parse_nexus_stream (toks : list token * tend) : nr nstate :=
  dn p <- next_token (init_nstate toks) ;;
  match fst p with
  | None => RErr (if fx_empty fx then ParseErr else AttrErr)      (* token.upper() on None: empty source *)
  | Some t =>
    if negb (seqb (upper t) (s_of "#NEXUS")) then RErr ParseErr   (* NotNexusFileError *)
    else outer_loop F (snd p)
  end.

End Nexus.

(* NexusReader on a text: tokenizer of Tokenizer.v (NexusTokenizer configuration, underscores not
   preserved), loop budget 2 * |text| + 16 *)
Definition nexus_fuel (text : str) : nat := 2 * length text + 16.

Definition nexus_read (upper lower : str -> str) (dval : Z -> option Z) (sym_ok : Z -> bool)
           (is_float : str -> bool) (fx : nfix) (text : str) : nr nstate :=
  parse_nexus_stream upper lower dval sym_ok is_float fx (nexus_fuel text)
                     (tokenize (nexus_cfg false) text).

Definition ascii_upper (s : str) : str :=
  map (fun c => if (97 <=? c) && (c <=? 122) then c - 32 else c) s.
