(* C10: run-time library of the generated coq/Gen/Namespace.v (py/dv/gen_namespace.py).

   TRUSTED: this file states the semantics of the Python primitives the translated methods of
   TaxonNamespace use.  Values are dynamically typed (`pyval`); every primitive checks its
   operands the way Python does and raises the corresponding exception class (PyPrims.err).
   `OtherErr` marks operand shapes that the model does not represent (never reached from the
   operations of C10Model.step; the equalities in Proofs/C10Gen*.v are stated on well-typed
   arguments).

   Object state.  `self` is the namespace record `ns` inside `world` (Model/C10Model.v):
     _taxa                         : list of Taxon objects            -> taxa  : list tid
     _taxon_accession_index_map    : dict Taxon -> int                -> acc   : list (tid * Z)
     _accession_index_taxon_map    : dict int -> Taxon                -> rev   : list (Z * tid)
     _current_accession_count      : int                              -> count : Z
     _taxon_bitmask_map            : dict Taxon -> int                -> bm    : list (tid * Z)
     is_mutable / is_case_sensitive: bool                             -> is_mut / is_cs
   Taxon objects are identities (tid); Taxon.__hash__/__eq__ are identity based, so a dict keyed by
   Taxon objects is an association list keyed by tid.  Taxon.label -> label_of w t (w_lab);
   Taxon.lower_cased_label is translated from Taxon._get_lower_cased_label (Gen/Namespace.v:
   py_Taxon_lower_cased_label); its cache is not represented: the generator checks that the cache is
   reset by the only assignment to _label and filled only by the normal form of the current label;
   str(x).lower() / .casefold() -> py_str_norm.

   Python dict semantics relied on: d[k] = v replaces the binding of k (aset); k in d <-> a binding
   exists (alookup); d[k] raises KeyError when there is none; d.pop(k, None) returns the bound value
   (or None) and removes the binding (aremove); d.clear() removes all.  No translated function
   iterates over a dict, so insertion order is irrelevant.
   Python list semantics relied on: append adds at the end; x in l compares with == (identity for
   Taxon objects); l.remove(x) deletes the FIRST occurrence, ValueError when absent; l.reverse();
   l.sort(key=, reverse=) is stable (C10Model.py_sort); iteration visits the elements in order, and
   the iterated list is not modified by the loop body (checked by the generator).
   On an exception the partially updated object state is dropped (the caller `step` keeps the old
   world): as in Model/C10Model.v. *)
From Coq Require Import ZArith List Bool String.
From DV Require Import Model.PyPrims Model.C10Model Model.C10ModelExt.
Import ListNotations.
Open Scope Z_scope.

Inductive pych := C0 | C1 | Cb | Cminus.         (* the characters of bin(n) *)

Inductive pyval :=
| VNone
| VBool (b : bool)
| VInt (z : Z)
| VTaxon (t : tid)
| VLabel (l : lbl)
| VList (l : list pyval)          (* list or tuple *)
| VKeyLabel                       (* lambda x: x.label *)
| VKw (kw : list (string * pyval))  (* a keyword dictionary *)
| VStr (s : list pych)            (* a str over the alphabet of bin() *)
| VOut (o : out).                 (* a rendered Newick string, as the groups of labels it names *)

Inductive ctrl (S R : Type) := Next (s : S) | Ret (r : R).
Arguments Next {S R} _.
Arguments Ret {S R} _.

(* ---------- truth, identity, equality ---------- *)

Definition py_truth (v : pyval) : res bool :=
  match v with
  | VNone => Ok false
  | VBool b => Ok b
  | VInt z => Ok (negb (Z.eqb z 0))
  | VList l => Ok (match l with [] => false | _ => true end)
  | VKw kw => Ok (match kw with [] => false | _ => true end)
  | VStr s => Ok (match s with [] => false | _ => true end)
  | VTaxon _ => Ok true             (* Taxon defines neither __bool__ nor __len__ *)
  | VKeyLabel => Ok true
  | VLabel _ | VOut _ => Err OtherErr
  end.

Definition py_is_none (v : pyval) : bool := match v with VNone => true | _ => false end.
Definition py_is_true (v : pyval) : bool := match v with VBool true => true | _ => false end.

Definition py_not (v : pyval) : res pyval :=
  match py_truth v with Ok b => Ok (VBool (negb b)) | Err e => Err e | OutOfFuel => OutOfFuel end.

(* == on scalars; Taxon objects compare by identity *)
Definition py_eq (a b : pyval) : res pyval :=
  match a, b with
  | VInt x, VInt y => Ok (VBool (Z.eqb x y))
  | VLabel x, VLabel y => Ok (VBool (Z.eqb x y))
  | VTaxon x, VTaxon y => Ok (VBool (Z.eqb x y))
  | VBool x, VBool y => Ok (VBool (Bool.eqb x y))
  | VNone, VNone => Ok (VBool true)
  | VList _, _ | _, VList _ | VKw _, _ | _, VKw _ | VStr _, _ | _, VStr _ | VOut _, _ | _, VOut _
  | VBool _, VInt _ | VInt _, VBool _ => Err OtherErr
  | _, _ => Ok (VBool false)
  end.

(* ---------- integers ---------- *)

Definition py_int2 (f : Z -> Z -> res pyval) (a b : pyval) : res pyval :=
  match a, b with VInt x, VInt y => f x y | _, _ => Err TypeErr end.

Definition py_lshift := py_int2 (fun x y => if Z.ltb y 0 then Err ValueErr else Ok (VInt (Z.shiftl x y))).
Definition py_rshift := py_int2 (fun x y => if Z.ltb y 0 then Err ValueErr else Ok (VInt (Z.shiftr x y))).
Definition py_band := py_int2 (fun x y => Ok (VInt (Z.land x y))).
Definition py_bor := py_int2 (fun x y => Ok (VInt (Z.lor x y))).
Definition py_add := py_int2 (fun x y => Ok (VInt (x + y))).
Definition py_sub := py_int2 (fun x y => Ok (VInt (x - y))).

(* ---------- local lists ---------- *)

Definition py_iter (v : pyval) : res (list pyval) :=
  match v with VList l => Ok l | _ => Err TypeErr end.      (* 'Taxon' object is not iterable, ... *)

Definition py_append (l v : pyval) : res pyval :=
  match l with VList xs => Ok (VList (xs ++ [v])) | _ => Err AttrErr end.

Definition py_len (v : pyval) : res pyval :=
  match v with
  | VList l => Ok (VInt (Z.of_nat (List.length l)))
  | VStr s => Ok (VInt (Z.of_nat (List.length s)))
  | _ => Err TypeErr
  end.

Definition py_scalar_eqb (a b : pyval) : bool :=
  match py_eq a b with Ok (VBool true) => true | _ => false end.

(* x in <local list of scalars> *)
Definition py_in_list (x l : pyval) : res pyval :=
  match l, x with
  | VList _, VList _ => Err OtherErr
  | VList xs, _ => Ok (VBool (existsb (py_scalar_eqb x) xs))
  | _, _ => Err TypeErr
  end.

Definition py_zip (a b : list pyval) : list pyval :=
  map (fun p => VList [fst p; snd p]) (combine a b).

Definition py_unpack2 (v : pyval) : res (pyval * pyval) :=
  match v with VList [a; b] => Ok (a, b) | VList _ => Err ValueErr | _ => Err TypeErr end.

Fixpoint py_for {S R : Type} (xs : list pyval) (body : pyval -> S -> res (ctrl S R)) (s : S)
  : res (ctrl S R) :=
  match xs with
  | [] => Ok (Next s)
  | x :: r =>
    match body x s with
    | Ok (Next s') => py_for r body s'
    | other => other
    end
  end.

Fixpoint py_while {S R : Type} (fuel : nat) (cond : S -> res bool) (body : S -> res (ctrl S R)) (s : S)
  : res (ctrl S R) :=
  match fuel with
  | O => OutOfFuel
  | S f =>
    match cond s with
    | Ok true =>
      match body s with
      | Ok (Next s') => py_while f cond body s'
      | other => other
      end
    | Ok false => Ok (Next s)
    | Err e => Err e
    | OutOfFuel => OutOfFuel
    end
  end.

Fixpoint py_map (f : pyval -> res pyval) (xs : list pyval) : res (list pyval) :=
  match xs with
  | [] => Ok []
  | x :: r =>
    match f x with
    | Ok y => match py_map f r with Ok ys => Ok (y :: ys) | Err e => Err e | OutOfFuel => OutOfFuel end
    | Err e => Err e
    | OutOfFuel => OutOfFuel
    end
  end.

(* ---------- dictionaries of the object state ---------- *)

Inductive kind := KTaxon | KInt.

Definition enc (k : kind) (v : pyval) : res (option Z) :=
  match k, v with
  | KTaxon, VTaxon t => Ok (Some t)
  | KInt, VInt z => Ok (Some z)
  | _, VList _ | _, VKw _ => Err TypeErr            (* unhashable *)
  | KInt, VBool _ => Err OtherErr                   (* True == 1: not modelled *)
  | _, _ => Ok None                                 (* hashable, cannot be a key of this dict *)
  end.

Definition dec (k : kind) (z : Z) : pyval := match k with KTaxon => VTaxon z | KInt => VInt z end.

Definition pyd_has (kk : kind) (d : list (Z * Z)) (key : pyval) : res pyval :=
  match enc kk key with
  | Ok (Some k) => Ok (VBool (match alookup k d with Some _ => true | None => false end))
  | Ok None => Ok (VBool false)
  | Err e => Err e
  | OutOfFuel => OutOfFuel
  end.

Definition pyd_get (kk vk : kind) (d : list (Z * Z)) (key : pyval) : res pyval :=
  match enc kk key with
  | Ok (Some k) => match alookup k d with Some v => Ok (dec vk v) | None => Err KeyErr end
  | Ok None => Err KeyErr
  | Err e => Err e
  | OutOfFuel => OutOfFuel
  end.

Definition pyd_set (kk vk : kind) (d : list (Z * Z)) (key val : pyval) : res (list (Z * Z)) :=
  match enc kk key, enc vk val with
  | Ok (Some k), Ok (Some v) => Ok (aset k v d)
  | Err e, _ => Err e
  | _, _ => Err OtherErr                            (* a binding the record cannot hold *)
  end.

(* d.pop(key, None) *)
Definition pyd_pop (kk vk : kind) (d : list (Z * Z)) (key : pyval) : res (list (Z * Z) * pyval) :=
  match enc kk key with
  | Ok (Some k) => Ok (aremove k d, match alookup k d with Some v => dec vk v | None => VNone end)
  | Ok None => Ok (d, VNone)
  | Err e => Err e
  | OutOfFuel => OutOfFuel
  end.

(* ---------- the member list self._taxa ---------- *)

Definition taxa_vals (l : list tid) : list pyval := map VTaxon l.

Definition taxa_has (l : list tid) (v : pyval) : res pyval :=
  match v with VTaxon t => Ok (VBool (memb t l)) | _ => Ok (VBool false) end.

Definition taxa_append (l : list tid) (v : pyval) : res (list tid) :=
  match v with VTaxon t => Ok (l ++ [t]) | _ => Err OtherErr end.

Fixpoint remove_first (t : tid) (l : list tid) : list tid :=
  match l with
  | [] => []
  | x :: r => if Z.eqb t x then r else x :: remove_first t r
  end.

Definition taxa_remove (l : list tid) (v : pyval) : res (list tid) :=
  match v with
  | VTaxon t => if memb t l then Ok (remove_first t l) else Err ValueErr
  | _ => Err ValueErr
  end.

(* l.sort(key=key, reverse=reverse) for key = lambda x: x.label *)
Definition taxa_sort (w : world) (l : list tid) (key reverse : pyval) : res (list tid) :=
  match key, reverse with
  | VKeyLabel, VBool b => Ok (py_sort w b l)
  | _, _ => Err OtherErr
  end.

(* ---------- setters of the object state ---------- *)

Definition set_taxa (w : world) (x : list tid) : world :=
  let n := w_ns w in mkW (mkNs x (acc n) (rev n) (count n) (bm n) (is_mut n) (is_cs n)) (w_lab w) (w_next w).
Definition set_acc (w : world) (x : list (tid * Z)) : world :=
  let n := w_ns w in mkW (mkNs (taxa n) x (rev n) (count n) (bm n) (is_mut n) (is_cs n)) (w_lab w) (w_next w).
Definition set_rev (w : world) (x : list (Z * tid)) : world :=
  let n := w_ns w in mkW (mkNs (taxa n) (acc n) x (count n) (bm n) (is_mut n) (is_cs n)) (w_lab w) (w_next w).
Definition set_count (w : world) (x : pyval) : res world :=
  let n := w_ns w in
  match x with
  | VInt z => Ok (mkW (mkNs (taxa n) (acc n) (rev n) z (bm n) (is_mut n) (is_cs n)) (w_lab w) (w_next w))
  | _ => Err OtherErr
  end.
Definition set_bm (w : world) (x : list (tid * Z)) : world :=
  let n := w_ns w in mkW (mkNs (taxa n) (acc n) (rev n) (count n) x (is_mut n) (is_cs n)) (w_lab w) (w_next w).

(* ---------- Taxon objects ---------- *)

(* Taxon(label=l): a fresh object identity *)
Definition py_new_taxon_obj (w : world) (label : pyval) : res (world * pyval) :=
  match label with
  | VLabel l => Ok (mkW (w_ns w) ((w_next w, l) :: w_lab w) (w_next w + 1), VTaxon (w_next w))
  | _ => Err OtherErr
  end.

Definition py_attr_label (w : world) (v : pyval) : res pyval :=
  match v with VTaxon t => Ok (VLabel (label_of w t)) | _ => Err AttrErr end.

(* the case-normalising str methods; which one a piece of source uses is read off its AST *)
Inductive strnorm := SLower | SCasefold.

(* str(x).lower() / str(x).casefold() on a label: `lower` and `casefold` are two unrelated
   functions on label ids (nothing is assumed about either) *)
Definition py_str_norm (lower casefold : lbl -> lbl) (m : strnorm) (v : pyval) : res pyval :=
  match v with
  | VLabel l => Ok (VLabel (match m with SLower => lower l | SCasefold => casefold l end))
  | _ => Err OtherErr
  end.

(* nexusprocessing.escape_nexus_token: labels are opaque ids, escaping is outside the model *)
Definition py_escape_nexus_token (v : pyval) : res pyval :=
  match v with VLabel l => Ok (VLabel l) | _ => Err OtherErr end.

(* ---------- keyword dictionaries ---------- *)

Fixpoint kw_lookup (k : string) (kw : list (string * pyval)) : option pyval :=
  match kw with
  | [] => None
  | (k', v) :: r => if String.eqb k k' then Some v else kw_lookup k r
  end.

Definition kw_has (k : string) (kw : pyval) : res pyval :=
  match kw with VKw l => Ok (VBool (match kw_lookup k l with Some _ => true | None => false end)) | _ => Err TypeErr end.

Definition kw_get (k : string) (kw : pyval) : res pyval :=
  match kw with
  | VKw l => match kw_lookup k l with Some v => Ok v | None => Err KeyErr end
  | _ => Err TypeErr
  end.

(* f(self, **kw) for a callee with the positional-or-keyword parameters `params` (name, default):
   an unexpected keyword or a missing required parameter is a TypeError *)
Fixpoint kw_all_known (names : list string) (kw : list (string * pyval)) : bool :=
  match kw with
  | [] => true
  | (k, _) :: r => existsb (String.eqb k) names && kw_all_known names r
  end.

Fixpoint kw_bind (params : list (string * option pyval)) (kw : list (string * pyval)) : res (list pyval) :=
  match params with
  | [] => Ok []
  | (p, dflt) :: r =>
    match (match kw_lookup p kw with Some v => Some v | None => dflt end) with
    | None => Err TypeErr
    | Some v => match kw_bind r kw with Ok vs => Ok (v :: vs) | Err e => Err e | OutOfFuel => OutOfFuel end
    end
  end.

Definition py_kwargs (params : list (string * option pyval)) (kw : pyval) : res (list pyval) :=
  match kw with
  | VKw l => if kw_all_known (map fst params) l then kw_bind params l else Err TypeErr
  | _ => Err TypeErr
  end.

(* ---------- rendering (the two format strings of bitmask_as_newick_string) ---------- *)

Fixpoint labels_of (l : list pyval) : res (list lbl) :=
  match l with
  | [] => Ok []
  | VLabel x :: r => match labels_of r with Ok xs => Ok (x :: xs) | Err e => Err e | OutOfFuel => OutOfFuel end
  | _ => Err TypeErr                                  (* str.join of a non-str *)
  end.

(* "({});".format(",".join(labels)) *)
Definition py_newick_one_group (labels : pyval) : res pyval :=
  match labels with
  | VList l => match labels_of l with Ok xs => Ok (VOut (OGroup1 xs)) | Err e => Err e | OutOfFuel => OutOfFuel end
  | _ => Err TypeErr
  end.

(* "(({}), ({}));".format(", ".join(left), ", ".join(right)) *)
Definition py_newick_two_groups (left right : pyval) : res pyval :=
  match left, right with
  | VList l, VList r =>
    match labels_of l, labels_of r with
    | Ok xs, Ok ys => Ok (VOut (OGroups xs ys))
    | Err e, _ => Err e
    | _, Err e => Err e
    | _, _ => OutOfFuel
    end
  | _, _ => Err TypeErr
  end.

(* fuel for `while bitmask: ... bitmask >>= 1` *)
Definition fuel_bits (v : pyval) : nat := match v with VInt m => bits_fuel m | _ => 1%nat end.
(* fuel for `while x in self._taxa: self._taxa.remove(x)` *)
Definition fuel_len (l : list tid) : nat := S (List.length l).

(* ---------- strings over the alphabet of bin() (bitprocessing.int_as_bitstring / bit_length) ---------- *)

Definition py_bin (v : pyval) : res pyval :=
  match v with
  | VInt Z0 => Ok (VStr [C0; Cb; C0])
  | VInt (Zpos p) => Ok (VStr (C0 :: Cb :: map (fun b : bool => if b then C1 else C0) (pos_bits p)))
  | VInt (Zneg p) => Ok (VStr (Cminus :: C0 :: Cb :: map (fun b : bool => if b then C1 else C0) (pos_bits p)))
  | _ => Err TypeErr                                 (* bin(None): TypeError *)
  end.

Definition pych_eqb (a b : pych) : bool :=
  match a, b with C0, C0 | C1, C1 | Cb, Cb | Cminus, Cminus => true | _, _ => false end.

Fixpoint lstrip_chars (cs : list pych) (s : list pych) : list pych :=
  match s with
  | [] => []
  | c :: r => if existsb (pych_eqb c) cs then lstrip_chars cs r else s
  end.

Definition py_lstrip (s chars : pyval) : res pyval :=
  match s, chars with VStr x, VStr c => Ok (VStr (lstrip_chars c x)) | _, _ => Err AttrErr end.

(* s[k:] *)
Definition py_slice_from (s k : pyval) : res pyval :=
  match s, k with
  | VStr x, VInt z => if Z.ltb z 0 then Err OtherErr else Ok (VStr (skipn (Z.to_nat z) x))
  | _, _ => Err TypeErr
  end.

(* s.rjust(n, "0") *)
Definition py_rjust (s n fill : pyval) : res pyval :=
  match s, n, fill with
  | VStr x, VInt z, VStr [c] => Ok (VStr (repeat c (Z.to_nat (z - Z.of_nat (List.length x))) ++ x))
  | VStr _, VInt _, VStr _ => Err TypeErr
  | _, _, _ => Err TypeErr
  end.

(* s[::-1] *)
Definition py_str_reverse (s : pyval) : res pyval :=
  match s with VStr x => Ok (VStr (List.rev x)) | _ => Err TypeErr end.

(* s.replace(a, b) for one-character a and a replacement inside the alphabet *)
Definition py_str_replace (s a b : pyval) : res pyval :=
  match s, a, b with
  | VStr x, VStr [ca], VStr [cb] => Ok (VStr (map (fun c => if pych_eqb c ca then cb else c) x))
  | VStr _, VStr _, _ => Err OtherErr
  | _, _, _ => Err TypeErr
  end.
