(* Vocabulary for stating that the generated code (Gen/NewickGen.v) equals the hand-written models:
   how a Tokenizer object state is seen as the model's tk_stream, and the iteration of the generated
   __next__ over a text.  Definitions only. *)
From Coq Require Import ZArith List Bool.
From DV Require Import Model.PyPrims Model.Tokenizer Model.Newick Model.C02GenPrims Gen.NewickGen.
Import ListNotations.
Open Scope Z_scope.

(* the stream as the model sees it: the current character (if one has been read) and the unread rest *)
Definition tk_stream (o : tkst) : str := match k_cur o with None => k_src o | Some c => c ++ k_src o end.
(* states the tokenizer can be in: _cur_char is None, "" (then the source is exhausted) or one character *)
Definition tk_wf (o : tkst) : Prop :=
  match k_cur o with None => True | Some [] => k_src o = [] | Some [_] => True | Some _ => False end.
(* token, quoting flag and captured comments untouched *)
Definition tk_same (o o' : tkst) : Prop :=
  k_token o' = k_token o /\ k_quoted o' = k_quoted o /\ k_comments o' = k_comments o.


(* what the callers of __next__ see, in the vocabulary of Model/Tokenizer.v *)
Definition new_comments (o o' : tkst) : list str := skipn (length (k_comments o)) (k_comments o').
Definition tok_view (o : tkst) (r : mres tkst (option str)) : tok_result :=
  match r with
  | MRet (Some t) o' => TTok t (k_quoted o') (new_comments o o') (tk_stream o')
  | MExc ExStop o' => TEof (new_comments o o')
  | MExc (ExErr e) _ => TErr e
  | _ => TFuel
  end.


(* the whole token sequence: iterating the generated __next__ from the initial state of a text,
   with is_eof() = (_cur_char == "") after each token, is the model's `tokenize` *)
Fixpoint py_tokens (cfg : tok_cfg) (fuel : nat) (o : tkst) : list token * tend :=
  match fuel with
  | O => ([], EndFuel)
  | Datatypes.S f =>
    match py_tk_next cfg o with
    | MRet (Some t) o' =>
      let '(l, e) := py_tokens cfg f o' in
      (mkTok t (k_quoted o') (new_comments o o') (ostr_eqb (k_cur o') (Some [])) :: l, e)
    | MExc ExStop o' => ([], EndEof (new_comments o o'))
    | MExc (ExErr e) _ => ([], EndErr e)
    | _ => ([], EndFuel)
    end
  end.

