(* C02: specification-side definitions for the NEXUS round trip (definitions only). *)
From Coq Require Import ZArith List Bool.
From DV Require Import Model.PyPrims Gen.CharClasses Model.Tokenizer Model.Newick Model.C02Spec Model.C02ListSpec Model.C02Nexus.
Import ListNotations.

Section NexusSpec.
Variable L : Type.

Notation ntree := (ntree L).
Notation ptree := (ptree L).

(* position of the member with exactly this label *)
Definition pos (ns : list str) (l : str) : nat :=
  match index_of l ns O with Some i => i | None => length ns end.

(* the tree with every taxon label replaced (what a TRANSLATE map does to the written tokens) *)
Fixpoint relabel (f : str -> str) (t : ntree) : ntree :=
  match t with
  | Nd tx lb ln ks => Nd (option_map f tx) lb ln (map (relabel f) ks)
  end.

(* the tree the reader builds over a namespace that already holds every taxon: each taxon-bearing
   node refers to the position `ix l` of its label *)
Fixpoint expectF (o : rt_opts) (ix : str -> nat) (t : ntree) : ptree :=
  match t with
  | Nd tx lb ln ks =>
    PN (match own_tax L o t with Some l => Some (ix l) | None => None end)
       (exp_lbl L o t) ln [] (map (expectF o ix) ks)
  end.

(* every taxon of the trees is a member of the namespace *)
Definition taxa_in (o : rt_opts) (ns : list str) (ts : list (option bool * ntree)) : Prop :=
  forall l, In l (doc_taxa L o ts) -> In l ns.

End NexusSpec.
