(* C05, wave 6: fourth part of the translator's run-time library: SplitDistributionSummarizer.configure,
   _decorate and the DECORATION VIEW of SplitDistributionSummarizer.summarize_splits_on_tree
   (Gen/SplitDistDeco.v, generator py/dv/gen_splitdist_deco.py).  Same conventions as
   C05GenPrims.v: every definition states the Python meaning of one primitive of the generated code
   (TRUSTED).  Floats are exact rationals (ROUNDING BOUNDARY: see py_format_fixed and DSqrt). *)
From Coq Require Import ZArith QArith Qabs Qreduction Qround List Bool String Ascii.
From DV Require Import Model.PyPrims Gen.BitFns Model.C05Model Model.C05Spec Model.C05Model2
     Model.C05GenPrims Model.C05GenPrims2.
Import ListNotations.
Open Scope Z_scope.

(* ------------------------------------------------------------------------------------------ *)
(* values handed to _decorate *)
Inductive dval :=
| DFloat (q : Q)                  (* a float *)
| DNone                           (* None *)
| DPair (lo hi : Q)               (* summary['range'] = (min, max) *)
| DEmptyList                      (* []: the no-data value of 'hpd95' / 'quant_5_95' / 'range' *)
| DSqrt (var : option Q)          (* summary['sd'] = math.sqrt(summary['var']); var None = float('inf').
                                     ROUNDING BOUNDARY: represented by its argument *)
| DOpaque (field : string).       (* summary['hpd95'] / summary['quant_5_95'] of the list summarised:
                                     outside exact arithmetic, identified by its key only *)

Definition q_same4 (a b : Q) : bool := (Qnum a =? Qnum b) && (Pos.eqb (Qden a) (Qden b)).

(* ------------------------------------------------------------------------------------------ *)
(* strings *)
(* "<text>{}<text>".format(arg): the first replacement field is replaced *)
Fixpoint py_format1 (fmt arg : string) : string :=
  match fmt with
  | String "{"%char (String "}"%char rest) => (arg ++ rest)%string
  | String c rest => String c (py_format1 rest arg)
  | EmptyString => EmptyString
  end.

(* decimal digits of a non-negative int *)
Fixpoint digits_fuel (fuel : nat) (n : Z) (acc : string) : string :=
  match fuel with
  | O => acc
  | S f => let acc' := String (ascii_of_nat (48 + Z.to_nat (n mod 10))) acc in
           if n / 10 =? 0 then acc' else digits_fuel f (n / 10) acc'
  end.
Definition py_digits (n : Z) : string := digits_fuel (S (Z.to_nat (Z.log2 n))) n EmptyString.

Fixpoint zeros (n : nat) : string := match n with O => EmptyString | S k => String "0"%char (zeros k) end.
Definition pad_left (width : nat) (s : string) : string := (zeros (width - String.length s) ++ s)%string.

(* round-half-even of a rational to an int: the rounding of the 'f' presentation type.  THE ROUNDING
   PRIMITIVE of labels.  (binary64: the float nearest to a non-dyadic rational that lies exactly
   half-way between two decimals is not half-way itself; the harness accepts both neighbours there) *)
Definition round_half_even (x : Q) : Z :=
  let a := Qnum x in let b := Zpos (Qden x) in
  let fl := a / b in let r := a mod b in
  match Z.compare (2 * r) b with
  | Lt => fl
  | Gt => fl + 1
  | Eq => if Z.even fl then fl else fl + 1
  end.

(* is x exactly half-way between two ints *)
Definition round_is_tie (x : Q) : bool := (2 * (Qnum x mod Zpos (Qden x)) =? Zpos (Qden x)).

(* the text of a fixed-point number whose digits (scaled by 10^places) are the int n *)
Definition fixed_string (nonneg : bool) (n places : Z) : string :=
  let scale := 10 ^ places in
  let sign := if nonneg then EmptyString else "-"%string in
  let ip := py_digits (n / scale) in
  if places =? 0 then (sign ++ ip)%string
  else (sign ++ ip ++ "." ++ pad_left (Z.to_nat places) (py_digits (n mod scale)))%string.

(* "{:.{places}f}".format(x, places=p): fixed point, p >= 0 digits after the point (none and no point
   for p = 0), a minus sign for negative x; a negative precision raises ValueError *)
Definition py_format_fixed (x : Q) (places : Z) : res string :=
  if places <? 0 then Err ValueErr
  else Ok (fixed_string (Qle_bool 0 x) (round_half_even (Qabs x * inject_Z (10 ^ places))%Q) places).

(* a node label written by the summarizer: the formatted string, or whatever the user's
   support_label_compose_fn returns for that frequency (opaque) *)
Inductive dlabel := LStr (s : string) | LComposed (freq : Q).
Definition py_label_format (x : Q) (places : Z) : res dlabel :=
  match py_format_fixed x places with Ok s => Ok (LStr s) | Err e => Err e | OutOfFuel => OutOfFuel end.
Definition py_label_compose (f : unit) (x : Q) : res dlabel := Ok (LComposed x).

(* ------------------------------------------------------------------------------------------ *)
(* string-keyed dicts / attribute tables (insertion ordered; assignment to an existing key keeps its
   position) *)
Fixpoint sget {V} (k : string) (l : list (string * V)) : option V :=
  match l with
  | [] => None
  | (k', v) :: r => if String.eqb k k' then Some v else sget k r
  end.
Fixpoint sset {V} (k : string) (v : V) (l : list (string * V)) : list (string * V) :=
  match l with
  | [] => [(k, v)]
  | (k', v') :: r => if String.eqb k k' then (k', v) :: r else (k', v') :: sset k v r
  end.
(* d.get(k, dflt) *)
Definition py_sdict_get {V} (d : list (string * V)) (k : string) (dflt : V) : V :=
  match sget k d with Some v => v | None => dflt end.

(* ------------------------------------------------------------------------------------------ *)
(* the summarizer object.  d_dyn: the attributes assigned by setattr(self, "<fieldname>_attr_name" ..)
   etc. in configure's loop *)
Inductive dynv := DvStr (s : string) | DvBool (b : bool).

Record dopts := mkDopts {
  d_set_edge_lengths : elmode;
  d_add_support_as_node_attribute : bool;
  d_add_support_as_node_annotation : bool;
  d_set_support_as_node_label : option bool;
  d_add_node_age_summaries_as_node_attributes : bool;
  d_add_node_age_summaries_as_node_annotations : bool;
  d_add_edge_length_summaries_as_edge_attributes : bool;
  d_add_edge_length_summaries_as_edge_annotations : bool;
  d_support_label_decimals : Z;
  d_support_as_percentages : bool;
  d_support_label_compose_fn : option unit;
  d_primary_fieldnames : list string;
  d_summary_stats_fieldnames : list string;
  d_no_data_values : list (string * dval);
  d_node_age_summaries_fieldnames : list string;
  d_edge_length_summaries_fieldnames : list string;
  d_fieldnames : list string;
  d_dyn : list (string * dynv);
  d_minimum_edge_length : option Q;
  d_error_on_negative_edge_lengths : bool
}.

(* **kwargs of configure: None = keyword absent.  kw_dyn: the "<fieldname>_attr_name" /
   "<fieldname>_annotation_name" / "is_<fieldname>_annotation_dynamic" keywords *)
Record skw := mkSkw {
  kw_set_edge_lengths : option elmode;
  kw_add_support_as_node_attribute : option bool;
  kw_add_support_as_node_annotation : option bool;
  kw_set_support_as_node_label : option (option bool);
  kw_add_node_age_summaries_as_node_attributes : option bool;
  kw_add_node_age_summaries_as_node_annotations : option bool;
  kw_add_edge_length_summaries_as_edge_attributes : option bool;
  kw_add_edge_length_summaries_as_edge_annotations : option bool;
  kw_support_label_decimals : option Z;
  kw_support_as_percentages : option bool;
  kw_support_label_compose_fn : option (option unit);
  kw_minimum_edge_length : option (option Q);
  kw_error_on_negative_edge_lengths : option bool;
  kw_dyn : list (string * dynv)
}.
Definition skw_empty : skw := mkSkw None None None None None None None None None None None None None [].

(* kwargs.pop(key, default) for a declared keyword; for a computed key *)
Definition py_kwpop {A} (v : option A) (dflt : A) : A := match v with Some x => x | None => dflt end.
Definition py_kwpop_dyn (kw : skw) (key : string) (dflt : dynv) : dynv := py_sdict_get (kw_dyn kw) key dflt.
(* setattr(self, name, v) / getattr(self, name) on those attributes; a missing attribute raises
   AttributeError; the value is used as a string (attribute / annotation name) or for its truth *)
Definition py_setattr_dyn (dyn : list (string * dynv)) (name : string) (v : dynv) := sset name v dyn.
Definition py_getattr_str (self : dopts) (name : string) : res string :=
  match sget name (d_dyn self) with
  | Some (DvStr s) => Ok s
  | Some (DvBool _) => Err TypeErr         (* setattr(target, True, ..): attribute name must be string *)
  | None => Err AttrErr
  end.
Definition py_getattr_truth (self : dopts) (name : string) : res bool :=
  match sget name (d_dyn self) with
  | Some (DvBool b) => Ok b
  | Some (DvStr s) => Ok (negb (String.eqb s EmptyString))
  | None => Err AttrErr
  end.

(* the projection onto the options read by the other view (Gen/SplitDist.v) *)
Definition d_sopts (o : dopts) : sopts :=
  mkOpts (d_set_edge_lengths o) (d_support_as_percentages o) (d_minimum_edge_length o)
         (d_error_on_negative_edge_lengths o).

(* ------------------------------------------------------------------------------------------ *)
(* a decorated object (node or edge): its instance attributes written by setattr, its annotations.
   an_bound = Some a: add_bound_attribute(attr_name=a) (value read from the attribute when used);
   an_value: add_new(value=..) *)
Record annot := mkAnn { an_name : string; an_bound : option string; an_value : option dval }.
Record deco := mkDeco { dc_attrs : list (string * dval); dc_annots : list annot }.
Definition deco_empty : deco := mkDeco [] [].

(* setattr(target, name, value) *)
Definition py_setattr (t : deco) (name : string) (v : dval) : deco := mkDeco (sset name v (dc_attrs t)) (dc_annots t).
(* target.annotations.drop(name=n): every annotation of that name is removed *)
Definition py_annotations_drop (t : deco) (n : string) : deco :=
  mkDeco (dc_attrs t) (filter (fun a => negb (String.eqb (an_name a) n)) (dc_annots t)).
(* target.annotations.add_bound_attribute(attr_name=a, annotation_name=n) *)
Definition py_add_bound_attribute (t : deco) (a n : string) : deco :=
  mkDeco (dc_attrs t) (dc_annots t ++ [mkAnn n (Some a) None]).
(* target.annotations.add_new(name=n, value=v) *)
Definition py_add_new (t : deco) (n : string) (v : dval) : deco :=
  mkDeco (dc_attrs t) (dc_annots t ++ [mkAnn n None (Some v)]).

(* a node of the target tree as the decoration statements see it: the split bitmask of its edge's
   bipartition (as encoded), the node object, its edge object, node.label.  `for node in tree`
   visits the nodes in preorder: the tree is given as that list *)
Record dnode := mkDn { dn_split : Z; dn_node : deco; dn_edge : deco; dn_label : option dlabel }.
Definition py_dtree_nodes (t : list dnode) : list dnode := t.
Definition py_dn_split (n : dnode) : Z := dn_split n.
Definition py_dn_set_node (n : dnode) (d : deco) : dnode := mkDn (dn_split n) d (dn_edge n) (dn_label n).
Definition py_dn_set_edge (n : dnode) (d : deco) : dnode := mkDn (dn_split n) (dn_node n) d (dn_label n).
Definition py_dn_set_label (n : dnode) (l : dlabel) : dnode := mkDn (dn_split n) (dn_node n) (dn_edge n) (Some l).

(* zip(a, b) *)
Definition py_zip {A B} (a : list A) (b : list B) : list (A * B) := zip a b.

(* summaries[k].get(field, dflt) where summaries[k] is the dict statistics.summarize returned
   (every key present, possibly holding None) *)
Definition py_gs_get (g : gsummary) (field : string) (dflt : dval) : dval :=
  if String.eqb field "mean" then match gs_mean g with Some q => DFloat q | None => DNone end
  else if String.eqb field "median" then match gs_median g with Some q => DFloat q | None => DNone end
  else if String.eqb field "sd" then match gs_var g with Some v => DSqrt v | None => DNone end
  else if String.eqb field "range" then match gs_range g with Some (a, b) => DPair a b | None => DNone end
  else if String.eqb field "hpd95" then DOpaque field
  else if String.eqb field "quant_5_95" then DOpaque field
  else if String.eqb field "var" then match gs_var g with Some (Some v) => DFloat v | Some None => DSqrt None | None => DNone end
  else dflt.
(* summaries[k].get(field, dflt) through "None or dict"; k known to be present (guarded by `k in ..`) *)
Definition py_summ_get (o : option (list (Z * gsummary))) (k : Z) (field : string) (dflt : dval) : res dval :=
  match o with
  | Some d => match aget k d with Some g => Ok (py_gs_get g field dflt) | None => Err KeyErr end
  | None => Err TypeErr
  end.
