(* C15, object level: several trees in one process.

   A world is a store (Model/C15WorldPrims.v) of node records and LIST OBJECTS plus the seed nodes
   of the live trees and the list objects the caller holds.  The steps of a history are the public
   routes of the harness py/dv/c15_world.py; what they do to the store is the GENERATED object-level
   code of Gen/TraversalsObj.v (child_nodes, clear_child_nodes, add_child, set_child_nodes, the
   managed parent_node setter, the seed_node setter), so "which list object is copied / mutated in
   place" is read off the source.  The traversal machines of Gen/Traversals.v run on the object graph
   WG s that the store denotes; after every step every probe the harness observed on the real
   library must be what the machines compute on the store. *)
From Coq Require Import ZArith List Bool Arith.
From DV Require Import Model.PyPrims Model.Tree Model.C15Prims Model.C15WorldPrims
     Gen.Traversals Gen.TraversalsObj Model.C15Model.
Import ListNotations.
Open Scope Z_scope.

(* ---- caller-side operations ---- *)
(* Node(): a new node with its own, new, empty child list and no parent *)
Definition new_node (x : Z) : M unit :=
  fun s => match node_of s x with
           | Some _ => Err OtherErr
           | None => Ok (tt, mkS (s_nodes s ++ [(x, mkN (s_next s) None)]) (s_lists s ++ [(s_next s, [])])
                                 (s_next s + 1) (s_trees s) (s_held s))
           end.

Definition hold (l : Z) : M unit :=
  fun s => Ok (tt, mkS (s_nodes s) (s_lists s) (s_next s) (s_trees s) (s_held s ++ [l])).

(* edits of a list the caller got from child_nodes() *)
Inductive edit : Type :=
| EAppend (x : Z) | EInsert (i : nat) (x : Z) | EPop (i : nat) | EReverse | EClear.

Definition apply_edit (l : Z) (e : edit) : M unit :=
  match e with
  | EAppend x => mbind (new_node x) (fun _ => l_append l x)
  | EInsert i x => mbind (new_node x) (fun _ => mbind (l_contents l) (fun c => l_put l (firstn i c ++ x :: skipn i c)))
  | EPop i => mbind (l_contents l) (fun c => l_put l (firstn i c ++ skipn (S i) c))
  | EReverse => mbind (l_contents l) (fun c => l_put l (rev c))
  | EClear => l_clear l
  end.

Fixpoint apply_edits (l : Z) (es : list edit) : M unit :=
  match es with
  | [] => ret tt
  | e :: r => mbind (apply_edit l e) (fun _ => apply_edits l r)
  end.

(* Node.remove_child(node) with suppress_unifurcations=False (transcribed by hand):
   if node in children: node._parent_node = None; node.edge.tail_node = None (= node.parent_node = None);
   children.remove(node)   else: raise ValueError *)
Definition remove_child (p node : Z) : M unit :=
  mbind (o_child_list p) (fun children =>
  mbind (l_mem children node) (fun b =>
  if b then
    mbind (o_set_parent node None) (fun _ =>
    mbind (Node_set_parent_node_obj node None) (fun _ =>
    l_remove children node))
  else raise ValueErr)).

(* the harness builds a tree top down: ch = Node(); parent.add_child(ch); recurse *)
Fixpoint build (t : tree) : M unit :=
  match t with
  | T i _ _ _ ks =>
    (fix go (ks : list tree) : M unit :=
       match ks with
       | [] => ret tt
       | k :: r => mbind (new_node (t_id k)) (fun _ =>
                   mbind (Node_add_child_obj i (t_id k)) (fun _ =>
                   mbind (build k) (fun _ => go r)))
       end) ks
  end.

Definition n_trees (s : store) : Z := Z.of_nat (length (s_trees s)).

Definition new_tree (t : tree) : M unit :=
  mbind (new_node (t_id t)) (fun _ =>
  mbind (fun s => Tree_set_seed_node_obj (n_trees s) (Some (t_id t)) s) (fun _ =>
  build t)).

(* wave 8: calls the API must REFUSE with a documented error, which the caller catches:
     RRemoveChild p n   p.remove_child(n) with n not among p's children   -> ValueError
     RAddChild p n      p.add_child(n) with n = p or n = p's parent       -> AssertionError
   In both methods every statement before the raise only READS (the membership test / the two asserts come
   first), so the store left behind is the store before the call: in the monad M a raise yields no store, and
   the history goes on with the store the call started from (steps_ok below).  The pointer-level account of
   "the state an exception leaves behind" is C03's heap model (Model/Heap.v, hres carries the heap at the raise),
   tied to Node.remove_child statement by statement by py/dv/gen_mutators.py. *)
Inductive refused_kind : Type := RRemoveChild | RAddChild.

Definition refused_err (k : refused_kind) : err :=
  match k with RRemoveChild => ValueErr | RAddChild => AssertErr end.

Inductive step : Type :=
| SKids (n : Z) (es : list edit) (put_back : bool)    (* kids = n.child_nodes(); edits; n.set_child_nodes(kids) | keep *)
| STreeFromSeed (n : Z)                               (* Tree(seed_node=n) *)
| SAssignSeed (t : Z) (n : Z)                         (* tree t .seed_node = n *)
| SReparent (n p : Z)                                 (* n.parent_node = p *)
| SNewChild (n x : Z)                                 (* x = n.new_child() *)
| SRemoveChild (n : Z)                                (* n.parent_node.remove_child(n) *)
| SNewTree (t : tree)
| SRefused (k : refused_kind) (p n : Z).              (* try: p.remove_child(n) / p.add_child(n)  except: pass *)

Definition do_refused (k : refused_kind) (p n : Z) : M unit :=
  match k with
  | RRemoveChild => remove_child p n
  | RAddChild => mbind (Node_add_child_obj p n) (fun _ => ret tt)
  end.

Definition do_step (st : step) : M unit :=
  match st with
  | SKids n es pb =>
    mbind (Node_child_nodes_obj n) (fun l =>
    mbind (apply_edits l es) (fun _ =>
    if pb then Node_set_child_nodes_obj n l else hold l))
  | STreeFromSeed n => fun s => Tree_set_seed_node_obj (n_trees s) (Some n) s
  | SAssignSeed t n => Tree_set_seed_node_obj t (Some n)
  | SReparent n p => Node_set_parent_node_obj n (Some p)
  | SNewChild n x => mbind (new_node x) (fun _ => mbind (Node_add_child_obj n x) (fun _ => ret tt))
  | SRemoveChild n =>
    mbind (o_get_parent n) (fun p => match p with Some q => remove_child q n | None => raise AttrErr end)
  | SNewTree t => new_tree t
  | SRefused k p n => do_refused k p n
  end.

Definition empty_store : store := mkS [] [] 0 [] [].

Fixpoint build_world (ts : list tree) : M unit :=
  match ts with
  | [] => ret tt
  | t :: r => mbind (new_tree t) (fun _ => build_world r)
  end.

(* ---- the object graph a store denotes ---- *)
Definition kids_of (s : store) (x : Z) : list Z :=
  match node_of s x with
  | Some r => match list_of s (n_kids r) with Some c => c | None => [] end
  | None => []
  end.

Definition parent_of (s : store) (x : Z) : option Z :=
  match node_of s x with Some r => n_parent r | None => None end.

Definition age_of (x : Z) : Z := (x * 7 + 3) mod 5.

Definition WG (s : store) : objgraph :=
  {| gnode := Z; gedge := Z;
     attr_child_nodes := kids_of s; attr_parent_node := parent_of s;
     attr_edge := fun x => x; attr_head_node := fun e => e;
     attr_age := age_of; obj_is := Z.eqb |}.

(* ---- running one iterator kind on an object graph ---- *)
Definition kind_run (G : objgraph) (key : gnode G -> Z) (ekey : gedge G -> Z) (fuel : nat)
           (ff : option (gnode G -> bool)) (fe : option (gedge G -> bool)) (s : gnode G) (k : kind)
  : option (list Z * option err) :=
  let cb (present : bool) (tag : Z) : option (gnode G -> Z) :=
      if present then Some (fun n => 3 * key n + tag) else None in
  let N (g : gres (gnode G)) := gres_ids key g in
  let E (g : gres (gedge G)) := gres_ids ekey g in
  let Z_ (g : gres Z) := gres_ids (fun z => z) g in
  match k with
  | KN_preorder_iter => N (Node_preorder_iter G fuel ff s)
  | KN_preorder_internal x => N (Node_preorder_internal_node_iter G fuel ff x s)
  | KN_postorder_iter => N (Node_postorder_iter G fuel ff s)
  | KN_postorder_internal x => N (Node_postorder_internal_node_iter G fuel ff x s)
  | KN_levelorder_iter => N (Node_levelorder_iter G fuel ff s)
  | KN_level_order_iter => N (Node_level_order_iter G fuel ff s)
  | KN_inorder_iter => N (Node_inorder_iter G fuel ff s)
  | KN_leaf_iter => N (Node_leaf_iter G fuel ff s)
  | KN_child_node_iter => N (Node_child_node_iter G fuel ff s)
  | KN_child_edge_iter => E (Node_child_edge_iter G fuel fe s)
  | KN_ancestor_iter i => N (Node_ancestor_iter G fuel ff i s)
  | KN_ageorder_iter il d => N (Node_ageorder_iter G fuel ff il d s)
  | KN_age_order_iter il d => N (Node_age_order_iter G fuel il ff d s)
  | KN_apply b a l => Z_ (Node_apply G fuel (cb b 0) (cb a 2) (cb l 1) s)
  | KN_iter => N (Node_dunder_iter G fuel ff s)
  | KN_leaf_nodes => N (Node_leaf_nodes G fuel s)
  | KT_preorder_node_iter => N (Tree_preorder_node_iter G fuel ff s)
  | KT_preorder_internal_node_iter x => N (Tree_preorder_internal_node_iter G fuel ff x s)
  | KT_postorder_node_iter => N (Tree_postorder_node_iter G fuel ff s)
  | KT_postorder_internal_node_iter x => N (Tree_postorder_internal_node_iter G fuel ff x s)
  | KT_levelorder_node_iter => N (Tree_levelorder_node_iter G fuel ff s)
  | KT_level_order_node_iter => N (Tree_level_order_node_iter G fuel ff s)
  | KT_inorder_node_iter => N (Tree_inorder_node_iter G fuel ff s)
  | KT_leaf_node_iter => N (Tree_leaf_node_iter G fuel ff s)
  | KT_leaf_iter => N (Tree_leaf_iter G fuel ff s)
  | KT_ageorder_node_iter il d => N (Tree_ageorder_node_iter G fuel il ff d s)
  | KT_age_order_node_iter il d => N (Tree_age_order_node_iter G fuel il ff d s)
  | KT_apply b a l => Z_ (Tree_apply G fuel (cb b 0) (cb a 2) (cb l 1) s)
  | KT_preorder_edge_iter => E (Tree_preorder_edge_iter G fuel fe s)
  | KT_preorder_internal_edge_iter x => E (Tree_preorder_internal_edge_iter G fuel fe x s)
  | KT_postorder_edge_iter => E (Tree_postorder_edge_iter G fuel fe s)
  | KT_postorder_internal_edge_iter x => E (Tree_postorder_internal_edge_iter G fuel fe x s)
  | KT_levelorder_edge_iter => E (Tree_levelorder_edge_iter G fuel fe s)
  | KT_level_order_edge_iter => E (Tree_level_order_edge_iter G fuel fe s)
  | KT_inorder_edge_iter => E (Tree_inorder_edge_iter G fuel fe s)
  | KT_leaf_edge_iter => E (Tree_leaf_edge_iter G fuel fe s)
  | KT_nodes => N (Tree_nodes G fuel ff s)
  | KT_leaf_nodes => N (Tree_leaf_nodes G fuel s)
  | KT_internal_nodes x => N (Tree_internal_nodes G fuel x s)
  | KT_edges => E (Tree_edges G fuel fe s)
  | KT_leaf_edges => E (Tree_leaf_edges G fuel s)
  | KT_internal_edges x => E (Tree_internal_edges G fuel x s)
  | KT_iter => N (Tree_dunder_iter G fuel s)
  | KT_len =>
    match Tree_dunder_len G fuel s with
    | Ok z => Some ([z], None)
    | Err e => Some ([], Some e)
    | OutOfFuel => None
    end
  end.

(* ---- correspondence cases ---- *)
Record probe : Type := mkProbe {
  p_start : Z;                    (* Node-level kinds: the start node; Tree-level kinds: ignored (the tree's seed) *)
  p_kind : kind;
  p_filter : option (list Z);
  p_out : list Z;
  p_err : option err
}.

Record hrec : Type := mkRec {
  r_trees : list (list probe);    (* per live tree *)
  r_held : list (list Z);         (* contents of the lists the caller holds *)
  r_noalias : bool                (* observed: no two of the list objects involved are one object *)
}.

Record hcase : Type := mkH {
  h_init : list tree;
  h_steps : list step;
  h_obs : list hrec               (* after the initial build and after every step *)
}.

Definition kind_is_tree_level (k : kind) : bool :=
  match k with
  | KN_preorder_iter | KN_preorder_internal _ | KN_postorder_iter | KN_postorder_internal _
  | KN_levelorder_iter | KN_level_order_iter | KN_inorder_iter | KN_leaf_iter | KN_child_node_iter
  | KN_child_edge_iter | KN_ancestor_iter _ | KN_ageorder_iter _ _ | KN_age_order_iter _ _
  | KN_apply _ _ _ | KN_iter | KN_leaf_nodes => false
  | _ => true
  end.

Definition store_fuel (s : store) : nat := (2 * length (s_nodes s) + 4)%nat.

Definition probe_run (s : store) (seed : Z) (p : probe) : option (list Z * option err) :=
  let ff : option (Z -> bool) :=
      match p_filter p with None => None | Some ids => Some (fun n => memZ n ids) end in
  let start := if kind_is_tree_level (p_kind p) then seed else p_start p in
  kind_run (WG s) (fun n => n) (fun e => e) (store_fuel s) ff ff start (p_kind p).

Definition probe_ok (s : store) (seed : Z) (p : probe) : bool :=
  match probe_run s seed p with
  | Some (ids, e) => list_eqb Z.eqb ids (p_out p) && option_eqb err_eqb e (p_err p)
  | None => false
  end.

Fixpoint nodup_b (l : list Z) : bool :=
  match l with
  | [] => true
  | x :: r => negb (memZ x r) && nodup_b r
  end.

(* no list object is the child list of two nodes or both a child list and a list the caller holds *)
Definition sep_b (s : store) : bool := nodup_b (map (fun nr => n_kids (snd nr)) (s_nodes s) ++ s_held s).

Definition held_contents (s : store) : list (list Z) :=
  map (fun l => match list_of s l with Some c => c | None => [] end) (s_held s).

Fixpoint forall2b {A B} (f : A -> B -> bool) (l1 : list A) (l2 : list B) : bool :=
  match l1, l2 with
  | [], [] => true
  | a :: r1, b :: r2 => f a b && forall2b f r1 r2
  | _, _ => false
  end.

Definition rec_ok (s : store) (r : hrec) : bool :=
  forall2b (fun seed ps => forallb (probe_ok s seed) ps) (s_trees s) (r_trees r)
  && list_eqb (list_eqb Z.eqb) (held_contents s) (r_held r)
  && Bool.eqb (sep_b s) (r_noalias r).

Fixpoint steps_ok (s : store) (sts : list step) (obs : list hrec) : bool :=
  match sts, obs with
  | [], [] => true
  | st :: sr, r :: rr =>
    match st, do_step st s with
    | SRefused _ _ _, Ok _ => false                                  (* the call must be refused *)
    | SRefused k _ _, Err e => err_eqb e (refused_err k) && rec_ok s r && steps_ok s sr rr
    | _, Ok (_, s') => rec_ok s' r && steps_ok s' sr rr
    | _, _ => false
    end
  | _, _ => false
  end.

Definition hcase_ok (c : hcase) : bool :=
  match build_world (h_init c) empty_store, h_obs c with
  | Ok (_, s0), r0 :: rr => rec_ok s0 r0 && steps_ok s0 (h_steps c) rr
  | _, _ => false
  end.

(* for show_fn: what the model computes for the first probe that differs *)
Definition hcase_show (c : hcase) : option (nat * store) :=
  match build_world (h_init c) empty_store with
  | Ok (_, s0) =>
    (fix go (i : nat) (s : store) (sts : list step) : option (nat * store) :=
       match sts with
       | [] => Some (i, s)
       | st :: sr => match st, do_step st s with
                     | SRefused _ _ _, Err _ => go (S i) s sr
                     | _, Ok (_, s') => go (S i) s' sr
                     | _, _ => Some (i, s)
                     end
       end) O s0 (h_steps c)
  | _ => None
  end.
