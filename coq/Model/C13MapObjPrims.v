(* C13 (wave 7): OBJECT-LEVEL run-time library of Gen/RoutesMapperObj.v (py/dv/gen_routes_mapper_obj.py).

   Model/C13MapPrims.v treats a NexusTaxonSymbolMapper as a VALUE (record mobj holding the contents of its four
   tables).  In the library a mapper OBJECT holds REFERENCES to four mutable containers
       token_taxon_map  label_taxon_map  number_taxon_map        (str -> Taxon)
       number_taxon_label_map                                    (str -> str)
   and several readers can be alive at once (a suspended Tree.yield_from_files iterator keeps its mapper while other
   reads construct theirs).  Here: a store of container objects (identity -> contents) and mapper objects whose
   table attributes hold container identities (the approach of Model/C19RowHeap.v / Model/C14ObjPrims.v).

   WHICH container a statement touches is decided by the translator from the source:
       self.a = {} / container.CaseInsensitiveDict(..)      a NEW container object, the INSTANCE attribute rebound
       self.a[k] = v ; self.a.clear() ; self.a[k]            in place on / a read of the container `self.a` resolves to:
                                                             the instance's own one when __init__ binds the attribute
                                                             before any use, else - when the CLASS BODY binds the name -
                                                             the one container object of the class, shared by every
                                                             instance (mcls), else AttributeError (fail closed)
   The store is a pair of total functions (identity -> contents; the empty dict where nothing was allocated) and the
   next fresh identity; allocation and in-place update are function updates, so a read after a write is decided by
   comparing identities. *)
From Coq Require Import ZArith List Bool Arith.
From DV Require Import Model.PyPrims Model.C13Model Model.C13MapPrims.
Import ListNotations.

Record world : Type := mkW {
  w_n : nat -> pdict nat;       (* containers str -> Taxon *)
  w_s : nat -> pdict str;       (* containers str -> str *)
  w_next : nat                  (* next fresh container identity *)
}.
Definition world_empty : world := mkW (fun _ => []) (fun _ => []) O.

Definition wn_get (w : world) (c : nat) : pdict nat := w_n w c.
Definition ws_get (w : world) (c : nat) : pdict str := w_s w c.
(* an in-place operation on container c leaves it holding d *)
Definition wn_put (w : world) (c : nat) (d : pdict nat) : world :=
  mkW (fun x => if Nat.eqb x c then d else w_n w x) (w_s w) (w_next w).
Definition ws_put (w : world) (c : nat) (d : pdict str) : world :=
  mkW (w_n w) (fun x => if Nat.eqb x c then d else w_s w x) (w_next w).
(* evaluation of {} / CaseInsensitiveDict(..): a NEW container object holding d *)
Definition wn_alloc (w : world) (d : pdict nat) : world * nat :=
  (mkW (fun x => if Nat.eqb x (w_next w) then d else w_n w x) (w_s w) (S (w_next w)), w_next w).
Definition ws_alloc (w : world) (d : pdict str) : world * nat :=
  (mkW (w_n w) (fun x => if Nat.eqb x (w_next w) then d else w_s w x) (S (w_next w)), w_next w).

(* a mapper object: scalars as in mobj, the four tables by container identity *)
Record mref : Type := mkMref {
  mr_ns : option nsobj;
  mr_orig : option bool;
  mr_token : nat;
  mr_label : nat;
  mr_number : nat;
  mr_number_label : nat;
  mr_by_number : bool
}.
(* the container objects bound in the CLASS BODY (one each, shared by all instances); a name the class body does not
   bind is never dereferenced by generated code *)
Record mcls : Type := mkMcls { cl_token : nat; cl_label : nat; cl_number : nat; cl_number_label : nat }.

Definition set_mr_ns (o : mref) (v : option nsobj) : mref :=
  mkMref v (mr_orig o) (mr_token o) (mr_label o) (mr_number o) (mr_number_label o) (mr_by_number o).
Definition set_mr_orig (o : mref) (v : option bool) : mref :=
  mkMref (mr_ns o) v (mr_token o) (mr_label o) (mr_number o) (mr_number_label o) (mr_by_number o).
Definition set_mr_token (o : mref) (v : nat) : mref :=
  mkMref (mr_ns o) (mr_orig o) v (mr_label o) (mr_number o) (mr_number_label o) (mr_by_number o).
Definition set_mr_label (o : mref) (v : nat) : mref :=
  mkMref (mr_ns o) (mr_orig o) (mr_token o) v (mr_number o) (mr_number_label o) (mr_by_number o).
Definition set_mr_number (o : mref) (v : nat) : mref :=
  mkMref (mr_ns o) (mr_orig o) (mr_token o) (mr_label o) v (mr_number_label o) (mr_by_number o).
Definition set_mr_number_label (o : mref) (v : nat) : mref :=
  mkMref (mr_ns o) (mr_orig o) (mr_token o) (mr_label o) (mr_number o) v (mr_by_number o).
Definition set_mr_by_number (o : mref) (v : bool) : mref :=
  mkMref (mr_ns o) (mr_orig o) (mr_token o) (mr_label o) (mr_number o) (mr_number_label o) v.

Definition mr_nso (o : mref) : nsobj := match mr_ns o with Some n => n | None => ([], false) end.
Definition mr_set_mutable (o : mref) (b : option bool) : mref :=
  set_mr_ns o (Some (nso_taxa (mr_nso o), match b with Some x => x | None => false end)).

(* the value an object stands for: its tables dereferenced *)
Definition deref (w : world) (o : mref) : mobj :=
  mkMobj (mr_ns o) (mr_orig o) (wn_get w (mr_token o)) (wn_get w (mr_label o)) (wn_get w (mr_number o))
         (ws_get w (mr_number_label o)) (mr_by_number o).
(* the container identities an object holds *)
Definition refs (o : mref) : list nat := [mr_token o; mr_label o; mr_number o; mr_number_label o].
