(* C09: the correspondence cases (what py/dv/c09.py sends to the model) and `case_ok`. *)
From Coq Require Import ZArith List Bool.
From DV Require Import Model.PyPrims Model.C09AlphaTypes Model.C09Alphabets Model.C09Model Model.C09Nexus Model.C09Dataset.
Import ListNotations.
Open Scope Z_scope.

(* str.lower on the labels of a case: the table lists the labels on which it differs from ASCII
   lower-casing *)
Definition lower_of (tab : list (text * text)) (l : text) : text :=
  (fix go (t : list (text * text)) : text :=
     match t with
     | [] => map ascii_lower l
     | (k, v) :: r => if text_eqb k l then v else go r
     end) tab.

Definition row_eqb (r s : text * list Z) : bool :=
  text_eqb (fst r) (fst s) && list_eqb Z.eqb (snd r) (snd s).
Definition matrix_eqb (x y : matrix) : bool := list_eqb row_eqb x y.

Definition toks_eqb (x y : list tok) : bool := list_eqb text_eqb x y.

(* what the harness observes of a NEXUS block read: data type, rows, the namespace afterwards,
   the symbol-less states the reader created (index, kind, member indices), TITLE and LINK *)
Record nx_obs := mkNO {
  no_dtype : dtype;
  no_rows : matrix;
  no_ns : list text;
  no_fresh : list (Z * list Z);
  no_title : option tok;
  no_link : option tok
}.

(* the symbol-less states, ambiguous ones (1000+k) before polymorphic ones (2000+k), each group in
   creation order: the relative creation order between the two groups is not observable *)
Definition fresh_of (a : alphabet) : list (Z * list Z) :=
  map (fun s => (s_index s, s_members s))
      (filter (fun s => (1000 <=? s_index s) && (s_index s <? 2000)) (a_states a)
       ++ filter (fun s => 2000 <=? s_index s) (a_states a)).

Definition nx_obs_eqb (b : block_result) (o : nx_obs) : bool :=
  dtype_eqb (br_dtype b) (no_dtype o)
  && matrix_eqb (br_rows b) (no_rows o)
  && list_eqb text_eqb (br_ns b) (no_ns o)
  && list_eqb (fun x y => Z.eqb (fst x) (fst y) && list_eqb Z.eqb (snd x) (snd y)) (fresh_of (br_alpha b)) (no_fresh o)
  && option_eqb text_eqb (br_title b) (no_title o)
  && option_eqb text_eqb (br_link b) (no_link o).

Fixpoint forall2b {A B} (f : A -> B -> bool) (x : list A) (y : list B) : bool :=
  match x, y with
  | [], [] => true
  | a :: x', b :: y' => f a b && forall2b f x' y'
  | _, _ => false
  end.

Definition obs_of_block (b : block_result) : nx_obs :=
  mkNO (br_dtype b) (br_rows b) (br_ns b) (fresh_of (br_alpha b)) (br_title b) (br_link b).

Inductive case :=
(* the text a writer produces for a matrix *)
| FastaWrite (a : alphabet) (wrap : bool) (width : Z) (m : matrix) (expect : text)
| PhylipWrite (a : alphabet) (o : phy_wopts) (m : matrix) (expect : res text)
(* what a reader delivers for a text *)
| FastaRead (lowtab : list (text * text)) (a : alphabet) (t : text) (expect : res matrix)
| PhylipRead (lowtab : list (text * text)) (a : alphabet) (o : phy_ropts) (t : text) (expect : res matrix)
(* NEXUS, token level *)
| NexusWrite (dt : dtype) (al : list alphabet) (sym_order : list text) (o : nx_wopts) (m : matrix)
             (expect : res (list tok))
| NexusRead (lowtab : list (text * text)) (st : nx_state) (toks : list tok) (expect : res (list nx_obs))
(* one CHARACTERS block of a document with several TAXA blocks: `tab` is the reader's namespace table *)
| NexusReadIn (lowtab : list (text * text)) (tab : ns_table) (st : nx_state) (toks : list tok)
              (expect : res (list nx_obs))
(* the TITLEs NexusWriter hands out to the blocks of a data set, in the order they are asked for;
   `esctab` lists escape_nexus_token on the candidate titles (identity elsewhere); `ci`: the source
   compares titles after .upper() (probed in the source by the harness) *)
| TitleAssign (ci : bool) (esctab : list (text * text)) (labels : list text) (expect : res (list text)).

Definition case_run_text (c : case) : res text :=
  match c with
  | FastaWrite a wrap width m _ => Ok (write_fasta a wrap width m)
  | PhylipWrite a o m _ => write_phylip (symbols_as_string a) o m
  | _ => Err OtherErr
  end.

Definition case_run_matrix (c : case) : res matrix :=
  match c with
  | FastaRead lt a t _ => read_fasta (lower_of lt) a t
  | PhylipRead lt a o t _ => read_phylip (lower_of lt) Z (phylip_states a) o t
  | _ => Err OtherErr
  end.

Definition case_run_tokens (c : case) : res (list tok) :=
  match c with
  | NexusWrite dt al so o m _ => write_chars_block dt al so o m
  | _ => Err OtherErr
  end.

Definition case_run_blocks (c : case) : res (list block_result) :=
  match c with
  | NexusRead lt st toks _ =>
    match read_chars_block (lower_of lt) keep_ns st toks with
    | Ok (_, brs, _) => Ok brs
    | Err e => Err e
    | OutOfFuel => OutOfFuel
    end
  | NexusReadIn lt tab st toks _ =>
    match read_chars_block (lower_of lt) (resolve_in tab) st toks with
    | Ok (_, brs, _) => Ok brs
    | Err e => Err e
    | OutOfFuel => OutOfFuel
    end
  | _ => Err OtherErr
  end.

Definition esc_of (tab : list (text * text)) (l : text) : text :=
  (fix go (t : list (text * text)) : text :=
     match t with
     | [] => l
     | (k, v) :: r => if text_eqb k l then v else go r
     end) tab.

Definition case_run_titles (c : case) : res (list text) :=
  match c with
  | TitleAssign ci et labels _ => assign_titles (esc_of et) (if ci then ucase else fun t => t) labels []
  | _ => Err OtherErr
  end.

Definition case_ok (c : case) : bool :=
  match c with
  | FastaWrite _ _ _ _ e => res_eqb text_eqb (case_run_text c) (Ok e)
  | PhylipWrite _ _ _ e => res_eqb text_eqb (case_run_text c) e
  | FastaRead _ _ _ e | PhylipRead _ _ _ _ e => res_eqb matrix_eqb (case_run_matrix c) e
  | NexusWrite _ _ _ _ _ e => res_eqb toks_eqb (case_run_tokens c) e
  | TitleAssign _ _ _ e => res_eqb toks_eqb (case_run_titles c) e
  | NexusRead _ _ _ e | NexusReadIn _ _ _ _ e =>
    match case_run_blocks c, e with
    | Ok brs, Ok os => forall2b nx_obs_eqb brs os
    | Err x, Err y => err_eqb x y
    | _, _ => false
    end
  end.

(* what the model computes, for the replay files *)
Definition case_show (c : case) :=
  (case_run_text c, case_run_matrix c, case_run_tokens c, case_run_titles c,
   match case_run_blocks c with Ok b => Ok (map obs_of_block b) | Err e => Err e | OutOfFuel => OutOfFuel end).
