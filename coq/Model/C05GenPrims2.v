(* C05: second part of the translator's run-time library (per-tree scores, TreeArray scores,
   frequency_of_bipartition, collapse, summarizer).  Same conventions as C05GenPrims.v. *)
From Coq Require Import ZArith QArith Qabs Qreduction List Bool String.
From DV Require Import Model.PyPrims Gen.BitFns Model.C05Model Model.C05Spec Model.C05Model2 Model.C05GenPrims.
Import ListNotations.
Open Scope Z_scope.

(* ---- strings (option values such as traversal_strategy, set_edge_lengths) *)
Definition py_str_eq (a b : string) : bool := String.eqb a b.

(* ---- a target tree, given as encoded (stree): node iterators as first-class values *)
Inductive iterfn := PreAll | PreInternal | PostAll | PostInternal.
Definition py_tree_iter (f : iterfn) (t : stree) : list stree :=
  match f with
  | PreAll => st_preorder t
  | PreInternal => filter (fun n => negb (st_is_leaf n)) (st_preorder t)     (* seed node included *)
  | PostAll => st_postorder t
  | PostInternal => filter (fun n => negb (st_is_leaf n)) (st_postorder t)
  end.
Definition py_node_split_bitmask (n : stree) : Z := sn_split n.

(* ---- a variable that only ever receives `x = 0.0` and `x += math.log(y)` is represented by
   exp(x): 0.0 -> 1, += math.log(y) -> * y; `<` between such values keeps its direction
   (ROUNDING BOUNDARY: the code adds logarithms of binary64 numbers) *)
Definition py_log_zero : Q := 1%Q.
Definition py_log_add (acc y : Q) : Q := qmult acc y.

(* ---- enumerate(zip(a, b)) *)
Fixpoint py_enum_zip_from {A B} (i : Z) (a : list A) (b : list B) : list (Z * (A * B)) :=
  match a, b with
  | x :: r, y :: s => (i, (x, y)) :: py_enum_zip_from (i + 1) r s
  | _, _ => []
  end.
Definition py_enumerate_zip {A B} (a : list A) (b : list B) := py_enum_zip_from 0 a b.

(* ---- TreeList.frequency_of_bipartition: self is the list of trees, each given by the split
   bitmasks of its encoding and tree.is_unrooted after encode_bipartitions *)
Definition py_ftree_splits (t : fob_tree) : list Z := f_splits t.        (* set(b.split_bitmask for b in ..) *)
Definition py_ftree_is_unrooted (t : fob_tree) : option bool := f_unrooted t.
Definition py_set_has_int (s : list Z) (k : Z) : bool := zmem k s.
(* try: return float(a) / b  except ZeroDivisionError: return 0 *)
Definition py_div_or_zero (a b : Z) : Q := if b =? 0 then 0%Q else qdiv (inject_Z a) (inject_Z b).

(* ---- collapse: structural equality of nodes stands for object identity within one tree; the
   second loop `for nd in to_collapse: nd.edge.collapse(adjust_collapsed_head_children_edge_lengths=True)`
   is the interface operation py_collapse_nodes: every listed non-seed node is replaced by its
   children (lengths adjusted, lift_child); a listed leaf raises ValueError; the seed node is skipped *)
Definition q_same (a b : Q) : bool := (Qnum a =? Qnum b) && (Pos.eqb (Qden a) (Qden b)).
Definition oq_same (a b : option Q) : bool := option_eqb q_same a b.
Fixpoint stree_same (a b : stree) : bool :=
  match a, b with
  | SN s l ks, SN s' l' ks' =>
    (s =? s') && oq_same l l' &&
    (fix go (p q : list stree) : bool :=
       match p, q with
       | [], [] => true
       | x :: r1, y :: r2 => stree_same x y && go r1 r2
       | _, _ => false
       end) ks ks'
  end.

Section CollapseWith.
  Variable pred : stree -> bool.
  Fixpoint collapse_with_below (t : stree) : res (list stree) :=
    match t with
    | SN s l kids =>
      let go := fix go (ks : list stree) : res (list stree) :=
                  match ks with
                  | [] => Ok []
                  | k :: r => match collapse_with_below k, go r with
                              | Ok a, Ok b => Ok (a ++ b)
                              | Err e, _ => Err e
                              | _, Err e => Err e
                              | _, _ => OutOfFuel
                              end
                  end in
      match go kids with
      | Ok kids' =>
        if pred t then
          match kids with
          | [] => Err ValueErr
          | _ => Ok (map (lift_child l) kids')
          end
        else Ok [SN s l kids']
      | Err e => Err e
      | OutOfFuel => OutOfFuel
      end
    end.
  Definition collapse_with_root (t : stree) : res stree :=
    match t with
    | SN s l kids =>
      let go := fix go (ks : list stree) : res (list stree) :=
                  match ks with
                  | [] => Ok []
                  | k :: r => match collapse_with_below k, go r with
                              | Ok a, Ok b => Ok (a ++ b)
                              | Err e, _ => Err e
                              | _, Err e => Err e
                              | _, _ => OutOfFuel
                              end
                  end in
      match go kids with
      | Ok kids' => Ok (SN s l kids')
      | Err e => Err e
      | OutOfFuel => OutOfFuel
      end
    end.
End CollapseWith.

Definition py_collapse_nodes (t : stree) (to_collapse : list stree) : res stree :=
  collapse_with_root (fun n => existsb (stree_same n) to_collapse) t.
Definition py_odict_has {V} (od : option (list (Z * V))) (k : Z) : bool :=
  match od with Some d => py_dict_has d k | None => false end.

(* ---- SplitDistributionSummarizer.summarize_splits_on_tree.  `for node in tree` visits the nodes
   in preorder; the attributes the method writes on a node / its edge are the fields of nodev
   (support, edge.length, age); annotation objects, labels and the length_*/age_* decorations
   are not represented *)
Record nodev := mkNv { nv_split : Z; nv_len : option Q; nv_age : option Q; nv_support : option Q }.
Definition py_tree_nodes (t : stree) : list nodev :=
  map (fun n => mkNv (sn_split n) (sn_len n) None None) (st_preorder t).
Definition py_nv_split (n : nodev) : Z := nv_split n.
Definition py_nv_len (n : nodev) : option Q := nv_len n.
Definition py_nv_set_len (n : nodev) (v : option Q) : nodev := mkNv (nv_split n) v (nv_age n) (nv_support n).
Definition py_nv_set_age (n : nodev) (v : option Q) : nodev := mkNv (nv_split n) (nv_len n) v (nv_support n).
Definition py_nv_set_support (n : nodev) (v : Q) : nodev := mkNv (nv_split n) (nv_len n) (nv_age n) (Some v).

(* the summarizer's options: self.set_edge_lengths is None or one of these strings *)
Definition py_mode_str (m : elmode) : option string :=
  match m with
  | ELNone => None | ELKeep => Some "keep"%string | ELSupport => Some "support"%string
  | ELClear => Some "clear"%string | ELMeanLen => Some "mean-length"%string
  | ELMedianLen => Some "median-length"%string | ELMeanAge => Some "mean-age"%string
  | ELMedianAge => Some "median-age"%string
  end.
Definition py_ostr_eq (o : option string) (s : string) : bool :=
  match o with Some x => String.eqb x s | None => false end.
Definition py_ostr_is_none (o : option string) : bool := match o with None => true | _ => false end.

(* bool(summaries) for "None or dict" *)
Definition py_truth_odict {V} (o : option (list (Z * V))) : bool :=
  match o with Some (_ :: _) => true | _ => false end.
(* summaries[k][field] for field in "mean" / "median": KeyError when k is absent *)
Definition py_summ_lookup (o : option (list (Z * gsummary))) (k : Z) (field : string) : res (option Q) :=
  match o with
  | Some d => match aget k d with
              | Some g => if String.eqb field "mean" then Ok (gs_mean g)
                          else if String.eqb field "median" then Ok (gs_median g) else Err KeyErr
              | None => Err KeyErr
              end
  | None => Err TypeErr
  end.
(* try: x = e  except KeyError: x = d *)
Definition py_try_default {A} (handled : list err) (r : res A) (d : A) : res A :=
  match r with
  | Ok v => Ok v
  | Err e => if existsb (err_eqb e) handled then Ok d else Err e
  | OutOfFuel => OutOfFuel
  end.

(* tree.set_edge_lengths_from_node_ages(minimum_edge_length, error_on_negative_edge_lengths):
   interface operation; nodes are the preorder list of the tree's nodes with their ages;
   every non-seed node gets parent.age - node.age, raised to the minimum if given; a negative
   result raises ValueError when asked to *)
Definition age_or_zero (n : nodev) : Q := match nv_age n with Some a => a | None => 0%Q end.
Fixpoint ages_to_lengths (mn : option Q) (err : bool) (parent_age : option Q) (t : stree) (nodes : list nodev)
  : res (list nodev * list nodev) :=
  match t, nodes with
  | SN _ _ kids, n :: rest =>
    let me :=
        match parent_age with
        | None => Ok n
        | Some pa =>
          let el := clamp_min mn (qminus pa (age_or_zero n)) in
          if err && qlt_bool el 0 then Err ValueErr else Ok (py_nv_set_len n (Some el))
        end in
    match me with
    | Ok n' =>
      (fix go (ks : list stree) (rest : list nodev) (acc : list nodev) : res (list nodev * list nodev) :=
         match ks with
         | [] => Ok (acc, rest)
         | k :: r => match ages_to_lengths mn err (Some (age_or_zero n)) k rest with
                     | Ok (done, rest') => go r rest' (acc ++ done)
                     | Err e => Err e
                     | OutOfFuel => OutOfFuel
                     end
         end) kids rest [n']
    | Err e => Err e
    | OutOfFuel => OutOfFuel
    end
  | _, [] => Err IndexErr
  end.
Definition py_set_edge_lengths_from_node_ages (t : stree) (nodes : list nodev) (mn : option Q) (err : bool)
  : res (list nodev) :=
  match ages_to_lengths mn err None t nodes with
  | Ok (done, _) => Ok done
  | Err e => Err e
  | OutOfFuel => OutOfFuel
  end.
