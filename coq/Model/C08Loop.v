(* C08 - `for nd in <lazy post-order iterator>: body(nd)` with a body that mutates the tree:
   the iterator is the machine generated from the library source (Gen/Traversals.v,
   Node_postorder_iter_step), run over the object graph of the CURRENT forest; it is resumed only
   after the body has run on the node it yielded.  Executable definitions only. *)
From Coq Require Import ZArith List Bool.
From DV Require Import Model.PyPrims Model.Tree Model.C15Prims Gen.Traversals Model.C08Model.
Import ListNotations.
Open Scope Z_scope.

Definition findF (id : Z) (F : list tree) : option tree := first_some (map (find id) F).

(* what the iterator can see of the forest F: node = id, child_nodes read from F *)
Definition graph_of (F : list tree) : objgraph :=
  {| gnode := Z; gedge := unit;
     attr_child_nodes := fun i => match findF i F with Some n => map t_id (t_kids n) | None => [] end;
     attr_parent_node := fun _ => None; attr_edge := fun _ => tt; attr_head_node := fun _ => 0;
     attr_age := fun _ => 0; obj_is := Z.eqb |}.

Definition pre (L : list Z) (r : option (list tree * list Z)) : option (list tree * list Z) :=
  match r with Some (F', o) => Some (F', L ++ o) | None => None end.

(* result: the final forest and the sequence of yielded nodes; None = out of fuel / IndexError *)
Fixpoint lazy_run (body : list tree -> Z -> list tree) (fuel : nat) (F : list tree) (stack : list (Z * bool))
  : option (list tree * list Z) :=
  match fuel with
  | O => None
  | S n =>
    match Node_postorder_iter_step (graph_of F) None 0 stack with
    | SStop out => Some (fold_left body out F, out)
    | SNext st' out => pre out (lazy_run body n (fold_left body out F) st')
    | SRaise _ _ => None
    end
  end.

(* the body of the loop in Tree.suppress_unifurcations, on a forest holding the tree *)
Definition su_body (F : list tree) (a : Z) : list tree :=
  match F with [t] => [fst (su_step (t, []) a)] | _ => updF su_f a F end.

(* the body of the first loop of Tree.prune_taxa, as far as the tree is concerned: the step at the
   seed raises or does nothing *)
Definition p1_body (lf intn : bool) (taxa : list Z) (seed : Z) (F : list tree) (a : Z) : list tree :=
  if Z.eqb a seed then F else updF (p1_f lf intn taxa) a F.

Definition ires_tree (r : ires tree) (dflt : tree) : tree :=
  match r with IOk t => t | IErr _ t => t | IFuel => dflt end.
