(* C06: operation histories with the pool bookkeeping, for either form of the two repaired sites
   (run_pool of C06Model is the instance false false) *)
From Coq Require Import ZArith List Bool.
From DV Require Import Model.PyPrims Model.C06Model.
Import ListNotations.

Fixpoint run_pool_v (vu ve : bool) (w : list tarr) (g : list (list trec)) (ops : list op)
  : list tarr * list (list trec) * list (option terr) :=
  match ops with
  | [] => (w, g, [])
  | o :: r =>
    let '(w', e) := step_v vu ve w o in
    let '(wf, gf, es) := run_pool_v vu ve w' (pool_step g o e) r in (wf, gf, e :: es)
  end.

(* the operation names an existing array for every operand *)
Definition op_in_range (n : nat) (o : op) : bool :=
  match o with
  | OAdd i _ _ => Nat.ltb i n
  | OUpdate i j | OExtend i j | OIAdd i j => Nat.ltb i n && Nat.ltb j n
  | OPlus k i j => Nat.ltb i n && Nat.ltb j n
  end.
