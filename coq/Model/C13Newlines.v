(* C13, source dispatch: what the three sources hand to the tokenizer.

   `data=` wraps the string in a StringIO, `file=` uses the caller's stream: the tokenizer reads
   the document's characters themselves.  `path=` (basemodel.Deserializable._get_from_path /
   MultiReadable._read_from_path: `open(src, "r")`; ioservice.DataYielder.iterate_over_file:
   `open(current_file, "r")`) reads through a text-mode stream with newline=None, which delivers
   `universal_newlines doc`: CR LF and a lone CR both arrive as LF.

   Definitions only; proofs in Proofs/C13NewlinesProofs.v.  The tokenizer is the character-level
   model Model/Tokenizer.v (read-only use). *)
From Coq Require Import ZArith List Bool.
From DV Require Import Model.PyPrims Model.Tokenizer.
Import ListNotations.
Open Scope Z_scope.

Definition CR : Z := 13.
Definition LF : Z := 10.

(* io.TextIOWrapper with newline=None on reading: "\r\n" -> "\n", then "\r" -> "\n" *)
Fixpoint universal_newlines (s : str) : str :=
  match s with
  | [] => []
  | c :: r =>
    if c =? CR then
      LF :: match r with
            | c2 :: r2 => if c2 =? LF then universal_newlines r2 else universal_newlines r
            | [] => []
            end
    else c :: universal_newlines r
  end.

(* the characters the tokenizer is given, per source *)
Inductive source : Type := FromData | FromFile | FromPath.

Definition delivered (src : source) (doc : str) : str :=
  match src with
  | FromData | FromFile => doc
  | FromPath => universal_newlines doc
  end.

(* the token sequence of a document read from a source (NexusTokenizer) *)
Definition tokens_from (src : source) (preserve_underscores : bool) (doc : str) : list token * tend :=
  tokenize (nexus_cfg preserve_underscores) (delivered src doc).

(* the minimal document of finding source-dispatch:path-universal-newlines: ('a\r\nb',c,d);\n *)
Definition cr_label_doc : str := [40; 39; 97; 13; 10; 98; 39; 44; 99; 44; 100; 41; 59; 10].
