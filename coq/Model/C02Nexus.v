(* C02: executable model of the NEXUS layer around the Newick tree statements, for documents of
   the shape NexusWriter produces for ONE tree list over ONE taxon namespace:

     #NEXUS / BEGIN TAXA; DIMENSIONS NTAX=n; TAXLABELS ... ; END; / BEGIN TREES; [Translate ...;]
     TREE name = <newick statement> ... END;

   Writer : NexusWriter._write (header, single namespace, no block titles / links),
            _write_taxa_block, _write_trees_block, _set_and_write_translate_block
            (translate_tree_taxa = True: tokens str(accession_index+1))          (nexuswriter.py)
   Reader : NexusReader._parse_nexus_stream, _parse_taxa_block, _parse_dimensions_statement,
            _parse_taxlabels_statement, _parse_trees_block, _parse_translate_statement,
            _parse_tree_statement, _consume_to_end_of_block, NexusTokenizer.skip_to_semicolon,
            next_token_ucase / require_next_token_ucase / cast_current_token_to_ucase
                                                              (nexusreader.py, nexusprocessing.py)
   on top of Model/Tokenizer.v and Model/Newick.v (tree statements, NexusTaxonSymbolMapper with
   lookup order token -> label -> number).

   Modelling decisions:
   - a TaxonNamespace is the list of its labels; TaxonNamespace.require_taxon / get_taxon find the
     first member equal up to str.lower (is_case_sensitive = False), see C10;
   - accession_index(t) = position of t (true of a namespace that never lost a member);
   - statements the model does not cover (TITLE, LINK, CHARACTERS/DATA, SETS/ASSUMPTIONS/CODONS
     blocks, a second taxa block title lookup, store_ignored_blocks) give the distinguished result
     NUnmodelled: the correspondence harness only feeds documents of the shape above;
   - NTAX values are ASCII digit strings (str.isdigit/int on other Unicode digits not modelled);
   - comments/annotations attached to namespaces, taxa and tree lists are dropped. *)
From Coq Require Import ZArith List Bool.
From DV Require Import Model.PyPrims Gen.CharClasses Model.Tokenizer Model.Newick.
Import ListNotations.
Open Scope Z_scope.

Definition EQUALS : Z := 61.
Definition STAR : Z := 42.

(* keywords *)
Definition kw_HASHNEXUS : str := [35; 78; 69; 88; 85; 83].  (* #NEXUS *)
Definition kw_BEGIN : str := [66; 69; 71; 73; 78].  (* BEGIN *)
Definition kw_TAXA : str := [84; 65; 88; 65].  (* TAXA *)
Definition kw_TREES : str := [84; 82; 69; 69; 83].  (* TREES *)
Definition kw_CHARACTERS : str := [67; 72; 65; 82; 65; 67; 84; 69; 82; 83].  (* CHARACTERS *)
Definition kw_DATA : str := [68; 65; 84; 65].  (* DATA *)
Definition kw_SETS : str := [83; 69; 84; 83].  (* SETS *)
Definition kw_ASSUMPTIONS : str := [65; 83; 83; 85; 77; 80; 84; 73; 79; 78; 83].  (* ASSUMPTIONS *)
Definition kw_CODONS : str := [67; 79; 68; 79; 78; 83].  (* CODONS *)
Definition kw_END : str := [69; 78; 68].  (* END *)
Definition kw_ENDBLOCK : str := [69; 78; 68; 66; 76; 79; 67; 75].  (* ENDBLOCK *)
Definition kw_TITLE : str := [84; 73; 84; 76; 69].  (* TITLE *)
Definition kw_LINK : str := [76; 73; 78; 75].  (* LINK *)
Definition kw_DIMENSIONS : str := [68; 73; 77; 69; 78; 83; 73; 79; 78; 83].  (* DIMENSIONS *)
Definition kw_TAXLABELS : str := [84; 65; 88; 76; 65; 66; 69; 76; 83].  (* TAXLABELS *)
Definition kw_NTAX : str := [78; 84; 65; 88].  (* NTAX *)
Definition kw_NCHAR : str := [78; 67; 72; 65; 82].  (* NCHAR *)
Definition kw_TRANSLATE : str := [84; 82; 65; 78; 83; 76; 65; 84; 69].  (* TRANSLATE *)
Definition kw_TREE : str := [84; 82; 69; 69].  (* TREE *)
Definition kw_DUMMY : str := [68; 85; 77; 77; 89].  (* DUMMY *)

(* literal text written by NexusWriter *)
Definition txt_header : str := [35; 78; 69; 88; 85; 83; 10; 10].  (* '#NEXUS\n\n' *)
Definition txt_begin_taxa : str := [66; 69; 71; 73; 78; 32; 84; 65; 88; 65; 59; 10].  (* 'BEGIN TAXA;\n' *)
Definition txt_dimensions : str := [32; 32; 32; 32; 68; 73; 77; 69; 78; 83; 73; 79; 78; 83; 32; 78; 84; 65; 88; 61].  (* '    DIMENSIONS NTAX=' *)
Definition txt_semi_nl : str := [59; 10].  (* ';\n' *)
Definition txt_taxlabels : str := [32; 32; 32; 32; 84; 65; 88; 76; 65; 66; 69; 76; 83; 10].  (* '    TAXLABELS\n' *)
Definition txt_label_indent : str := [32; 32; 32; 32; 32; 32; 32; 32].  (* '        ' *)
Definition txt_taxa_close : str := [32; 32; 59; 10].  (* '  ;\n' *)
Definition txt_end : str := [69; 78; 68; 59; 10; 10].  (* 'END;\n\n' *)
Definition txt_begin_trees : str := [66; 69; 71; 73; 78; 32; 84; 82; 69; 69; 83; 59; 10].  (* 'BEGIN TREES;\n' *)
Definition txt_translate : str := [32; 32; 32; 32; 32; 32; 32; 32; 84; 114; 97; 110; 115; 108; 97; 116; 101; 10].  (* '        Translate\n' *)
Definition txt_translate_indent : str := [32; 32; 32; 32; 32; 32; 32; 32; 32; 32; 32; 32; 32].  (* '             ' *)
Definition txt_translate_sep : str := [44; 10].  (* ',\n' *)
Definition txt_translate_close : str := [10; 32; 32; 32; 32; 32; 32; 32; 32; 32; 32; 32; 32; 32; 59; 10].  (* '\n             ;\n' *)
Definition txt_tree : str := [32; 32; 32; 32; 84; 82; 69; 69; 32].  (* '    TREE ' *)
Definition txt_eq : str := [32; 61; 32].  (* ' = ' *)

(* ------------------------------------------------------------------------------------------ *)
(* writer                                                                                      *)
Section NexusWriter.
Variable L : Type.
Variable render_len : L -> str.

(* escape_nexus_token with its default protect class, as the NEXUS writer calls it *)
Definition escape_default (o : wopts) (l : str) : str :=
  escape_token escape_default_protect (wo_preserve_spaces o) (negb (wo_unquoted_underscores o)) l.

(* _write_taxa_block *)
Definition write_taxa_block (o : wopts) (ns : list str) : str :=
  txt_begin_taxa ++ txt_dimensions ++ dec_of_nat (length ns) ++ txt_semi_nl ++ txt_taxlabels
  ++ flat_map (fun l => txt_label_indent ++ escape_default o l ++ [NEWLINE]) ns
  ++ txt_taxa_close ++ txt_end.

(* position of the member with exactly this label (Taxon identity) *)
Fixpoint index_of (l : str) (ns : list str) (i : nat) : option nat :=
  match ns with
  | [] => None
  | x :: r => if str_eqb x l then Some i else index_of l r (S i)
  end.

(* taxon_token_map built by _set_and_write_translate_block(translate_tree_taxa=True);
   _get_taxon_tree_token falls back to the label for a taxon not in the map *)
Definition translate_token (ns : list str) (l : str) : str :=
  match index_of l ns O with Some i => dec_of_nat (S i) | None => l end.

Fixpoint join_with (sep : str) (parts : list str) : str :=
  match parts with
  | [] => []
  | [p] => p
  | p :: r => p ++ sep ++ join_with sep r
  end.

Definition write_translate (o : wopts) (ns : list str) : str :=
  txt_translate
  ++ join_with txt_translate_sep
       (map (fun il => txt_translate_indent ++ dec_of_nat (S (fst il)) ++ [SPACE] ++ escape_default o (snd il))
            (enum_from O ns))
  ++ txt_translate_close.

Definition with_token_map (o : wopts) (f : str -> str) : wopts :=
  mkWopts (wo_suppress_leaf_taxon_labels o) (wo_suppress_leaf_node_labels o)
          (wo_suppress_internal_taxon_labels o) (wo_suppress_internal_node_labels o)
          (wo_suppress_rooting o) (wo_suppress_edge_lengths o) (wo_unquoted_underscores o)
          (wo_preserve_spaces o) f.

(* _write_trees_block: trees without a label are named by their 1-based position *)
Definition write_trees_block (o : wopts) (translate : bool) (ns : list str) (ts : list (option bool * ntree L)) : str :=
  let o' := if translate then with_token_map o (translate_token ns) else with_token_map o (fun l => l) in
  txt_begin_trees
  ++ (if translate then write_translate o ns else [])
  ++ flat_map (fun it => txt_tree ++ escape_default o (dec_of_nat (S (fst it))) ++ txt_eq
                          ++ write_tree L render_len o' (fst (snd it)) (snd (snd it)) ++ [NEWLINE])
              (enum_from O ts)
  ++ txt_end.

(* tree_list.as_string("nexus", ...) *)
Definition write_nexus (o : wopts) (translate : bool) (ns : list str) (ts : list (option bool * ntree L)) : str :=
  txt_header ++ write_taxa_block o ns ++ write_trees_block o translate ns ts.

(* --- the general form: translate tokens are str(accession_index + 1); `accs` gives the accession
   index of every member in the namespace's CURRENT order (TAXLABELS / Translate list the members in
   the current order).  With accs = 0, 1, 2, ... these are the functions above
   (Proofs/C02NexusMain.v write_nexus_acc_seq). --- *)
Definition translate_token_acc (ns : list str) (accs : list nat) (l : str) : str :=
  match index_of l ns O with Some i => dec_of_nat (S (nth i accs O)) | None => l end.

Definition write_translate_acc (o : wopts) (ns : list str) (accs : list nat) : str :=
  txt_translate
  ++ join_with txt_translate_sep
       (map (fun al => txt_translate_indent ++ dec_of_nat (S (fst al)) ++ [SPACE] ++ escape_default o (snd al))
            (combine accs ns))
  ++ txt_translate_close.

Definition write_trees_block_acc (o : wopts) (translate : bool) (ns : list str) (accs : list nat)
           (ts : list (option bool * ntree L)) : str :=
  let o' := if translate then with_token_map o (translate_token_acc ns accs) else with_token_map o (fun l => l) in
  txt_begin_trees
  ++ (if translate then write_translate_acc o ns accs else [])
  ++ flat_map (fun it => txt_tree ++ escape_default o (dec_of_nat (S (fst it))) ++ txt_eq
                          ++ write_tree L render_len o' (fst (snd it)) (snd (snd it)) ++ [NEWLINE])
              (enum_from O ts)
  ++ txt_end.

Definition write_nexus_acc (o : wopts) (translate : bool) (ns : list str) (accs : list nat)
           (ts : list (option bool * ntree L)) : str :=
  txt_header ++ write_taxa_block o ns ++ write_trees_block_acc o translate ns accs ts.

End NexusWriter.

(* ------------------------------------------------------------------------------------------ *)
(* reader                                                                                      *)

Inductive nres (A : Type) : Type :=
| NOk : A -> nres A
| NErr : err -> nres A
| NFuel : nres A
| NUnmodelled : nres A.
Arguments NOk {A} _.
Arguments NErr {A} _.
Arguments NFuel {A}.
Arguments NUnmodelled {A}.

Definition nbind {A B} (r : nres A) (f : A -> nres B) : nres B :=
  match r with NOk a => f a | NErr e => NErr e | NFuel => NFuel | NUnmodelled => NUnmodelled end.

Notation "'dn' x <- r ;; k" := (nbind r (fun x => k)) (at level 200, x pattern, r at level 100, k at level 200).

Definition of_res {A} (r : res A) : nres A :=
  match r with Ok a => NOk a | Err e => NErr e | OutOfFuel => NFuel end.

Section NexusReader.
Variable L : Type.
Variable parse_len : str -> option L.
Variable lower : str -> str.
Variable upper : str -> str.

Record nxstate : Type := mkNx {
  nx_ps : pstate;                                   (* tokenizer cursor (+ Newick bookkeeping) *)
  nx_ntax : option nat;                             (* self._file_specified_ntax *)
  nx_tns : list (list str);                         (* self._taxon_namespaces, as label lists *)
  nx_trees : list (nat * list (ptree_result L))     (* self._tree_lists: namespace index, trees *)
}.

Definition set_ps (st : nxstate) (ps : pstate) : nxstate := mkNx ps (nx_ntax st) (nx_tns st) (nx_trees st).

Definition cur_eq (ps : pstate) (k : str) : bool :=
  match ps_cur ps with Some s => str_eqb s k | None => false end.
Definition cur_none (ps : pstate) : bool := match ps_cur ps with None => true | Some _ => false end.
Definition cur_empty (ps : pstate) : bool :=    (* `not current_token` *)
  match ps_cur ps with None => true | Some s => is_nil s end.

(* next_token_ucase: the upper-cased token becomes current_token *)
Definition next_ucase (ps : pstate) : res pstate :=
  do ps1 <- next_token_or_none ps ;;
  Ok (match ps_cur ps1 with Some s => set_cur ps1 (Some (upper s)) | None => ps1 end).

Definition require_ucase (ps : pstate) : res pstate :=
  do ps1 <- require_next ps ;;
  Ok (match ps_cur ps1 with Some s => set_cur ps1 (Some (upper s)) | None => ps1 end).

(* cast_current_token_to_ucase: only a non-empty token is replaced *)
Definition cast_ucase (ps : pstate) : pstate :=
  match ps_cur ps with Some (c :: s) => set_cur ps (Some (upper (c :: s))) | _ => ps end.

(* NexusTokenizer.skip_to_semicolon *)
Fixpoint skip_to_semicolon_loop (fuel : nat) (ps : pstate) : res pstate :=
  match fuel with
  | O => OutOfFuel
  | S f =>
    if negb (cur_is ps SEMI) && negb (ps_eof ps) && negb (cur_none ps)
    then do ps1 <- next_token_or_none ps ;; skip_to_semicolon_loop f ps1
    else Ok ps
  end.

Definition skip_to_semicolon (fuel : nat) (ps : pstate) : res pstate :=
  do ps1 <- next_token_or_none ps ;; skip_to_semicolon_loop fuel ps1.

(* _consume_to_end_of_block(token) *)
Fixpoint consume_loop (fuel : nat) (tok : option str) (ps : pstate) : res pstate :=
  match fuel with
  | O => OutOfFuel
  | S f =>
    match tok with
    | None => Ok ps
    | Some t =>
      if str_eqb t kw_END || str_eqb t kw_ENDBLOCK || ps_eof ps then Ok ps
      else do ps1 <- skip_to_semicolon f ps ;;
           do ps2 <- next_ucase ps1 ;;
           consume_loop f (ps_cur ps2) ps2
    end
  end.

Definition consume_to_end_of_block (fuel : nat) (tok : option str) (ps : pstate) : res pstate :=
  consume_loop fuel (match tok with Some (c :: s) => Some (upper (c :: s)) | _ => Some kw_DUMMY end) ps.

(* str.isdigit() / int() on ASCII digit strings *)
Fixpoint uint_of_digits (s : str) : option Decimal.uint :=
  match s with
  | [] => Some Decimal.Nil
  | c :: r =>
    match uint_of_digits r with
    | None => None
    | Some u =>
      if c =? 48 then Some (Decimal.D0 u) else if c =? 49 then Some (Decimal.D1 u)
      else if c =? 50 then Some (Decimal.D2 u) else if c =? 51 then Some (Decimal.D3 u)
      else if c =? 52 then Some (Decimal.D4 u) else if c =? 53 then Some (Decimal.D5 u)
      else if c =? 54 then Some (Decimal.D6 u) else if c =? 55 then Some (Decimal.D7 u)
      else if c =? 56 then Some (Decimal.D8 u) else if c =? 57 then Some (Decimal.D9 u)
      else None
    end
  end.
Definition parse_nat (s : str) : option nat :=
  match s with
  | [] => None
  | _ => option_map (fun u => N.to_nat (N.of_uint u)) (uint_of_digits s)
  end.

(* _parse_dimensions_statement, entered after the DIMENSIONS token *)
Fixpoint dimensions_loop (fuel : nat) (st : nxstate) : nres nxstate :=
  match fuel with
  | O => NFuel
  | S f =>
    let ps := nx_ps st in
    if cur_is ps SEMI then NOk st
    else if cur_eq ps kw_NTAX then
      dn ps1 <- of_res (require_ucase ps) ;;
      if cur_is ps1 EQUALS then
        dn ps2 <- of_res (require_ucase ps1) ;;
        match parse_nat (cur_text ps2) with
        | Some n => dn ps3 <- of_res (require_ucase ps2) ;;
                    dimensions_loop f (mkNx ps3 (Some n) (nx_tns st) (nx_trees st))
        | None => NErr ParseErr
        end
      else NErr ParseErr
    else if cur_eq ps kw_NCHAR then NUnmodelled
    else if cur_eq ps kw_BEGIN then NErr ParseErr
    else dn ps1 <- of_res (require_ucase ps) ;; dimensions_loop f (set_ps st ps1)
  end.

Definition parse_dimensions (fuel : nat) (st : nxstate) : nres nxstate :=
  dn ps1 <- of_res (require_ucase (nx_ps st)) ;; dimensions_loop fuel (set_ps st ps1).

Definition has_key (ns : list str) (l : str) : bool := existsb (fun x => str_eqb (lower x) (lower l)) ns.

(* _parse_taxlabels_statement on namespace ns (current token: TAXLABELS) *)
Fixpoint taxlabels_loop (fuel : nat) (ntax : option nat) (ps : pstate) (ns : list str) : nres (pstate * list str) :=
  match fuel with
  | O => NFuel
  | S f =>
    if cur_is ps SEMI then NOk (ps, ns)
    else
      let label := cur_text ps in
      dn ns1 <- (if has_key ns label then NOk ns
                 else match ntax with
                      | Some n => if Nat.leb n (length ns) then NErr ParseErr else NOk (ns ++ [label])
                      | None => NOk (ns ++ [label])
                      end) ;;
      dn ps1 <- of_res (require_next ps) ;;
      let '(_, ps2) := pull_comments ps1 in
      taxlabels_loop f ntax ps2 ns1
  end.

Fixpoint set_nth {A} (l : list A) (i : nat) (v : A) : list A :=
  match l, i with
  | [], _ => []
  | _ :: r, O => v :: r
  | x :: r, S j => x :: set_nth r j v
  end.

(* _parse_taxa_block: `while not (token == 'END' or token == 'ENDBLOCK')` *)
Fixpoint taxa_block_loop (fuel : nat) (st : nxstate) (tns : option nat) : nres nxstate :=
  match fuel with
  | O => NFuel
  | S f =>
    dn ps1 <- of_res (require_ucase (nx_ps st)) ;;
    let st1 := set_ps st ps1 in
    if cur_eq ps1 kw_TITLE then NUnmodelled
    else
      dn st2 <- (if cur_eq ps1 kw_DIMENSIONS then parse_dimensions f st1 else NOk st1) ;;
      (* `if token == 'TAXLABELS'` tests the same variable: still the block keyword *)
      dn r <- (if cur_eq ps1 kw_TAXLABELS then
                 let '(ti, st3) := match tns with
                                   | Some i => (i, st2)
                                   | None => (length (nx_tns st2), mkNx (nx_ps st2) (nx_ntax st2) (nx_tns st2 ++ [[]]) (nx_trees st2))
                                   end in
                 let '(_, ps3) := pull_comments (nx_ps st3) in
                 dn ps4 <- of_res (require_next ps3) ;;
                 dn pn <- taxlabels_loop f (nx_ntax st3) ps4 (nth ti (nx_tns st3) []) ;;
                 NOk (Some ti, mkNx (fst pn) (nx_ntax st3) (set_nth (nx_tns st3) ti (snd pn)) (nx_trees st3))
               else NOk (tns, st2)) ;;
      let '(tns', st4) := r in
      if cur_eq ps1 kw_END || cur_eq ps1 kw_ENDBLOCK then NOk st4
      else taxa_block_loop f st4 tns'
  end.

Definition parse_taxa_block (fuel : nat) (st : nxstate) : nres nxstate :=
  dn ps1 <- of_res (skip_to_semicolon fuel (nx_ps st)) ;;
  dn st1 <- taxa_block_loop fuel (set_ps st ps1) None ;;
  dn ps2 <- of_res (skip_to_semicolon fuel (nx_ps st1)) ;;
  NOk (set_ps st1 ps2).

(* _get_taxon_namespace(title=None) *)
Definition get_taxon_namespace (st : nxstate) : nres (nat * nxstate) :=
  match nx_tns st with
  | [] => NOk (O, mkNx (nx_ps st) (nx_ntax st) [[]] (nx_trees st))
  | [_] => NOk (O, st)
  | _ => NErr ParseErr
  end.

(* TaxonNamespace.require_taxon(label) on a namespace locked by the symbol mapper *)
Fixpoint find_key (ns : list str) (l : str) (i : nat) : option nat :=
  match ns with
  | [] => None
  | x :: r => if str_eqb (lower x) (lower l) then Some i else find_key r l (S i)
  end.

Definition mapper_set_ns (m : mapper) (ns : list str) : mapper :=
  mkMapper ns (m_tokens m) (m_labels m) (m_numbers m) (m_by_number m) (m_case_sensitive m).

(* _parse_translate_statement: `while True` over "token label ," *)
Fixpoint translate_loop (fuel : nat) (ntax : option nat) (ps : pstate) (m : mapper) : nres (pstate * mapper) :=
  match fuel with
  | O => NFuel
  | S f =>
    dn ps1 <- of_res (next_token_or_none ps) ;;
    (* the model's pstate does not carry is_token_quoted: a quoted ';' token is not distinguished *)
    if cur_is ps1 SEMI then NErr ParseErr
    else match ps_cur ps1 with
    | None => NUnmodelled
    | Some ttok =>
      dn ps2 <- of_res (next_token_or_none ps1) ;;
      match ps_cur ps2 with
      | None => NUnmodelled
      | Some tlabel =>
        dn im <- (match find_key (m_ns m) tlabel O with
                  | Some i => NOk (i, m)
                  | None => match ntax with
                            | None => NOk (length (m_ns m), mapper_set_ns m (m_ns m ++ [tlabel]))
                            | Some _ => NErr ParseErr       (* ImmutableTaxonNamespaceError -> UndefinedTaxonError *)
                            end
                  end) ;;
        let m1 := add_translate_token lower (snd im) ttok (fst im) in
        dn ps3 <- of_res (next_token_or_none ps2) ;;
        if cur_empty ps3 || cur_is ps3 SEMI then NOk (ps3, m1)
        else if cur_is ps3 COMMA then translate_loop f ntax ps3 m1
        else NErr ParseErr
      end
    end
  end.

(* _parse_tree_statement (NEXUS), entered with current token TREE *)
Definition parse_tree_statement_nexus (fuel : nat) (ro : ropts) (ps : pstate)
  : nres (ptree_result L * pstate) :=
  dn ps1 <- of_res (next_token_or_none ps) ;;
  dn ps2 <- (if cur_is ps1 STAR then of_res (next_token_or_none ps1) else NOk ps1) ;;
  dn ps3 <- of_res (next_token_or_none ps2) ;;
  let '(pre, ps4) := pull_comments ps3 in
  if negb (cur_is ps3 EQUALS) then NErr ParseErr
  else
    dn ps5 <- of_res (next_token_or_none ps4) ;;
    dn r <- of_res (parse_tree_statement L parse_len lower ro fuel ps5) ;;
    match r with
    | (None, _) => NErr ParseErr
    | (Some pr, ps6) => NOk (mkPR (pr_is_rooted pr) (pr_comments pr ++ pre) (pr_tree pr), ps6)
    end.

(* the `while True` over consecutive TREE statements *)
Fixpoint tree_statements_loop (fuel : nat) (ro : ropts) (ps : pstate) (acc : list (ptree_result L))
  : nres (list (ptree_result L) * pstate * bool) :=      (* bool: `token = current_token` assigned *)
  match fuel with
  | O => NFuel
  | S f =>
    dn r <- parse_tree_statement_nexus fuel ro ps ;;
    let '(pr, ps1) := r in
    let acc1 := acc ++ [pr] in
    if ps_eof ps1 || cur_empty ps1 then NOk (acc1, ps1, false)
    else let ps2 := cast_ucase ps1 in
         if cur_eq ps2 kw_TREE then tree_statements_loop f ro ps2 acc1
         else NOk (acc1, ps2, true)
  end.

(* _parse_trees_block main loop; `tok` is the local variable `token` *)
Fixpoint trees_block_loop (fuel : nat) (ro : ropts) (st : nxstate) (tok : option str)
         (tns : option nat) (m : option mapper) (tl : option (list (ptree_result L)))
  : nres (nxstate * option nat * option mapper * option (list (ptree_result L))) :=
  match fuel with
  | O => NFuel
  | S f =>
    let stop := match tok with
                | None => true
                | Some t => str_eqb t kw_END || str_eqb t kw_ENDBLOCK
                end in
    if ps_eof (nx_ps st) || stop then NOk (st, tns, m, tl)
    else
      dn ps1 <- of_res (next_ucase (nx_ps st)) ;;
      let st1 := set_ps st ps1 in
      if cur_eq ps1 kw_LINK || cur_eq ps1 kw_TITLE then NUnmodelled
      else if cur_eq ps1 kw_TRANSLATE then
        dn r <- (match tns with Some i => NOk (i, st1) | None => get_taxon_namespace st1 end) ;;
        let '(ti, st2) := r in
        let ns := nth ti (nx_tns st2) [] in
        dn pm <- translate_loop f (nx_ntax st2) (nx_ps st2) (new_mapper lower ns true (ro_case_sensitive_taxon_labels ro)) ;;
        trees_block_loop f ro (set_ps st2 (fst pm)) (Some []) (Some ti) (Some (snd pm)) tl
      else if cur_eq ps1 kw_TREE then
        dn r <- (match tns with Some i => NOk (i, st1) | None => get_taxon_namespace st1 end) ;;
        let '(ti, st2) := r in
        let ns := nth ti (nx_tns st2) [] in
        let m1 := match m with Some x => x | None => new_mapper lower ns true (ro_case_sensitive_taxon_labels ro) end in
        let '(_, ps2) := pull_comments (nx_ps st2) in
        let ps3 := set_seen_map ps2 (ps_seen ps2) m1 in
        dn r2 <- tree_statements_loop f ro ps3 (match tl with Some x => x | None => [] end) ;;
        let '(trees, ps4, assigned) := r2 in
        let st3 := set_ps st2 ps4 in
        trees_block_loop f ro st3 (if assigned then ps_cur ps4 else ps_cur ps1) (Some ti) (Some (ps_map ps4)) (Some trees)
      else if cur_eq ps1 kw_BEGIN then NErr ParseErr
      else trees_block_loop f ro st1 (ps_cur ps1) tns m tl
  end.

Definition parse_trees_block (fuel : nat) (ro : ropts) (st : nxstate) : nres nxstate :=
  let ps0 := cast_ucase (nx_ps st) in
  if negb (cur_eq ps0 kw_TREES) then NErr ParseErr
  else
    dn ps1 <- of_res (skip_to_semicolon fuel ps0) ;;
    dn r <- trees_block_loop fuel ro (set_ps st ps1) (ps_cur ps0) None None None ;;
    let '(st1, tns, m, tl) := r in
    (* the namespace may have grown through the mapper; the tree list is registered *)
    let tnsl := match tns, m with
                | Some ti, Some mm => set_nth (nx_tns st1) ti (m_ns mm)
                | _, _ => nx_tns st1
                end in
    let trl := match tns, tl with
               | Some ti, Some trees => nx_trees st1 ++ [(ti, trees)]
               | _, _ => nx_trees st1
               end in
    dn ps2 <- of_res (skip_to_semicolon fuel (nx_ps st1)) ;;
    NOk (mkNx ps2 (nx_ntax st1) tnsl trl).

(* _parse_nexus_stream: `while not is_eof()` *)
Fixpoint scan_begin (fuel : nat) (ps : pstate) : res pstate :=
  match fuel with
  | O => OutOfFuel
  | S f =>
    if negb (cur_none ps) && negb (cur_eq ps kw_BEGIN) && negb (ps_eof ps)
    then do ps1 <- next_ucase ps ;; scan_begin f ps1
    else Ok ps
  end.

Fixpoint stream_loop (fuel : nat) (ro : ropts) (st : nxstate) : nres nxstate :=
  match fuel with
  | O => NFuel
  | S f =>
    if ps_eof (nx_ps st) then NOk st
    else
      dn ps1 <- of_res (next_ucase (nx_ps st)) ;;
      dn ps2 <- of_res (scan_begin fuel ps1) ;;
      let '(_, ps3) := pull_comments ps2 in
      dn ps4 <- of_res (next_ucase ps3) ;;
      let st4 := set_ps st ps4 in
      if cur_eq ps4 kw_TAXA then dn st5 <- parse_taxa_block fuel st4 ;; stream_loop f ro st5
      else if cur_eq ps4 kw_CHARACTERS || cur_eq ps4 kw_DATA then NUnmodelled
      else if cur_eq ps4 kw_TREES then dn st5 <- parse_trees_block fuel ro st4 ;; stream_loop f ro st5
      else if cur_eq ps4 kw_SETS || cur_eq ps4 kw_ASSUMPTIONS || cur_eq ps4 kw_CODONS then NUnmodelled
      else if cur_eq ps4 kw_BEGIN then NErr ParseErr
      else dn ps5 <- of_res (consume_to_end_of_block fuel (ps_cur ps4) ps4) ;; stream_loop f ro (set_ps st ps5)
  end.

Definition nexus_fuel (toks : list token) : nat := 2 * length toks + 12.

(* NexusReader._read: (namespaces as label lists, tree lists) *)
Definition read_nexus (ro : ropts) (text : str) : nres (list (list str) * list (nat * list (ptree_result L))) :=
  let toks := tokenize (nexus_cfg (ro_preserve_underscores ro)) text in
  let fuel := nexus_fuel (fst toks) in
  let ps0 := init_pstate toks (new_mapper lower [] false false) in
  dn ps1 <- of_res (require_next ps0) ;;
  if negb (str_eqb (upper (cur_text ps1)) kw_HASHNEXUS) then NErr ParseErr
  else
    dn st <- stream_loop fuel ro (mkNx ps1 None [] []) ;;
    NOk (nx_tns st, nx_trees st).

End NexusReader.
