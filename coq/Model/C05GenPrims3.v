(* C05: third part of the translator's run-time library (TreeArray.restore_tree, the
   maximum_*_of_split_support_tree functions, TreeArray.consensus_tree,
   SplitDistribution.summarize_splits_on_tree).  Same conventions as C05GenPrims.v: every
   definition states the Python meaning of one primitive of the generated code (trusted). *)
From Coq Require Import ZArith QArith Qabs Qreduction List Bool String.
From DV Require Import Model.PyPrims Gen.BitFns Model.C05Model Model.C05Spec Model.C05Model2
     Model.C05GenPrims Model.C05GenPrims2.
Import ListNotations.
Open Scope Z_scope.

(* ---- l[i] where i may be None: TypeError ("list indices must be integers ..., not NoneType") *)
Definition py_index_opt {A} (l : list A) (i : option Z) : res A :=
  match i with None => Err TypeErr | Some z => py_index l z end.

(* ---- dict(zip(ks, vs)): pairs up to the shorter list, a later duplicate key overwrites *)
Definition py_dict_zip {V} (ks : list Z) (vs : list V) : list (Z * V) :=
  fold_left (fun d kv => py_dict_set d (fst kv) (snd kv)) (zip ks vs) [].

Definition py_truth_dict {V} (d : list (Z * V)) : bool := match d with [] => false | _ => true end.

(* ---- the object Tree.from_split_bitmasks(split_bitmasks=, taxon_namespace=, is_rooted=,
   split_edge_lengths=) returns: the accepted clades (set level) and the tree the coded insertion
   builds (tree level) exactly as py_from_split_bitmasks, plus what the call leaves on the tree:
   tree.is_rooted and the dict of edge lengths handed in (None when the keyword is None).
   `if split_edge_lengths: new_edge.length = split_edge_lengths[split_to_add]`: a truthy dict that
   lacks the mask of an inserted node raises KeyError. *)
Record rtree := mkRt {
  rt_clades : list Z;
  rt_tree : ctree;
  rt_rooting : option bool;
  rt_lens : option (list (Z * option Q))
}.

Definition rt_len_of (sel : option (list (Z * option Q))) (m : Z) : res (option Q) :=
  match sel with
  | None => Ok None
  | Some d => if py_truth_dict d
              then match aget m d with Some l => Ok l | None => Err KeyErr end
              else Ok None
  end.

(* inserted nodes = internal nodes below the seed node *)
Fixpoint ct_inserted (t : ctree) : list Z :=
  match t with
  | CT m kids => match kids with [] => [] | _ => m :: flat_map ct_inserted kids end
  end.
Definition rt_inserted (t : ctree) : list Z := flat_map ct_inserted (ct_kids t).

Fixpoint lens_ok (sel : option (list (Z * option Q))) (ms : list Z) : res unit :=
  match ms with
  | [] => Ok tt
  | m :: r => match rt_len_of sel m with Ok _ => lens_ok sel r | Err e => Err e | OutOfFuel => OutOfFuel end
  end.

Definition py_from_split_bitmasks_el (all : Z) (bits : list Z) (is_rooted : option bool) (ss : list Z)
           (sel : option (list (Z * option Q))) : res rtree :=
  let '(cl, tr) := py_from_split_bitmasks all bits is_rooted ss in
  match lens_ok sel (rt_inserted tr) with
  | Ok _ => Ok (mkRt cl tr is_rooted sel)
  | Err e => Err e
  | OutOfFuel => OutOfFuel
  end.

(* ---- that tree as the target of summarize_splits_on_tree(.., is_bipartitions_updated=True): per
   node the split bitmask of the Bipartition from_split_bitmasks left on its edge, and the edge
   length.
     seed node and leaves: encode_bipartitions() of the star tree under tree.is_rooted (the
       tree's leafset bitmask is the OR of the leaf bits);
     inserted nodes: Bipartition(leafset_bitmask=m, tree_leafset_bitmask=all_taxa_bitmask
       [, is_rooted=is_rooted]): `passes` says whether the working tree hands is_rooted to that
       constructor (Gen: fsb_bipartition_passes_is_rooted, read off the AST of _tree.py); when it
       does not, the bipartition is compiled as for an unrooted tree whatever the rooting. *)
Definition enc_split (rooted : bool) (fill m : Z) : Z :=
  if rooted then m else py_normalize_bitmask m fill (py_least_significant_set_bit fill).

Fixpoint rt_sub (passes rooted : bool) (all : Z) (star_fill : Z) (sel : option (list (Z * option Q))) (t : ctree) : stree :=
  match t with
  | CT m kids =>
    match kids with
    | [] => SN (enc_split rooted star_fill m) None []
    | _ => SN (enc_split (passes && rooted) all m)
              (match rt_len_of sel m with Ok l => l | _ => None end)
              (map (rt_sub passes rooted all star_fill sel) kids)
    end
  end.

Definition py_rtree_target (passes : bool) (all : Z) (t : rtree) : stree :=
  let rooted := py_truth_obool (rt_rooting t) in
  match rt_tree t with
  | CT m kids => SN (enc_split rooted m m) None (map (rt_sub passes rooted all m (rt_lens t)) kids)
  end.

(* ---- the tree a maximum_*_tree function returns: the restored tree, the score attribute
   assigned to it (`tree.log_product_of_split_support = ..` / `tree.sum_of_split_support = ..`),
   and the per-node values written by the summarisation (None: summarize_splits was false) *)
Record mtree := mkMt {
  mt_tree : rtree;
  mt_score : option Q;
  mt_nodes : option (list nodev)
}.
Definition py_mt_new (t : rtree) : mtree := mkMt t None None.
Definition py_mt_set_score (t : mtree) (q : Q) : mtree := mkMt (mt_tree t) (Some q) (mt_nodes t).
Definition py_mt_set_nodes (t : mtree) (l : list nodev) : mtree := mkMt (mt_tree t) (mt_score t) (Some l).
