(* C14: OBJECT-LEVEL primitives for SEVERAL PhylogeneticDistanceMatrix objects.

   Model/C14Model.v treats a matrix as a value (record pdm).  In the library a matrix OBJECT holds
   references to six mutable containers
       _mapped_taxa                       set of Taxon
       _all_distinct_mapped_taxa_pairs    set of frozenset({Taxon, Taxon})
       _taxon_phylogenetic_distances      dict Taxon -> dict Taxon -> float
       _taxon_phylogenetic_path_steps     dict Taxon -> dict Taxon -> int
       _taxon_phylogenetic_path_edges     dict (empty unless is_store_path_edges)
       _mrca                              dict Taxon -> dict Taxon -> Node
   and three immutable scalars (taxon_namespace reference, _tree_length, _num_edges).  Here: a store
   of container objects (container id -> contents) and matrix objects whose attributes hold container
   ids (the approach of Model/C19RowHeap.v).  What is stored, copied or mutated in place is decided by
   the statement primitives below; py/dv/gen_pdm_obj.py compiles `clear`, `__init__`, `clone` and
   `__copy__` of the current source into sequences of these statements (coq/Gen/PdmObj.v).

   Granularity: an outer dict is an object; its rows (the inner dicts) are values owned by it.  This
   is justified syntactically by the translator: every statement of the class that stores a row into
   one of the tables stores a fresh dict display (`d[k] = {}` / `{k: v}`), never an existing dict
   (py/dv/gen_pdm_obj.py check_rows_fresh; fail closed).

   The heap is an association list with the newest binding first (alloc and in-place mutation both
   cons); the object table is an insertion-ordered dict (Model/C14Model.v dset: overwrite in place or
   append).  An attribute that has not been assigned yet is None: reading it is AttributeError. *)
From Coq Require Import ZArith List Bool.
From DV Require Import Model.PyPrims Model.C14Model.
Import ListNotations.
Open Scope Z_scope.

Definition cid := Z.
Definition oid := Z.

Inductive cell :=
| CSet (l : list Z)
| CPairs (l : list (Z * Z))
| CTbl (t : tbl Z).

Inductive cattr := AMapped | APairs | ADist | ASteps | AEdges | AMrca.
Inductive sattr := ANs | ATreeLength | ANumEdges.

(* scalars: Python None is 0 (as in pdm_empty); the namespace is 0 = None or the id of a namespace *)
Record obj := mkObj {
  ob_ns : Z; ob_tl : Z; ob_ne : Z;
  ob_mapped : option cid; ob_pairs : option cid;
  ob_dist : option cid; ob_steps : option cid; ob_edges : option cid; ob_mrca : option cid
}.

Definition obj_blank : obj := mkObj 0 0 0 None None None None None None.

Definition get_c (a : cattr) (o : obj) : option cid :=
  match a with
  | AMapped => ob_mapped o | APairs => ob_pairs o | ADist => ob_dist o
  | ASteps => ob_steps o | AEdges => ob_edges o | AMrca => ob_mrca o
  end.

Definition set_c (a : cattr) (c : cid) (o : obj) : obj :=
  match a with
  | AMapped => mkObj (ob_ns o) (ob_tl o) (ob_ne o) (Some c) (ob_pairs o) (ob_dist o) (ob_steps o) (ob_edges o) (ob_mrca o)
  | APairs => mkObj (ob_ns o) (ob_tl o) (ob_ne o) (ob_mapped o) (Some c) (ob_dist o) (ob_steps o) (ob_edges o) (ob_mrca o)
  | ADist => mkObj (ob_ns o) (ob_tl o) (ob_ne o) (ob_mapped o) (ob_pairs o) (Some c) (ob_steps o) (ob_edges o) (ob_mrca o)
  | ASteps => mkObj (ob_ns o) (ob_tl o) (ob_ne o) (ob_mapped o) (ob_pairs o) (ob_dist o) (Some c) (ob_edges o) (ob_mrca o)
  | AEdges => mkObj (ob_ns o) (ob_tl o) (ob_ne o) (ob_mapped o) (ob_pairs o) (ob_dist o) (ob_steps o) (Some c) (ob_mrca o)
  | AMrca => mkObj (ob_ns o) (ob_tl o) (ob_ne o) (ob_mapped o) (ob_pairs o) (ob_dist o) (ob_steps o) (ob_edges o) (Some c)
  end.

Definition get_s (a : sattr) (o : obj) : Z :=
  match a with ANs => ob_ns o | ATreeLength => ob_tl o | ANumEdges => ob_ne o end.

Definition set_s (a : sattr) (v : Z) (o : obj) : obj :=
  match a with
  | ANs => mkObj v (ob_tl o) (ob_ne o) (ob_mapped o) (ob_pairs o) (ob_dist o) (ob_steps o) (ob_edges o) (ob_mrca o)
  | ATreeLength => mkObj (ob_ns o) v (ob_ne o) (ob_mapped o) (ob_pairs o) (ob_dist o) (ob_steps o) (ob_edges o) (ob_mrca o)
  | ANumEdges => mkObj (ob_ns o) (ob_tl o) v (ob_mapped o) (ob_pairs o) (ob_dist o) (ob_steps o) (ob_edges o) (ob_mrca o)
  end.

(* set() / {} *)
Definition empty_of (a : cattr) : cell :=
  match a with AMapped => CSet [] | APairs => CPairs [] | _ => CTbl [] end.

Record world := mkW {
  w_heap : list (cid * cell);     (* newest binding first *)
  w_next : cid;                   (* next container identity *)
  w_objs : dict obj;              (* the matrix objects, by identity *)
  w_onext : oid
}.

Definition world_empty : world := mkW [] 0 [] 0.

Fixpoint hfind (c : cid) (h : list (cid * cell)) : option cell :=
  match h with
  | [] => None
  | (c', v) :: r => if Z.eqb c c' then Some v else hfind c r
  end.

Definition hget (w : world) (c : cid) : option cell := hfind c (w_heap w).

(* evaluation of set() / {} / set(x): a NEW container object *)
Definition alloc (v : cell) (w : world) : world * cid :=
  (mkW ((w_next w, v) :: w_heap w) (w_next w + 1) (w_objs w) (w_onext w), w_next w).

(* an in-place operation on container c *)
Definition mutate (c : cid) (v : cell) (w : world) : world :=
  mkW ((c, v) :: w_heap w) (w_next w) (w_objs w) (w_onext w).

Definition wobj (w : world) (i : oid) : res obj :=
  match dget i (w_objs w) with Some o => Ok o | None => Err OtherErr (* no such object: harness error *) end.

Definition put_obj (i : oid) (o : obj) (w : world) : world :=
  mkW (w_heap w) (w_next w) (dset i o (w_objs w)) (w_onext w).

(* self.a  (AttributeError when never assigned) *)
Definition attr (a : cattr) (o : obj) : res cid :=
  match get_c a o with Some c => Ok c | None => Err AttrErr end.

(* ---- statements ---- *)

(* self.a = set()   /   self.a = {} *)
Definition st_rebind (a : cattr) (self : oid) (w : world) : res world :=
  do o <- wobj w self ;;
  let '(w1, c) := alloc (empty_of a) w in
  Ok (put_obj self (set_c a c o) w1).

(* self.a.clear() *)
Definition st_clear_in_place (a : cattr) (self : oid) (w : world) : res world :=
  do o <- wobj w self ;;
  do c <- attr a o ;;
  Ok (mutate c (empty_of a) w).

(* self.s = None (v = 0) or a constant *)
Definition st_set_scalar (s : sattr) (v : Z) (self : oid) (w : world) : res world :=
  do o <- wobj w self ;;
  Ok (put_obj self (set_s s v o) w).

(* object.__new__: a new identity with no attribute yet *)
Definition st_new (w : world) : world * oid :=
  (mkW (w_heap w) (w_next w) (dset (w_onext w) obj_blank (w_objs w)) (w_onext w + 1), w_onext w).

(* dst.s = src.s *)
Definition st_copy_scalar (s : sattr) (src dst : oid) (w : world) : res world :=
  do so <- wobj w src ;;
  do d <- wobj w dst ;;
  Ok (put_obj dst (set_s s (get_s s so) d) w).

(* dst.a = set(src.a)  /  dict(src.a)  [sets of immutable elements]: a NEW container, same elements *)
Definition st_copy_fresh (a : cattr) (src dst : oid) (w : world) : res world :=
  do so <- wobj w src ;;
  do c <- attr a so ;;
  match hget w c with
  | None => Err OtherErr
  | Some v =>
    let '(w1, c') := alloc v w in
    do d <- wobj w1 dst ;;
    Ok (put_obj dst (set_c a c' d) w1)
  end.

(* dst.a = src.a : the SAME container *)
Definition st_share (a : cattr) (src dst : oid) (w : world) : res world :=
  do so <- wobj w src ;;
  do c <- attr a so ;;
  do d <- wobj w dst ;;
  Ok (put_obj dst (set_c a c d) w).

(* for t1 in src: dest[t1] = {} ; for t2 in src[t1]: dest[t1][t2] = src[t1][t2] *)
Definition copy_row (row : dict Z) : dict Z :=
  fold_left (fun r kv => dset (fst kv) (snd kv) r) row [].

Definition copy_rows (Ts Td : tbl Z) : tbl Z :=
  fold_left (fun acc kr => dset (fst kr) (copy_row (snd kr)) acc) Ts Td.

(* the loop above with src = src_obj.a and dest = dst_obj.a: IN PLACE on dest.
   src and dest the same dict: every row is replaced by {} before it is read. *)
Definition st_copy_rows (a : cattr) (src dst : oid) (w : world) : res world :=
  do so <- wobj w src ;;
  do d <- wobj w dst ;;
  do cs <- attr a so ;;
  do cd <- attr a d ;;
  match hget w cs, hget w cd with
  | Some (CTbl Ts), Some (CTbl Td) =>
    if Z.eqb cs cd then Ok (mutate cd (CTbl (map (fun kr => (fst kr, [])) Ts)) w)
    else Ok (mutate cd (CTbl (copy_rows Ts Td)) w)
  | Some _, Some _ => Err TypeErr
  | _, _ => Err OtherErr
  end.
