(* C01, object level (definitions only).

   Bipartition objects are cells of a store.  The tree's edges (Edge._bipartition), the list
   Tree.bipartition_encoding and every list an earlier encoding returned to the caller REFER to cells.
   encode_bipartitions / update_bipartitions are transcribed as to WHICH object is created, bound to an
   edge, written in place and put into the returned list:

     first pass (per retained edge, in tree_edges order)
         edge.bipartition = _bipartition.Bipartition(compile_bipartition=False, is_mutable=True)   NEW object
         edge.bipartition._leafset_bitmask = leafset_bitmask                                       write in place
         edge.bipartition._is_rooted = self._is_rooted                                             write in place
     second pass   map(_compile_bipartition, tree_edges)
         edge.bipartition.compile_split_bitmask(tree_leafset_bitmask=..., is_mutable=...)          write in place
         return edge.bipartition                                                                   the object itself
     self.bipartition_encoding = None | list(...)                                                  a new list

   Every other operation on the tree (child lists, rerooting, pruning, collapsing, new nodes ...) changes
   the structure and the rooting flag; a node keeps its Edge object and the edge its Bipartition object;
   nothing but encode_bipartitions writes to a Bipartition that is bound to an edge of an encoded tree
   (src: the only assignments to Edge.bipartition / Bipartition attributes outside _bipartition.py are in
   Tree.encode_bipartitions and in Tree.from_split_bitmasks on the tree it creates).

   The values (which masks) come from the value-level model Model/C01Model.v encode_f.            *)
From Coq Require Import ZArith List Bool.
From DV Require Import Model.PyPrims Model.Tree Gen.BitFns Model.C01Model Model.C01GenPrims.
Import ListNotations.
Open Scope Z_scope.

(* ---------------------------------------------------------------------------------------- *)
(* store of Bipartition objects; node id -> cell of that node's edge                          *)

Definition ostore := list (Z * bip).

Fixpoint st_get (s : ostore) (c : Z) : option bip :=
  match s with
  | [] => None
  | (k, b) :: r => if Z.eqb k c then Some b else st_get r c
  end.

Fixpoint em_get (m : list (Z * Z)) (k : Z) : option Z :=
  match m with
  | [] => None
  | (a, b) :: r => if Z.eqb a k then Some b else em_get r k
  end.

Record oheap : Type := mkOH {
  oh_store : ostore;             (* cell -> attributes of the Bipartition object *)
  oh_next : Z;                   (* cells >= oh_next have never been allocated *)
  oh_emap : list (Z * Z)         (* node id -> cell held by that node's Edge._bipartition (absent: None) *)
}.

(* Bipartition(...): a new object *)
Definition oh_alloc (b : bip) (h : oheap) : Z * oheap :=
  (oh_next h, mkOH ((oh_next h, b) :: oh_store h) (oh_next h + 1) (oh_emap h)).

(* <object>.<attr> = v / a method that assigns attributes of self: the SAME object, new contents *)
Definition oh_write (c : Z) (f : bip -> bip) (h : oheap) : oheap :=
  match st_get (oh_store h) c with
  | Some b => mkOH ((c, f b) :: oh_store h) (oh_next h) (oh_emap h)
  | None => h
  end.

(* edge.bipartition = <object> *)
Definition oh_bind (nid c : Z) (h : oheap) : oheap :=
  mkOH (oh_store h) (oh_next h) ((nid, c) :: oh_emap h).

Definition oh_slot (h : oheap) (nid : Z) : option Z := em_get (oh_emap h) nid.

(* ---------------------------------------------------------------------------------------- *)
(* one tree and what its caller holds                                                        *)

Record otree : Type := mkOT {
  ot_heap : oheap;
  ot_tree : tree;
  ot_rooted : option bool;
  ot_stored : option (list Z);   (* Tree.bipartition_encoding: None or a list of object references *)
  ot_saved : list (list Z)       (* what earlier encodings returned and the caller kept, oldest first *)
}.

Definition ot_init (rooted : option bool) (t : tree) : otree :=
  mkOT (mkOH [] 0 []) t rooted None [].

(* Bipartition(compile_bipartition=False, is_mutable=True) *)
Definition init_obj : bip := mkB (Some 0) (Some 0) None None None (Some true).

(* compile_split_bitmask(tree_leafset_bitmask=tm, is_mutable=mut) on an object of the first pass *)
Definition compiled_obj (mut : bool) (tm : Z) (b : bip) : bip :=
  match b_leafset b with
  | Some ls =>
    if Z.eqb tm 0 then b
    else mkB (Some (compile_split (b_rooted b) tm ls)) (Some ls) (Some tm)
             (Some (py_least_significant_set_bit tm)) (b_rooted b) (Some mut)
  | None => b
  end.

Definition first_pass_edge (r : option bool) (h : oheap) (e : Z * (Z * Z)) : oheap :=
  let '(c, h1) := oh_alloc init_obj h in
  let h2 := oh_bind (fst e) c h1 in
  let h3 := oh_write c (set_b_leafset (Some (fst (snd e)))) h2 in
  oh_write c (set_b_rooted r) h3.

Definition second_pass_edge (mut : bool) (tm : Z) (hc : oheap * list Z) (e : Z * (Z * Z)) : oheap * list Z :=
  match oh_slot (fst hc) (fst e) with
  | Some c => (oh_write c (compiled_obj mut tm) (fst hc), snd hc ++ [c])
  | None => hc
  end.

(* encode_bipartitions(suppress_unifurcations=su, collapse_unrooted_basal_bifurcation=cb,
   suppress_storage=ss, is_bipartitions_mutable=mut) (update_bipartitions passes its arguments on); the
   caller keeps what it is given: the returned list, or with suppress_storage the objects on the edges *)
Definition obj_encode (su cb ss mut : bool) (acc : Z -> Z) (s : otree) : otree :=
  let R := encode_f su cb acc (ot_rooted s) (ot_tree s) in
  let entries := r_edges R in
  let tm := fst (snd (last entries (0, (0, 0)))) in
  let h1 := fold_left (first_pass_edge (r_rooted R)) entries (ot_heap s) in
  let hc := fold_left (second_pass_edge mut tm) entries (h1, []) in
  mkOT (fst hc) (r_tree R) (r_rooted R) (if ss then None else Some (snd hc)) (ot_saved s ++ [snd hc]).

(* any operation that changes structure / rooting and is not asked to update the bipartitions *)
Definition obj_edit (t : tree) (r : option bool) (s : otree) : otree :=
  mkOT (ot_heap s) t r (ot_stored s) (ot_saved s).

(* Tree.suppress_unifurcations(update_bipartitions=True) (wave 8): the one operation that MAINTAINS the stored
   list instead of encoding again.  Transcribed as to which objects stay in Tree.bipartition_encoding:

     if update_bipartitions and self.bipartition_encoding: bipartitions_to_delete = set()
     per node nd with exactly one child:   bipartitions_to_delete.add(id(nd.edge.bipartition))   the IDENTITY of the object
     if bipartitions_to_delete:
         self.bipartition_encoding = [b for b in old_encoding if id(b) not in bipartitions_to_delete]
                                                                           a new list, the SAME objects, none written

   (without a stored list, with an empty one and without outdegree-one nodes the stored list stays: the same
   contents as the filter with nothing to delete).  The structure it leaves (t, r) is taken as given, as for
   obj_edit (the splice itself is C03's subject; the history oracle checks that no outdegree-one node is left).
   The getter's new object for an outdegree-one node whose edge never had one is bound to the REMOVED node's edge:
   not reachable from the tree, not modelled.  No object is created, rebound or written, and the caller is
   handed nothing: ot_saved (what ENCODINGS returned) stays. *)
Definition is_unary (n : tree) : bool := match t_kids n with [_] => true | _ => false end.

Definition unary_ids (t : tree) : list Z := map t_id (filter is_unary (postorder t)).

Definition supp_deleted (h : oheap) (t : tree) : list Z :=
  flat_map (fun k => match oh_slot h k with Some c => [c] | None => [] end) (unary_ids t).

Definition supp_keep (del : list Z) (c : Z) : bool := negb (existsb (Z.eqb c) del).

Definition obj_supp (t : tree) (r : option bool) (s : otree) : otree :=
  mkOT (ot_heap s) t r
       (option_map (filter (supp_keep (supp_deleted (ot_heap s) (ot_tree s)))) (ot_stored s))
       (ot_saved s).

Inductive hstep : Type :=
| HEnc (su cb ss mut : bool)
| HEdit (t : tree) (rooted : option bool)
| HSupp (t : tree) (rooted : option bool)
| HFail.                          (* the implementation raised: nothing further is compared *)

Definition obj_step (acc : Z -> Z) (s : otree) (st : hstep) : otree :=
  match st with
  | HEnc su cb ss mut => obj_encode su cb ss mut acc s
  | HEdit t r => obj_edit t r s
  | HSupp t r => obj_supp t r s
  | HFail => s
  end.

(* ---------------------------------------------------------------------------------------- *)
(* observation: every reference reachable from the tree and from the caller, with the object's
   attributes                                                                                 *)

Definition oref := option (Z * bip).

Definition deref (h : oheap) (c : Z) : oref :=
  match st_get (oh_store h) c with Some b => Some (c, b) | None => None end.

Record hobs : Type := mkHO {
  ho_tree : tree; ho_rooted : option bool;
  ho_edges : list (Z * oref);            (* post-order: node id, Edge._bipartition *)
  ho_stored : option (list oref);
  ho_saved : list (list oref)
}.

Definition obj_observe (s : otree) : hobs :=
  let h := ot_heap s in
  mkHO (ot_tree s) (ot_rooted s)
       (map (fun n => (t_id n, match oh_slot h (t_id n) with Some c => deref h c | None => None end))
            (postorder (ot_tree s)))
       (option_map (map (deref h)) (ot_stored s))
       (map (map (deref h)) (ot_saved s)).

(* identities are compared up to renaming: tokens by order of first sight over the whole history *)
Definition ref_tok (r : oref) : Z := match r with Some (c, _) => c | None => -1 end.

Definition hobs_toks (o : hobs) : list Z :=
  map (fun e => ref_tok (snd e)) (ho_edges o) ++
  match ho_stored o with Some l => map ref_tok l | None => [] end ++
  concat (map (map ref_tok) (ho_saved o)).

Fixpoint tok_canon_go (seen : list (Z * Z)) (n : Z) (l : list Z) : list Z :=
  match l with
  | [] => []
  | c :: r =>
    if Z.ltb c 0 then c :: tok_canon_go seen n r
    else match em_get seen c with
         | Some k => k :: tok_canon_go seen n r
         | None => n :: tok_canon_go ((c, n) :: seen) (n + 1) r
         end
  end.

Definition tok_canon (l : list Z) : list Z := tok_canon_go [] 0 l.

Definition bip_eqb (a b : bip) : bool :=
  oz_eqb (b_split a) (b_split b) && oz_eqb (b_leafset a) (b_leafset b) &&
  oz_eqb (b_tree_leafset a) (b_tree_leafset b) && oz_eqb (b_lrb a) (b_lrb b) &&
  ob_eqb (b_rooted a) (b_rooted b) && ob_eqb (b_mutable a) (b_mutable b).

(* same object contents and same None-ness; the identity is compared through the tokens *)
Definition oref_eqb (a b : oref) : bool :=
  match a, b with
  | Some (_, x), Some (_, y) => bip_eqb x y
  | None, None => true
  | _, _ => false
  end.

Definition hobs_eqb (a b : hobs) : bool :=
  tree_eqb (ho_tree a) (ho_tree b) && ob_eqb (ho_rooted a) (ho_rooted b) &&
  list_eqb (fun x y => Z.eqb (fst x) (fst y) && oref_eqb (snd x) (snd y)) (ho_edges a) (ho_edges b) &&
  option_eqb (list_eqb oref_eqb) (ho_stored a) (ho_stored b) &&
  list_eqb (list_eqb oref_eqb) (ho_saved a) (ho_saved b).

(* ---------------------------------------------------------------------------------------- *)
(* correspondence case: a history on one tree, the implementation's observation after the steps
   that have one                                                                               *)

Inductive hcase : Type :=
| HCase (acc : list (Z * Z)) (rooted : option bool) (t : tree) (steps : list (hstep * option hobs)).

Fixpoint hist_run (acc : Z -> Z) (s : otree) (steps : list (hstep * option hobs)) : list (hobs * hobs) :=
  match steps with
  | [] => []
  | (HFail, _) :: _ => []
  | (st, o) :: r =>
    let s' := obj_step acc s st in
    match o with
    | Some e => (obj_observe s', e) :: hist_run acc s' r
    | None => hist_run acc s' r
    end
  end.

Definition hcase_ok (c : hcase) : bool :=
  match c with
  | HCase acc rooted t steps =>
    let pairs := hist_run (lookup acc) (ot_init rooted t) steps in
    forallb (fun p => hobs_eqb (fst p) (snd p)) pairs &&
    list_eqb Z.eqb (tok_canon (concat (map (fun p => hobs_toks (fst p)) pairs)))
                   (concat (map (fun p => hobs_toks (snd p)) pairs))
  end.

Definition hcase_show (c : hcase) : list hobs * list Z :=
  match c with
  | HCase acc rooted t steps =>
    let pairs := hist_run (lookup acc) (ot_init rooted t) steps in
    (map fst pairs, tok_canon (concat (map (fun p => hobs_toks (fst p)) pairs)))
  end.

(* all C01 cases *)
Inductive xcase : Type :=
| XBase (c : case)
| XHist (h : hcase).

Definition xcase_ok (x : xcase) : bool :=
  match x with XBase c => case_ok c | XHist h => hcase_ok h end.

Inductive xshown : Type :=
| XSBase (s : shown)
| XSHist (s : list hobs * list Z).

Definition xcase_show (x : xcase) : xshown :=
  match x with XBase c => XSBase (case_show c) | XHist h => XSHist (hcase_show h) end.
