(* C12, second wave: specification-level definitions used by the theorems about the rebuilt
   AnnotationSet containers and about the image of the copy.

   ann_state h y done : in heap h the object y has no `_annotations` when done = [], otherwise
   y._annotations is an AnnotationSet (class AnnotationSet, target y) whose _item_list lists exactly the
   second components of `done`, in that order (keys 0, 1, 2, ...), and whose _item_set holds the same
   members in the same (insertion) order. *)
From Coq Require Import ZArith List Bool Lia.
From DV Require Import Model.PyPrims Model.C12Model.
Import ListNotations.
Open Scope Z_scope.

Fixpoint ibody (i : Z) (done : list (Z * Z)) : list (val * val) :=
  match done with
  | [] => []
  | p :: r => (pidx i, R (snd p)) :: ibody (i + 1) r
  end.

Definition zbody (done : list (Z * Z)) : list (val * val) := map (fun p => (R (snd p), PNone)) done.

Definition AnnState (s : st) (y : Z) (done : list (Z * Z)) : Prop :=
  match done with
  | [] => bget (body_of s y) NM_ANN = None
  | _ :: _ =>
    exists sy ly zy, bget (body_of s y) NM_ANN = Some (R sy)
      /\ hget (sh s) sy = Some (mkObj CLS_ANNSET KAnnSet [(NM_ILIST, R ly); (NM_ISET, R zy); (NM_TARGET, R y)])
      /\ hget (sh s) ly = Some (mkObj CLS_LIST KList (ibody 0 done))
      /\ hget (sh s) zy = Some (mkObj CLS_SET KSet (zbody done))
  end.

(* the members of an owned annotation set are pairwise distinct (it is an ordered SET) *)
Fixpoint nodup_vals (vs : list val) : bool :=
  match vs with
  | [] => true
  | v :: r => negb (existsb (val_eqb v) r) && nodup_vals r
  end.

Definition items_nodup_ok (h : heap) : bool :=
  forallb (fun ob => negb (is_annk (okind ob)) || nodup_vals (ann_items h ob)) h.

(* the `_taxa` list of a namespace is private to it: no other reference to it anywhere, and no two
   namespaces have the same list *)
Definition taxa_lists (h : heap) : list Z :=
  flat_map (fun ob => match okind ob with
                      | KNamespace => match bget (obody ob) NM_TAXA with Some (R lt) => [lt] | _ => [] end
                      | _ => []
                      end) h.

Definition is_ref_in (l : list Z) (v : val) : bool := match v with R a => memz a l | P _ => false end.

Fixpoint nodup_z (l : list Z) : bool :=
  match l with [] => true | a :: r => negb (memz a r) && nodup_z r end.

Definition taxa_private_ok (h : heap) : bool :=
  let tl := taxa_lists h in
  nodup_z tl &&
  forallb (fun ob => forallb (fun e => negb (is_ref_in tl (fst e))
                                       && (negb (is_ref_in tl (snd e))
                                           || (kind_eqb (okind ob) KNamespace && val_eqb (fst e) NM_TAXA)))
                             (obody ob)) h.

(* every AnnotationSet object is the `_annotations` of some annotable object *)
Definition annsets_owned (h : heap) : bool :=
  let ow := owned_list h in
  forallbi (fun o ob => negb (kind_eqb (okind ob) KAnnSet) || memz o ow) 0 h.

(* an owned AnnotationSet has the attributes _item_list, _item_set and target only, its target is its
   owner, and its _item_set holds members of its _item_list only *)
Definition owned_set_ok (h : heap) (x : Z) (ob : obj) : bool :=
  match bget (obody ob) NM_ANN with
  | Some (R sx) =>
    match hget h sx with
    | Some sxo =>
      forallb (fun e => is_prim (fst e) &&
                        (val_eqb (fst e) NM_ILIST || val_eqb (fst e) NM_ISET
                         || (val_eqb (fst e) NM_TARGET && (is_prim (snd e) || val_eqb (snd e) (R x)))))
              (obody sxo)
      && match bget (obody sxo) NM_ISET with
         | Some (R zx) =>
           match hget h zx with
           | Some zo => forallb (fun e => is_prim (snd e)
                                          && (is_prim (fst e) || existsb (val_eqb (fst e)) (ann_items h ob)))
                                (obody zo)
           | None => true
           end
         | _ => true
         end
    | None => true
    end
  | _ => true
  end.

Definition owned_shape_ok (h : heap) : bool :=
  forallbi (fun x ob => negb (is_annk (okind ob)) || owned_set_ok h x ob) 0 h.

(* hypotheses of the theorems about the annotation sets and about single-valuedness *)
Definition wf_heap3 (h : heap) : bool := items_nodup_ok h && taxa_private_ok h.

(* additional hypotheses of the image theorems (isomorphism onto the reachable sets) *)
Definition wf_heap3s (h : heap) : bool := annsets_owned h && owned_shape_ok h.

(* the owned annotation sets and their two containers *)
Definition owned_conts (h : heap) : list Z :=
  flat_map (fun ob => if is_annk (okind ob)
                      then match bget (obody ob) NM_ANN with
                           | Some (R sx) =>
                             sx :: match hget h sx with
                                   | Some sxo => refs_of (match bget (obody sxo) NM_ILIST with Some v => [v] | None => [] end)
                                                 ++ refs_of (match bget (obody sxo) NM_ISET with Some v => [v] | None => [] end)
                                   | None => []
                                   end
                           | _ => []
                           end
                      else []) h.

(* the root is not a `_taxa` list; no memo seed is a tuple, a `_taxa` list, an owned annotation set or
   one of its containers *)
Definition root_seeds_ok (h : heap) (seeds : list Z) (root : Z) : bool :=
  negb (memz root (taxa_lists h))
  && forallb (fun a => negb (memz a (taxa_lists h))
                       && match kind_at h a with Some KTuple => false | _ => true end
                       && negb (memz a (owned_conts h))) seeds.

(* ---- the image of a copy (statements of the isomorphism theorems) --------------------------------- *)

(* o is the AnnotationSet, its _item_list or its _item_set, rebuilt for the recorded copy yy of the
   annotable source object x, which the root reaches *)
Definition copy_cont (h : heap) (s' : st) (root : Z) (o : Z) : Prop :=
  exists x yy ox oy sy soy, In (x, yy) (sc s') /\ reach h root x /\ hget h x = Some ox /\ is_annk (okind ox) = true
    /\ hget (sh s') yy = Some oy /\ bget (obody oy) NM_ANN = Some (R sy) /\ hget (sh s') sy = Some soy
    /\ (o = sy \/ bget (obody soy) NM_ILIST = Some (R o) \/ bget (obody soy) NM_ISET = Some (R o)).

(* a is the owned AnnotationSet, its _item_list or its _item_set, of the annotable source object x whose
   recorded copy b the copy reaches *)
Definition src_cont (h : heap) (s' : st) (y : Z) (a : Z) : Prop :=
  exists x b ox sx sxo, In (x, b) (sc s') /\ reach (sh s') y b /\ hget h x = Some ox /\ is_annk (okind ox) = true
    /\ bget (obody ox) NM_ANN = Some (R sx) /\ hget h sx = Some sxo
    /\ (a = sx \/ bget (obody sxo) NM_ILIST = Some (R a) \/ bget (obody sxo) NM_ISET = Some (R a)).

(* the check of the correspondence run (second wave): case_ok2 and the additional hypotheses *)
Definition case_ok3 (c : case) : bool :=
  case_ok2 c &&
  match c_expect c with
  | ESkip _ => true
  | _ => wf_heap3 (c_heap c) && root_seeds_ok (c_heap c) (route_seeds (c_heap c) (c_route c)) (c_root c)
  end.

(* counted separately by the harness: the dumped heap also satisfies the hypotheses of the image theorems *)
Definition case_iso_hyp (c : case) : bool :=
  match c_expect c with
  | ESkip _ => true
  | _ => wf_heap3s (c_heap c)
  end.
