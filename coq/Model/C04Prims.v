(* C04: run-time library of the translator py/dv/gen_treecompare.py (output coq/Gen/TreeCompare.v).

   The generated code is Python's treecompare functions statement by statement, in the state-and-exception
   monad M over the `world` of Model/C04Model.v.  Everything the translated functions do NOT define themselves -
   the objects they are handed (Tree, Edge, Bipartition lists, dicts, sets) and the methods of those objects -
   is given here, each with the Python construct it stands for.  This file is the trusted part of the
   translator tie: the claim is that these definitions say what the Python constructs do on the
   representation chosen (trees = indices into the world, an Edge = (tree, head node id), a Bipartition = its
   split mask, a float = integer number of length units, the Euclidean distance = its radicand).
   The Tree methods themselves (encode_bipartitions, bipartition_edge_map) are the hand-written model. *)
From Coq Require Import ZArith List Bool.
From DV Require Import Model.PyPrims Model.Tree Model.C04Model.
Import ListNotations.
Open Scope Z_scope.

Definition M (A : Type) : Type := world -> wres A.

Definition ret {A} (a : A) : M A := fun w => (Ok a, w).
Definition mbind {A B} (m : M A) (f : A -> M B) : M B := fun w => wbind (m w) (fun a w' => f a w').
Definition mseq {A B} (m : M A) (k : M B) : M B := mbind m (fun _ => k).
Definition raise {A} (e : err) : M A := fun w => (Err e, w).
Definition lift {A} (r : res A) : M A := fun w => (r, w).

(* try: <body> except <exception class>: <handler>   (the world keeps the effects of the body) *)
Definition mtry {A} (body : M A) (cls : err) (handler : M A) : M A :=
  fun w => match body w with
           | (Err e, w') => if err_eqb e cls then handler w' else (Err e, w')
           | r => r
           end.

(* for x in <list>: <body>   with the tuple s of the variables the body updates *)
Fixpoint mfor {A S} (l : list A) (body : A -> S -> M S) (s : S) : M S :=
  match l with
  | [] => ret s
  | x :: r => mbind (body x s) (fun s' => mfor r body s')
  end.

(* ---- values ---- *)
Definition tree_ref := nat.                      (* a Tree object: its index in the world *)
Definition edge_ref := (nat * Z)%type.           (* an Edge object: (tree, head node id) *)
Definition enc_val := (list Z * bool)%type.      (* a list of Bipartition objects: split masks, and whether
                                                    the objects are immutable (hashable) *)
Inductive attr_name := AttrLength.               (* the string "length" *)
Inductive value_ctor := CtorFloat.               (* the builtin float *)

(* x is None / x is not None, on any optional value *)
Definition p_is_none {A} (x : option A) : bool := match x with None => true | Some _ => false end.

(* tree.taxon_namespace  (the identity of the namespace object) *)
Definition p_taxon_namespace (t : tree_ref) : M Z :=
  fun w => (do st <- get_t w t ;; Ok (ts_ns st), w).
(* a is not b   on namespace objects *)
Definition p_is_not (a b : Z) : bool := negb (Z.eqb a b).

(* tree.encode_bipartitions() *)
Definition p_encode_bipartitions (mg : bool) (t : tree_ref) : M unit := fun w => encode_at mg w t.

(* tree.bipartition_encoding *)
Definition p_bipartition_encoding (t : tree_ref) : M (option enc_val) :=
  fun w => (do st <- get_t w t ;;
            Ok (match ts_enc st with Some l => Some (l, ts_frozen st) | None => None end), w).

(* set(x) for x a list of Bipartitions or None: hashing a mutable Bipartition asserts; set(None) is a TypeError *)
Definition p_set (x : option enc_val) : M (list Z) :=
  match x with
  | None => raise TypeErr
  | Some (l, frozen) => if negb frozen && negb (is_nil l) then raise AssertErr else ret (dedup l)
  end.
(* a.difference(b) on sets *)
Definition p_difference (a b : list Z) : list Z := filter (fun x => negb (memz x b)) a.
(* len(x) *)
Definition p_len {A} (l : list A) : Z := Z.of_nat (length l).

(* iteration over / membership in  tree.bipartition_encoding  (a list, or None: TypeError) *)
Definition p_iter_encoding (x : option enc_val) : M (list Z) :=
  match x with None => raise TypeErr | Some (l, _) => ret l end.
Definition p_in_encoding (b : Z) (x : option enc_val) : M bool :=
  match x with None => raise TypeErr | Some (l, _) => ret (memz b l) end.

(* tree.bipartition_edge_map : dict Bipartition -> Edge *)
Definition p_bipartition_edge_map (mg : bool) (t : tree_ref) : M (list (Z * edge_ref)) :=
  fun w => match bmap_at mg w t with
           | (Ok m, w') => (Ok (map (fun kv => (fst kv, (t, snd kv))) m), w')
           | (Err e, w') => (Err e, w')
           | (OutOfFuel, w') => (OutOfFuel, w')
           end.
(* dict(d): a copy *)
Definition p_dict {V} (d : list (Z * V)) : list (Z * V) := d.
(* for k in d: the keys in insertion order *)
Definition p_keys {V} (d : list (Z * V)) : list Z := map fst d.
(* d[k] *)
Definition p_getitem {V} (d : list (Z * V)) (k : Z) : M V :=
  match zlookup k d with Some v => ret v | None => raise KeyErr end.
(* d.pop(k): the value and the dict without k *)
Definition p_pop {V} (d : list (Z * V)) (k : Z) : M (V * list (Z * V)) :=
  match dict_pop k d with Some r => ret r | None => raise KeyErr end.
(* d.get(k) *)
Definition p_get {V} (d : list (Z * V)) (k : Z) : option V := zlookup k d.
(* d[k] = v *)
Definition p_setitem {V} (d : list (Z * V)) (k : Z) (v : V) : list (Z * V) := dict_set k v d.

(* getattr(edge, "length") *)
Definition p_getattr (e : edge_ref) (a : attr_name) : M (option Z) :=
  fun w => (do x <- info_at w (fst e) (snd e) ;; Ok (fst x), w).
(* edge.tail_node  (None for the seed edge / an edge taken out of the tree) *)
Definition p_tail_node (e : edge_ref) : M (option unit) :=
  fun w => (do x <- info_at w (fst e) (snd e) ;; Ok (if snd x then None else Some tt), w).

(* float(x) for x a number or None *)
Definition p_construct (c : value_ctor) (x : option Z) : M Z :=
  match x with Some v => ret v | None => raise TypeErr end.

(* l.append(x) *)
Definition p_append {A} (l : list A) (x : A) : list A := l ++ [x].
(* l[-1] *)
Definition p_last {A} (l : list A) : M A :=
  match rev l with x :: _ => ret x | [] => raise IndexErr end.
(* sum(l), abs(x), pow(x, 2), math.sqrt(x): a Euclidean distance is represented by its radicand *)
Definition p_sum (l : list Z) : Z := fold_right Z.add 0 l.
Definition p_abs (x : Z) : Z := Z.abs x.
Definition p_pow (x n : Z) : Z := Z.pow x n.
Definition p_sqrt (x : Z) : Z := x.
