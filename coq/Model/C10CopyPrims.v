(* C10: run-time library of the generated coq/Gen/NamespaceCopy.v (py/dv/gen_nscopy.py): the
   constructor / copy protocol of TaxonNamespace.

   TRUSTED: the meaning of the Python constructs the translated functions use.
   * A constructor call receives the positional arguments as `carg`s (another namespace, by handle,
     or an iterable of Taxon objects and label strings) and the keywords as an association list.
   * `self` under construction is an `ns` record whose attributes are assigned one at a time
     (attr_set); `{}` is rendered as `VKw []`, `[]` as `VList []`.
   * copy.deepcopy(x, memo) of an attribute value (attr_deepcopy): ints and bools are returned as
     they are; a dict is rebuilt entry by entry with every Taxon key / value replaced by memo[id(t)]
     (C10Model.ren; a Taxon that is not in the memo would be copied into a fresh object - that needs an
     index-map key that is not a member, excluded by the invariant, and is left as it is here).
   * other.__dict__ is iterated in attribute-creation order = the order of the assignments in
     __init__ (the generator emits that list); attributes that are not part of the modelled state
     (label, comments, annotations) are not represented. *)
From Coq Require Import ZArith List Bool String.
From DV Require Import Model.PyPrims Model.C10Model Model.C10ModelExt Model.C10NsPrims Model.C10CopyModel.
Import ListNotations.
Open Scope Z_scope.

Inductive carg := CNs (h : nat) | CItems (l : list pyval).

Inductive fieldid := FTaxa | FAcc | FRev | FCount | FBm | FMut | FCs.

(* the Python attribute behind a field *)
Definition attr_name (f : fieldid) : string :=
  match f with
  | FTaxa => "_taxa" | FAcc => "_taxon_accession_index_map" | FRev => "_accession_index_taxon_map"
  | FCount => "_current_accession_count" | FBm => "_taxon_bitmask_map"
  | FMut => "is_mutable" | FCs => "is_case_sensitive"
  end%string.

Definition ns_blank : ns := mkNs [] [] [] 0 [] true false.

(* self.<attr> = v *)
Definition attr_set (f : fieldid) (v : pyval) (n : ns) : res ns :=
  match f, v with
  | FTaxa, VList [] => Ok (mkNs [] (acc n) (rev n) (count n) (bm n) (is_mut n) (is_cs n))
  | FAcc, VKw [] => Ok (mkNs (taxa n) [] (rev n) (count n) (bm n) (is_mut n) (is_cs n))
  | FRev, VKw [] => Ok (mkNs (taxa n) (acc n) [] (count n) (bm n) (is_mut n) (is_cs n))
  | FBm, VKw [] => Ok (mkNs (taxa n) (acc n) (rev n) (count n) [] (is_mut n) (is_cs n))
  | FCount, VInt z => Ok (mkNs (taxa n) (acc n) (rev n) z (bm n) (is_mut n) (is_cs n))
  | FMut, VBool b => Ok (mkNs (taxa n) (acc n) (rev n) (count n) (bm n) b (is_cs n))
  | FCs, VBool b => Ok (mkNs (taxa n) (acc n) (rev n) (count n) (bm n) (is_mut n) b)
  | _, _ => Err OtherErr          (* a value the record cannot hold *)
  end.

(* self.__dict__[k] = copy.deepcopy(other.__dict__[k], memo) *)
Definition attr_deepcopy (memo : list (tid * tid)) (other : ns) (f : fieldid) (n : ns) : ns :=
  match f with
  | FTaxa => mkNs (map (ren memo) (taxa other)) (acc n) (rev n) (count n) (bm n) (is_mut n) (is_cs n)
  | FAcc => mkNs (taxa n) (map (fun p => (ren memo (fst p), snd p)) (acc other)) (rev n) (count n) (bm n) (is_mut n) (is_cs n)
  | FRev => mkNs (taxa n) (acc n) (map (fun p => (fst p, ren memo (snd p))) (rev other)) (count n) (bm n) (is_mut n) (is_cs n)
  | FCount => mkNs (taxa n) (acc n) (rev n) (count other) (bm n) (is_mut n) (is_cs n)
  | FBm => mkNs (taxa n) (acc n) (rev n) (count n) (map (fun p => (ren memo (fst p), snd p)) (bm other)) (is_mut n) (is_cs n)
  | FMut => mkNs (taxa n) (acc n) (rev n) (count n) (bm n) (is_mut other) (is_cs n)
  | FCs => mkNs (taxa n) (acc n) (rev n) (count n) (bm n) (is_mut n) (is_cs other)
  end.

(* kwargs.pop(k, default) *)
Fixpoint kw_remove (k : string) (kw : list (string * pyval)) : list (string * pyval) :=
  match kw with
  | [] => []
  | (k', v) :: r => if String.eqb k k' then kw_remove k r else (k', v) :: kw_remove k r
  end.

Definition kw_pop (k : string) (d : pyval) (kw : list (string * pyval)) : list (string * pyval) * pyval :=
  (kw_remove k kw, match kw_lookup k kw with Some v => v | None => d end).

(* args[i] *)
Definition args_get (args : list carg) (i : Z) : res carg :=
  if Z.ltb i 0 then Err OtherErr
  else match nth_error args (Z.to_nat i) with Some a => Ok a | None => Err IndexErr end.

Definition args_len (args : list carg) : Z := Z.of_nat (List.length args).

(* iter(other): a namespace yields its members in order *)
Definition carg_iter (mw : mworld) (a : carg) : res (list pyval) :=
  match a with
  | CNs h => match nth_error (mw_nss mw) h with Some n => Ok (taxa_vals (taxa n)) | None => Err OtherErr end
  | CItems l => Ok l
  end.

(* isinstance(other, TaxonNamespace), giving access to the object *)
Definition carg_ns (mw : mworld) (a : carg) : res (option ns) :=
  match a with
  | CNs h => match nth_error (mw_nss mw) h with Some n => Ok (Some n) | None => Err OtherErr end
  | CItems _ => Ok None
  end.

(* isinstance(v, Taxon) *)
Definition py_is_taxon (v : pyval) : bool := match v with VTaxon _ => true | _ => false end.

(* for x in xs: body  (no break / return inside) *)
Fixpoint py_for_w (xs : list pyval) (body : pyval -> world -> res world) (w : world) : res world :=
  match xs with
  | [] => Ok w
  | x :: r => match body x w with Ok w' => py_for_w r body w' | Err e => Err e | OutOfFuel => OutOfFuel end
  end.

Definition kw_nonempty (kw : list (string * pyval)) : bool := match kw with [] => false | _ => true end.
