(* C02: nexusprocessing.parse_comment_metadata_to_annotations - the reader side of metadata comments.
   Executable model, definitions only.

   The function applies one of two regular expressions with re.findall:
     FIGTREE_COMMENT_FIELD_PATTERN = (.+?)=({.+?,.+?}|.+?)(,|$)     for "&..."
     NHX_COMMENT_FIELD_PATTERN     = (.+?)=({.+?,.+?}|.+?)(:|$)     for "&&NHX:..." and "&&..."
   `match_at sep` is the backtracking matcher of Python's `re` specialised to this pattern shape
   (sep = "," or ":"): lazy quantifiers try the shortest extension first, the alternation tries its
   left branch first, "." is any character but "\n", "$" matches at the end of the string and before a
   final "\n".  `findall` scans like re.findall: after a match the search resumes behind it, after a
   failure at the next character.  The matches are non-empty, so no empty-match rule is needed.

   The result is a Python `set` of Annotation objects hashed by id(): the ORDER in which they reach
   item.annotations is not determined by the text.  The model delivers them in match order; the
   correspondence compares up to permutation.

   field_name_map / field_value_types / strip_leading_trailing_spaces are at their defaults (the
   readers call the function with the comment only). *)
From Coq Require Import ZArith List Bool.
From DV Require Import Model.PyPrims Model.Tokenizer Model.Newick Model.C02Meta.
Import ListNotations.
Open Scope Z_scope.

Definition NL : Z := 10.

(* annotation values as the reader builds them *)
Inductive rval : Type := RStr (s : str) | RBool (b : bool) | RList (l : list str).
Definition rannot : Type := (str * rval)%type.

(* group 3: (sep|$) ; result = the text behind the match *)
Definition g3 (sep : Z) (s : str) : option str :=
  match s with
  | [] => Some []
  | c :: r => if c =? sep then Some r
              else match s with [n] => if n =? NL then Some s else None | _ => None end
  end.

(* group 2, right branch .+? : `acc` = the characters taken so far (at least one) *)
Fixpoint lazyB (sep : Z) (acc : str) (r : str) : option (str * str) :=
  match g3 sep r with
  | Some rest => Some (acc, rest)
  | None =>
    match r with
    | [] => None
    | c :: r' => if c =? NL then None else lazyB sep (acc ++ [c]) r'
    end
  end.

Definition altB (sep : Z) (s : str) : option (str * str) :=
  match s with
  | [] => None
  | c :: r => if c =? NL then None else lazyB sep [c] r
  end.

(* group 2, left branch {.+?,.+?} : the second .+? *)
Fixpoint lazyJ (sep : Z) (acc : str) (r : str) : option (str * str) :=
  match r with
  | [] => None
  | c :: r' =>
    match (if c =? RBRACE then g3 sep r' else None) with
    | Some rest => Some (acc, rest)
    | None => if c =? NL then None else lazyJ sep (acc ++ [c]) r'
    end
  end.

Definition startJ (sep : Z) (r : str) : option (str * str) :=
  match r with
  | [] => None
  | c :: r' => if c =? NL then None else lazyJ sep [c] r'
  end.

(* the first .+? of the left branch; result = (whole text of group 2, rest) *)
Fixpoint lazyI (sep : Z) (acc : str) (r : str) : option (str * str) :=
  match r with
  | [] => None
  | c :: r' =>
    match (if c =? COMMA then startJ sep r' else None) with
    | Some (j, rest) => Some (LBRACE :: acc ++ COMMA :: j ++ [RBRACE], rest)
    | None => if c =? NL then None else lazyI sep (acc ++ [c]) r'
    end
  end.

Definition altA (sep : Z) (s : str) : option (str * str) :=
  match s with
  | c0 :: c1 :: r => if (c0 =? LBRACE) && negb (c1 =? NL) then lazyI sep [c1] r else None
  | _ => None
  end.

Definition g2 (sep : Z) (s : str) : option (str * str) :=
  match altA sep s with
  | Some x => Some x
  | None => altB sep s
  end.

(* group 1 (.+?) followed by "=" and the rest of the pattern *)
Fixpoint lazyK (sep : Z) (acc : str) (r : str) : option (str * str * str) :=
  match r with
  | [] => None
  | c :: r' =>
    match (if c =? EQUALS then g2 sep r' else None) with
    | Some (v, rest) => Some (acc, v, rest)
    | None => if c =? NL then None else lazyK sep (acc ++ [c]) r'
    end
  end.

(* pattern.match at the start of s: (group 1, group 2, text behind the match) *)
Definition match_at (sep : Z) (s : str) : option (str * str * str) :=
  match s with
  | [] => None
  | c :: r => if c =? NL then None else lazyK sep [c] r
  end.

(* pattern.findall(s): the (group 1, group 2) pairs *)
Fixpoint findall (sep : Z) (fuel : nat) (s : str) : list (str * str) :=
  match fuel with
  | O => []
  | S f =>
    match match_at sep s with
    | Some (k, v, rest) => (k, v) :: findall sep f rest
    | None => match s with [] => [] | _ :: r => findall sep f r end
    end
  end.

Definition str_true : str := [116; 114; 117; 101].
Definition str_false : str := [102; 97; 108; 115; 101].

Definition ends_with_char (c : Z) (s : str) : bool :=
  match rev s with x :: _ => x =? c | [] => false end.

(* val[1:-1] *)
Definition strip_ends (s : str) : str := removelast (tl s).

Section Conv.
Variable lower : str -> str.

(* the interpretation of the (stripped) value text *)
Definition conv_val (v : str) : rval :=
  if starts_with [LBRACE] v then RList (split_on COMMA (strip_ends v))
  else if starts_with [DQUOTE] v && ends_with_char DQUOTE v then RStr (strip_ends v)
  else if str_eqb (lower v) str_false then RBool false
  else if str_eqb (lower v) str_true then RBool true
  else RStr v.

Definition nhx_prefix : str := [38; 38; 78; 72; 88; 58].   (* "&&NHX:" *)

(* parse_comment_metadata_to_annotations(comment), in match order *)
Definition parse_md (comment : str) : list rannot :=
  let ms :=
      if starts_with nhx_prefix comment then findall COLON (S (length comment)) (skipn 6 comment)
      else if starts_with [AMP; AMP] comment then findall COLON (S (length comment)) (skipn 2 comment)
      else if starts_with [AMP] comment then findall COMMA (S (length comment)) (skipn 1 comment)
      else [] in
  map (fun kv => (py_strip (fst kv), conv_val (py_strip (snd kv)))) ms.

End Conv.
